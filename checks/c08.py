"""C08 — formatting a file never changes the program it denotes.
Decided by spec/Syntax.tla + spec/SyntaxTrace.tla:
(1) [RT] Syntax.tla transcribes the printer's parenthesisation rule (source_printer.rs + the precedence
    table of source.rs) and the parser's precedence climbing (source_parser.rs); TLC enumerates every
    expression tree of the bounded space (SyntaxGen.tla), evaluates Parse(Print(t)) = t on the model and
    prints each tree with the spec's Print(t) and the fully parenthesised text;
(2) every enumerated tree is replayed on the real code (vh syntax-trees): the fully parenthesised text
    is parsed by the real parser (must be the spec's tree: binding), formatted by the real printer at
    widths 40/60/100/120 and parsed again; the same round trip for string literal bodies enumerated by
    TLC, for every .sam file of /repo/tests and /repo/std (also with comments inserted at token
    boundaries) and for generated modules;
(3) the verdict — no syntax error and the same tree up to positions, comments and import order — is
    evaluated by TLC (SyntaxTrace.tla) on every recorded line.  Python only orchestrates.
Disagreements between the transcription and the code (tree notion, printed tokens, the model's verdict)
are MODEL-DRIFT, never a verdict."""
import json, os, re, time, concurrent.futures
from vlib import *

PID = "C08"
KF_ID = "C08-reassociation"
MAX_REPORTS = 5           # VIOLATION lines printed per phase (all failures are counted)

TREE_CFGS = {
    "quick": ["SyntaxGenD2.cfg", "SyntaxGenAtoms.cfg", "SyntaxGenD3q.cfg", "SyntaxGenD3fld.cfg"],
    "thorough": ["SyntaxGenD2.cfg", "SyntaxGenAtoms.cfg", "SyntaxGenAtomsD2.cfg", "SyntaxGenD3ctx.cfg",
                 "SyntaxGenD3a.cfg", "SyntaxGenD3b.cfg", "SyntaxGenD3c.cfg", "SyntaxGenD3d.cfg", "SyntaxGenD3fld.cfg"],
}
STR_CFG = {"quick": "SyntaxGenStr.cfg", "thorough": "SyntaxGenStr8.cfg"}
MODULES = {"quick": dict(gen=300, comments=5, template_comments=120), "thorough": dict(gen=3000, comments=60, template_comments=1500)}


def open_findings():
    """Open findings of C08; VERIF_KF=<file> overrides the path of known-findings.json (development aid)."""
    p = os.environ.get("VERIF_KF")
    if p:
        return [k for k in json.load(open(p)) if k.get("property") == PID and k.get("status") == "open"]
    return known_findings(PID)


def gen_lines(res):
    """The JSON text of every BEHAVIOUR line, un-escaped (without building Python objects)."""
    for m in re.finditer(r'^<<"BEHAVIOUR", "(.*)">>$', res.out, re.M):
        yield m.group(1).replace('\\\\', '\x00').replace('\\"', '"').replace('\x00', '\\')


def split_trace(path, max_bytes=120_000_000, max_lines=250_000):
    """Splits a big trace into chunks TLC can hold; returns [(chunk path, first line number - 1)]."""
    if os.path.getsize(path) <= max_bytes:
        with open(path) as f:
            n = sum(1 for _ in f)
        if n <= max_lines:
            return [(path, 0)]
    chunks, k, size, lines, out, start = [], 0, 0, 0, None, 0
    total = 0
    with open(path) as f:
        for line in f:
            if out is None or size + len(line) > max_bytes or lines >= max_lines:
                if out:
                    out.close()
                p = f"{path}.part{k}"
                out = open(p, "w")
                chunks.append((p, total))
                k += 1
                size = lines = 0
            out.write(line)
            size += len(line)
            lines += 1
            total += 1
    if out:
        out.close()
    return chunks


def judge(trace, tolerate, tag):
    """Runs SyntaxTrace.tla over a trace.  Returns (bad, known, states): bad/known = lists of
    (case, 1-based line number in `trace`, widths text)."""
    cfg = "SyntaxTraceKnown.cfg" if tolerate else "SyntaxTraceStrict.cfg"
    chunks = split_trace(trace)

    def one(i):
        p, off = chunks[i]
        r = tlc("SyntaxTrace", cfg, env={"TRACE": p}, workers=1, timeout=3000, xmx="12g", tag=f"c08j-{tag}-{i}",
                extra=["-continue"])
        return r, off

    with concurrent.futures.ThreadPoolExecutor(max_workers=4) as ex:
        results = list(ex.map(one, range(len(chunks))))
    bad, known, states = [], [], 0
    for (r, off), (p, _) in zip(results, chunks):
        if not r.ok:       # includes a failed POSTCONDITION AllJudged (a line that TLC did not judge)
            log(r.out[-3000:])
            tool_failure(f"SyntaxTrace run failed on {p}: {r.error}")
        n_viol = len(re.findall(r"Invariant Verdict is violated", r.out))
        b = re.findall(r'^<<"BAD", (\d+), (\d+)>>$', r.out, re.M)
        if n_viol != len(b):
            log(r.out[-2000:])
            tool_failure(f"SyntaxTrace on {p}: {n_viol} invariant violations but {len(b)} BAD lines")
        kn = [int(l) for l in re.findall(r'^<<"KNOWN", (\d+)>>$', r.out, re.M)]
        recs = nth_lines(p, [int(l) for l, _ in b] + kn)
        for l, i in b:
            rec = json.loads(recs[int(l)])
            trip = rec["trips"][int(i) - 1]
            bad.append((rec["case"], int(l) + off, trip["widths"], trip["err"]))
        known += [(json.loads(recs[l])["case"], l + off) for l in kn]
        states += r.distinct
        if p != trace:
            os.remove(p)
    return bad, known, states


def nth_lines(path, numbers):
    want = set(numbers)
    out = {}
    with open(path) as f:
        for i, line in enumerate(f, 1):
            if i in want:
                out[i] = line
                if len(out) == len(want):
                    break
    return out


def drift(stats, what, summary, keys):
    for k in keys:
        if summary.get(k, 0):
            stats["drift"][f"{what}:{k}"] = stats["drift"].get(f"{what}:{k}", 0) + summary[k]
            log(f"MODEL-DRIFT: {what}: {k} = {summary[k]}; e.g. {json.dumps(summary.get(k + '_samples', [])[:2])[:1500]}")


def report(phase, bad, make_case, stats):
    """bad: [(case, line, widths, err)] -> replay files + VIOLATION lines (capped), returns #failing cases."""
    if not bad:
        return 0
    cases = make_case(bad)            # [(sort key, case dict, observed)]
    cases.sort(key=lambda x: x[0])
    for _, case, observed in cases[:MAX_REPORTS]:
        path = save_replay(PID, phase, case, "the formatter's output parses without syntax errors to the same tree "
                           "(up to positions, comments and import order)", observed)
        report_violation(PID, path)
    if len(cases) > MAX_REPORTS:
        log(f"[{phase}] {len(cases)} failing cases in total; {MAX_REPORTS} smallest reported")
    stats["failing_cases"][phase] = len(cases)
    return len(cases)


def first_difference(a, b, path=""):
    """For the reader of a replay file only (the verdict is TLC's): where two dumped trees first differ."""
    if type(a) != type(b):
        return path, a, b
    if isinstance(a, dict):
        for k in sorted(set(a) | set(b)):
            if k not in a or k not in b:
                return f"{path}.{k}", a.get(k), b.get(k)
            r = first_difference(a[k], b[k], f"{path}.{k}")
            if r:
                return r
        return None
    if isinstance(a, list):
        if len(a) != len(b):
            return f"{path}[length]", len(a), len(b)
        for i, (x, y) in enumerate(zip(a, b)):
            r = first_difference(x, y, f"{path}[{i}]")
            if r:
                return r
        return None
    return None if a == b else (path, a, b)


def observed_of(rec, widths_txt, err):
    trips = rec["trips"]
    t = next((t for t in trips if (t["err"] or t["reparsed"] != rec["orig"])), trips[0])
    o = {"widths": t["widths"], "syntax_errors_in_output": t["errors"] if t["err"] else []}
    if not t["err"]:
        if rec["kind"] == "expr":
            o["original_tree"] = rec["orig"]
            o["reparsed_tree"] = t["reparsed"]
        fd = first_difference(rec["orig"], t["reparsed"])
        if fd:
            o["first_difference"] = {"at": fd[0], "original": json.dumps(fd[1])[:400], "reparsed": json.dumps(fd[2])[:400]}
    return o


def tree_phase(cfg, fixes, tolerate, stats, samples, d, tier):
    name = cfg[len("SyntaxGen"):-len(".cfg")]
    g = tlc("SyntaxGen", cfg, env={"SYNTAX_FIXES": fixes, "SYNTAX_SKIP_REGION": "1" if tolerate else "0"}, workers=12,
            timeout=3000, xmx="16g", tag=f"c08g-{name}",
            coverage=(name == "Atoms" and tier == "thorough"))
    tlc_must_pass(g, f"SyntaxGen {cfg}")
    trees_path = os.path.join(d, f"trees-{name}.ndjson")
    n = model_bad = 0
    vac = {"kept_parentheses": 0, "dropped_parentheses": 0, "kinds": set()}
    with open(trees_path, "w") as f:
        for s in gen_lines(g):
            f.write(s + "\n")
            n += 1
            if '"ok":false' in s:
                model_bad += 1
            if n <= 20000:      # vacuity: the printer rule both keeps and drops parentheses, every form occurs
                c = json.loads(s)
                np_, nf = c["p"].count("("), c["f"].count("(")
                vac["kept_parentheses"] += 1 if np_ else 0
                vac["dropped_parentheses"] += 1 if np_ < nf else 0
                vac["kinds"].update(re.findall(r'"k":"(\w+)"', s))
    if n == 0:
        tool_failure(f"SyntaxGen {cfg} printed no trees")
    if name == "D2":
        need = {"id", "un", "bin", "call", "field", "tuple", "block", "let", "expr", "lambda", "if", "cond", "guard", "match"}
        if not need <= vac["kinds"] or not vac["kept_parentheses"] or not vac["dropped_parentheses"]:
            tool_failure(f"vacuity: the enumeration of {cfg} misses forms or never exercises the parenthesis rule: {vac}")
        stats["vacuity_D2"] = {"trees_printed_with_parentheses": vac["kept_parentheses"],
                               "trees_printed_with_fewer_parentheses_than_fully_parenthesised": vac["dropped_parentheses"],
                               "node_kinds": sorted(vac["kinds"])}
    if name == "Atoms" and tier == "thorough":
        stats["tlc_coverage_expression_sites_evaluated_in_Syntax_tla"] = len(re.findall(r"of module Syntax: [1-9]", g.out))
    trace = os.path.join(d, f"trace-{name}.ndjson")
    out, _ = vh(["syntax-trees", "--in", trees_path, "--out", trace, "--prefix", f"{name}-"])
    summary = json.loads(out)
    drift(stats, f"trees {cfg}", summary, ["not_parseable", "bind_mismatch", "print_drift", "model_verdict_drift"])
    bad, known, states = judge(trace, tolerate, name)
    stats["tlc_gen_states"] += g.distinct
    stats["tlc_gen_transitions"] += g.generated
    stats["tlc_judge_states"] += states
    stats["trees"] += summary["trees"]
    stats["round_trips"] += summary["round_trips"]
    stats["cases"] += summary["records"]
    stats["model_failures"] += model_bad
    stats["known_tolerated"] += len(known)
    stats["per_cfg"][cfg] = {"trees": n, "model_round_trip_failures": model_bad, "real_round_trip_failures": summary["real_round_trip_failures"],
                             "gen_wall_s": round(g.wall, 1), "judged_bad": len(bad)}
    if len(samples) < 4:
        first = nth_lines(trees_path, [1 + n // 2])
        for l in first.values():
            c = json.loads(l)
            samples.append({"tree_case": {"cfg": cfg, "full": " ".join(c["f"]), "spec_print": " ".join(c["p"]), "model_ok": c["ok"]}})

    def make(bad):
        # case "<name>-<i>" is line i of the trees file; l is its line in the trace
        idx = {case: int(case.rsplit("-", 1)[1]) for case, _, _, _ in bad}
        tls = nth_lines(trees_path, idx.values())
        recs = nth_lines(trace, [l for _, l, _, _ in bad])
        out = []
        for case, l, w, err in bad:
            tl = json.loads(tls[idx[case]])
            src = " ".join(tl["f"])
            out.append((len(src), {"kind": "tree", "cfg": cfg, "src": src, "line": tl}, observed_of(json.loads(recs[l]), w, err)))
        return out

    n_bad = report(f"tree-{name}", bad, make, stats)
    if not n_bad:
        for f in (trees_path, trace):
            if os.path.getsize(f) > 30_000_000:
                os.remove(f)
    return n_bad


def string_phase(cfg, fixes, tolerate, stats, samples, d):
    g = tlc("SyntaxGen", cfg, env={"SYNTAX_FIXES": fixes, "SYNTAX_SKIP_REGION": "0"}, workers=4, timeout=1500, tag="c08g-str")
    tlc_must_pass(g, f"SyntaxGen {cfg}")
    p = os.path.join(d, "strs.ndjson")
    lines = list(gen_lines(g))
    with open(p, "w") as f:
        f.write("\n".join(lines) + "\n")
    if not lines:
        tool_failure("SyntaxGen printed no string literal bodies")
    trace = os.path.join(d, "trace-strs.ndjson")
    out, _ = vh(["syntax-strings", "--in", p, "--out", trace])
    summary = json.loads(out)
    drift(stats, f"strings {cfg}", summary, ["model_verdict_drift"])
    bad, known, states = judge(trace, tolerate, "strs")
    stats["tlc_gen_states"] += g.distinct
    stats["tlc_gen_transitions"] += g.generated
    stats["tlc_judge_states"] += states
    stats["string_literals"] = summary["literals"]
    stats["cases"] += summary["records"]
    stats["round_trips"] += summary["round_trips"]
    stats["model_failures"] += summary["model_round_trip_failures"]
    stats["per_cfg"][cfg] = {"literals": summary["literals"], "model_round_trip_failures": summary["model_round_trip_failures"],
                             "real_round_trip_failures": summary["real_round_trip_failures"], "judged_bad": len(bad)}
    samples.append({"string_cases": summary["samples"][:2]})

    def make(bad):
        out = []
        for case, l, w, err in bad:
            line = json.loads(lines[int(case[1:]) - 1])
            raw = "".join(line["raw"])
            rec = json.loads(nth_lines(trace, [l])[l])
            out.append((len(raw), {"kind": "string", "raw": raw, "line": line}, observed_of(rec, w, err)))
        return out

    return report("string", bad, make, stats)


def module_phase(name, args, tolerate, stats, d):
    trace = os.path.join(d, f"trace-{name}.ndjson")
    out, _ = vh(["syntax-modules", "--out", trace] + args)
    summary = json.loads(out)
    if summary["skipped_syntax_errors"]:
        # a generated module that does not parse is a generator bug; a corpus file that does not is outside the property
        log(f"[{name}] {summary['skipped_syntax_errors']} inputs with syntax errors skipped: {summary['skipped_samples'][:2]}")
    bad, known, states = judge(trace, tolerate, name)
    stats["tlc_judge_states"] += states
    stats["modules"] += summary["modules"]
    stats["cases"] += summary["records"]
    stats["round_trips"] += summary["round_trips"]
    stats["known_tolerated"] += len(known)
    stats["modules_skipped_syntax_errors"] += summary["skipped_syntax_errors"]
    stats["per_phase"][name] = {k: summary[k] for k in ("corpus_files", "comment_variants", "generated", "modules", "in_assoc_region")}
    stats["per_phase"][name]["judged_bad"] = len(bad)
    stats["per_phase"][name]["passing_only_by_open_finding"] = sorted(set(c for c, _ in known))[:10]

    def make(bad):
        out = []
        for case, l, w, err in bad:
            text = open(case).read()
            rec = json.loads(nth_lines(trace, [l])[l])
            out.append((len(text), {"kind": "module", "path": case, "text": text}, observed_of(rec, w, err)))
        return out

    n_bad = report(name, bad, make, stats)
    if not n_bad and os.path.getsize(trace) > 30_000_000:
        os.remove(trace)
    return summary, n_bad


def witness_phase(findings, stats, d):
    """Every open finding is re-run on its witness: KNOWN-FINDING while it still fails."""
    for k in findings:
        w = os.path.join(VERIF, k.get("witness", ""))
        if not k.get("witness") or not os.path.exists(w):
            log(f"open finding without witness file: {k.get('what')}")
            continue
        trace = os.path.join(d, "trace-witness.ndjson")
        vh(["syntax-modules", "--files", w, "--out", trace])
        bad, _, states = judge(trace, False, "witness")
        stats["tlc_judge_states"] += states
        if bad:
            report_known(PID, f"{k['what']} [witness {k['witness']} still fails]")
            stats["open_findings_still_failing"] += 1
            if k.get("id") == KF_ID:
                # and the tolerance of SyntaxTrace.tla is exactly what the witness shows
                bad2, known2, _ = judge(trace, True, "witness-t")
                if bad2 or not known2:
                    log("MODEL-DRIFT: the witness of the re-association finding fails in another way than Regroup describes")
                    stats["drift"]["witness:not-regroup"] = 1
        else:
            log(f"note: the witness {k['witness']} of an open finding no longer fails; the entry can be closed")


def self_test(trace, d):
    """The judge must be able to say no: a passing line with one operator / one flag altered is rejected."""
    line = nth_lines(trace, [1]).get(1)
    if not line:
        tool_failure("self test: empty trace")
    rec = json.loads(line)
    a = json.loads(line)
    a["trips"][0]["err"] = True
    b = json.loads(line)
    b["trips"][0]["reparsed"] = {"k": "bin", "op": "+", "l": rec["orig"], "r": rec["orig"]}
    p = os.path.join(d, "trace-selftest.ndjson")
    write_ndjson(p, [rec, a, b])
    bad, _, _ = judge(p, True, "selftest")
    if sorted(l for _, l, _, _ in bad) != [2, 3]:
        tool_failure(f"self test: SyntaxTrace.tla should reject exactly the two corrupted lines, rejected {bad}")


def new_stats():
    return {"tlc_gen_states": 0, "tlc_gen_transitions": 0, "tlc_judge_states": 0, "trees": 0, "round_trips": 0, "cases": 0,
            "modules": 0, "model_failures": 0, "known_tolerated": 0, "modules_skipped_syntax_errors": 0,
            "open_findings_still_failing": 0, "drift": {}, "per_cfg": {}, "per_phase": {}, "failing_cases": {}}


def run(tier):
    t0 = time.time()
    d = outdir(PID)
    build_harness()
    findings = open_findings()
    tolerate = any(k.get("id") == KF_ID for k in findings)
    out, _ = vh(["syntax-probe"])
    fixes = json.loads(out)["fixes"]
    log(f"[c08] printer revision detected on the real code: repairs {fixes}; tolerate open finding {KF_ID}: {tolerate}")
    stats = new_stats()
    samples = []
    fails = 0
    for cfg in TREE_CFGS[tier]:
        fails += tree_phase(cfg, fixes, tolerate, stats, samples, d, tier)
    self_test(os.path.join(d, "trace-Atoms.ndjson"), d)
    fails += string_phase(STR_CFG[tier], fixes, tolerate, stats, samples, d)
    m = MODULES[tier]
    src = os.path.join(d, "src")
    _, f = module_phase("corpus", ["--corpus", "/repo/tests,/repo/std", "--comments", m["comments"], "--seed", SEED,
                                   "--srcdir", os.path.join(src, "comments")], tolerate, stats, d)
    fails += f
    # the construct-dense templates of spec/CommentsCorpus.txt (C09's corpus), with many comment placements each
    tdir = os.path.join(src, "templates")
    os.makedirs(tdir, exist_ok=True)
    n = 0
    for line in open(os.path.join(VERIF, "spec", "CommentsCorpus.txt")):
        if line.strip() and not line.startswith("#"):
            n += 1
            with open(os.path.join(tdir, f"T{n:02d}.sam"), "w") as tf:
                tf.write(line)
    _, f = module_phase("templates", ["--corpus", tdir, "--comments", m["template_comments"], "--seed", SEED,
                                      "--srcdir", os.path.join(src, "template-comments")], tolerate, stats, d)
    fails += f
    summary, f = module_phase("generated", ["--gen", m["gen"], "--seed", SEED, "--srcdir", os.path.join(src, "gen")]
                              + (["--avoid-assoc-region"] if tolerate else []), tolerate, stats, d)
    fails += f
    if summary["generated_samples"]:
        samples.append({"generated_module": summary["generated_samples"][0][:1200]})
    witness_phase(findings, stats, d)
    if stats["known_tolerated"]:
        log(f"[c08] {stats['known_tolerated']} cases pass only up to the open finding {KF_ID}")
    coverage = {
        "states": stats["tlc_gen_states"] + stats["tlc_judge_states"],
        "transitions": stats["tlc_gen_transitions"] + stats["tlc_judge_states"],
        "traces_validated_against_impl": stats["cases"],
        "samples": samples[:6],
        "printer_revision_detected": fixes,
        "trees_enumerated_by_tlc": stats["trees"],
        "string_literal_bodies_enumerated_by_tlc": stats.get("string_literals", 0),
        "modules_round_tripped": stats["modules"],
        "format_and_reparse_round_trips": stats["round_trips"],
        "widths": [40, 60, 100, 120],
        "model_round_trip_failures": stats["model_failures"],
        "lines_judged_by_SyntaxTrace": stats["tlc_judge_states"],
        "cases_passing_only_by_open_finding": stats["known_tolerated"],
        "open_findings_still_failing": stats["open_findings_still_failing"],
        "model_drift": stats["drift"],
        "failing_cases": stats["failing_cases"],
        "vacuity": {k: stats[k] for k in ("vacuity_D2", "tlc_coverage_expression_sites_evaluated_in_Syntax_tla") if k in stats},
        "per_cfg": stats["per_cfg"],
        "per_phase": stats["per_phase"],
        "inputs_skipped_because_of_syntax_errors": stats["modules_skipped_syntax_errors"],
        "exhaustive": False,
    }
    write_evidence(PID, tier, "model_checking", coverage,
                   ["the canonical dump of harness/src/syntax.rs keeps every syntactic field of the AST except positions, comment "
                    "references and the order/merging of import lines (a class name imported from two modules is dumped as <ambiguous>)",
                    "expression trees: one atom per leaf class and one representative form per non-operator construct, depth <= 3 "
                    "(depth 3 over five binary operators at a time)",
                    "TLC 1.8.0 and the CommunityModules Json/IOUtils overrides are correct"],
                   time.time() - t0, fails)
    return 1 if fails else 0


def replay(path):
    d = outdir(PID)
    case = json.load(open(path))["case"]
    findings = open_findings()
    tolerate = any(k.get("id") == KF_ID for k in findings)
    trace = os.path.join(d, "trace-replay.ndjson")
    if case["kind"] == "tree":
        p = os.path.join(d, "trees-replay.ndjson")
        write_ndjson(p, [case["line"]])
        vh(["syntax-trees", "--in", p, "--out", trace, "--prefix", "replay-"])
    elif case["kind"] == "string":
        p = os.path.join(d, "strs-replay.ndjson")
        write_ndjson(p, [case["line"]])
        vh(["syntax-strings", "--in", p, "--out", trace])
    else:
        p = os.path.join(d, "replay.sam")
        with open(p, "w") as f:
            f.write(case["text"])
        vh(["syntax-modules", "--files", p, "--out", trace])
    bad, known, _ = judge(trace, tolerate, "replay")
    if bad:
        rec = read_ndjson(trace)[0]
        log(json.dumps(observed_of(rec, "", False))[:2000])
        report_violation(PID, path)
        return 1
    if not read_ndjson(trace):
        tool_failure("the replayed input does not parse")
    return 0
