"""C07 — exhaustiveness and usefulness analysis of patterns is exact.
Decided by spec/Patterns.tla + spec/PatternsTrace.tla ([RT] rule transcription):
 (1) per type universe TLC explores EVERY arm list up to the bound (a state = an arm list) and checks that
     the transcription of pattern_matching.rs equals the semantic definitions (Alg = Sem, counterexample
     sound, irrefutable = matches every value) — and prints every arm list as a JSON case with the
     semantic expectation;
 (2) harness `vh patterns-replay` renders every case as real samlang (`match`; one-arm lists also as a
     destructuring `let` and an `if let`), type-checks it with the real checker and records the
     non-exhaustive / irrefutable diagnostics and the reported counterexample; every fifth arm list (and every
     one-arm list) is rendered a second time as a program of three modules: the universe in module U1, a universe
     with the SAME class names and other variant tables (derived mechanically: one variant more per enum / one
     variant less and longer payloads) in module U2 or U3, and the case in a third module, in a function that first
     matches on values of every enum of the other universe and then performs the case's match; one of the two
     universes is imported by name, the values of the other arrive through an accessor class (types by inference
     only).  The semantic verdict of the case's match is the same as in the one-module rendering;
 (3) TLC (PatternsTrace.tla) judges every record with the semantic definitions only: accepted iff
     exhaustive, counterexample denotes only unmatched values (and at least one), if-let flagged iff
     irrefutable.  That is the verdict.  Where the transcribed algorithm predicts another answer than the
     code gave (e.g. another counterexample) it is MODEL-DRIFT, never a violation."""
import json, os, re, time
from concurrent.futures import ThreadPoolExecutor
from vlib import *

PID = "C07"
UNIVERSES = ["E", "M", "P", "O", "W", "T", "N"]
# (longest arm list, lists longer than this hold at most one arm outside the Lite pool)
BOUNDS = {
    "quick":    {"E": (2, 2), "M": (2, 2), "P": (2, 1), "O": (3, 2), "W": (2, 2), "T": (2, 1), "N": (3, 2)},
    "thorough": {"E": (3, 2), "M": (3, 2), "P": (3, 2), "O": (4, 2), "W": (3, 2), "T": (3, 2), "N": (4, 2)},
}
MODEL_INVARIANTS = ["ExhaustiveAgrees", "CexIsSound", "IrrefutableAgrees", "LastUsefulAgrees"]
VERDICT_INVARIANTS = ["NoPanic", "AcceptedIffExhaustive", "CounterexampleSound", "UselessIffIrrefutable"]
CHUNK = 25000           # records per PatternsTrace run; TLC parses the JSON single-threaded, so chunks run in parallel
PARALLEL = 4
MAX_VIOLATIONS_PER_UNIVERSE = 3
EXPECTED = {
    "NoPanic": "the checker does not crash on the match",
    "AcceptedIffExhaustive": "a match / destructuring let is accepted iff every value of the type is matched by some arm",
    "CounterexampleSound": "the reported counterexample is a well-typed pattern, denotes a value, and no arm matches any value it denotes",
    "UselessIffIrrefutable": "an if-let pattern is flagged as useless exactly when it matches every value",
}


def env_of(u, bounds, emit):
    return {"C07_U": u, "C07_ARMS": bounds[0], "C07_FULL": bounds[1], "C07_EMIT": "1" if emit else "0"}


def case_arm_counts(cov_text):
    """Vacuity: for every CASE of the transcription (lowering + pattern_matching.rs) the number of times each
    arm was taken, from TLC's -coverage output.  Guard k is evaluated iff guards 1..k-1 were false, so
    taken_k = g_k - g_(k+1) (last arm: g_k)."""
    spec = open(os.path.join(SPEC, "Patterns.tla")).read().split("\n")
    starts = {}
    for m in re.finditer(r"line (\d+), col (\d+) to line (\d+), col (\d+) of module Patterns: (\d+)", cov_text):
        k = (int(m.group(1)), int(m.group(2)))
        starts[k] = starts.get(k, 0) + int(m.group(5))
    lo = next(i for i, l in enumerate(spec) if "check_matching_pattern (well-typed path)" in l)
    hi = next(i for i, l in enumerate(spec) if "the pattern pools" in l)
    blocks, cur = [], None
    for i in range(lo, hi):
        m = re.match(r"^(.*?)(\bCASE\b|\[\])\s+(\S.*?)\s*->", spec[i])
        if not m:
            continue
        if m.group(2) == "CASE":
            cur = []
            blocks.append(cur)
        if cur is not None:
            cur.append({"line": i + 1, "guard": m.group(3).strip(), "g": starts.get((i + 1, m.start(3) + 1), 0)})
    out = []
    for b in blocks:
        for k, a in enumerate(b):
            out.append({"line": a["line"], "guard": a["guard"],
                        "taken": a["g"] - (b[k + 1]["g"] if k + 1 < len(b) else 0)})
    return out


def vacuity_run():
    """-coverage 1 on a universe with a struct root, a generic enum with an argument, tuple/object/or patterns."""
    r = tlc("Patterns", "PatternsMC.cfg", env={"C07_U": "T", "C07_ARMS": 2, "C07_FULL": 1, "C07_EMIT": "0"},
            workers=8, timeout=900, coverage=True, tag="c07cov")
    tlc_must_pass(r, "Patterns.tla coverage run")
    i = r.out.find("The coverage statistics")
    arms = case_arm_counts(r.out[i:])
    # the only arm that cannot be taken: a counterexample never contains an or-pattern
    never = [a for a in arms if a["taken"] <= 0 and not (a["guard"] == 'a.k = "or"')]
    if not arms or never:
        tool_failure(f"vacuity: CASE arms of the transcription never taken: {never}")
    return {"universe": "T", "states": r.distinct, "case_arms_taken": {f'{a["line"]}:{a["guard"]}': a["taken"] for a in arms}}


def generate(u, bounds, stats):
    """TLC pass 1: model-check Alg = Sem over every arm list and emit the cases."""
    mc = tlc("Patterns", "PatternsMC.cfg", env=env_of(u, bounds, True), workers=8, timeout=2400, tag=f"c07mc{u}", xmx="12g")
    info = {"bounds": {"max_arms": bounds[0], "full_arms": bounds[1]}, "model_disagreement": None}
    if mc.violated in MODEL_INVARIANTS:
        # the transcription of the algorithm contradicts the semantics: a candidate defect of the real checker,
        # to be confirmed (or refuted = drift) on the real code by the replay below
        log(f"MODEL: universe {u}: invariant {mc.violated} fails in Patterns.tla (candidate defect); "
            f"replaying all cases on the real checker to decide")
        log(mc.out[mc.out.find("Error:"):][:1500])
        info["model_disagreement"] = mc.violated
        stats["model_disagreements"] += 1
        mc = tlc("Patterns", "PatternsGen.cfg", env=env_of(u, bounds, True), workers=8, timeout=2400, tag=f"c07gen{u}", xmx="12g")
    tlc_must_pass(mc, f"Patterns.tla universe {u}")
    uni = behaviours_from(mc, "UNIVERSE")
    cases = behaviours_from(mc, "CASE")
    if len(uni) != 1 or len(cases) != mc.distinct - 1:
        tool_failure(f"universe {u}: emitted {len(cases)} cases for {mc.distinct} states")
    alpha = uni[0]["alpha"]
    if alpha != sorted(alpha) or any(len(a.encode()) > 15 for a in alpha):
        tool_failure(f"universe {u}: alpha is not the PStr order of the variant names: {alpha}")
    info.update({"states": mc.distinct, "transitions": mc.generated, "tlc_s": round(mc.wall, 1),
                 "pool_lite": uni[0]["lite"], "pool_full": uni[0]["full"]})
    stats["states"] += mc.distinct
    stats["transitions"] += mc.generated
    return uni[0], cases, info


def judge_chunk(u, rows, tag):
    """TLC pass 2 on one chunk of records.  Returns (violations [(invariant, row)], drift count, states)."""
    d = outdir(PID)
    viols, drift, states = [], 0, 0
    rows = list(rows)
    while rows:
        tr = os.path.join(d, f"trace-{tag}.ndjson")
        write_ndjson(tr, [{"form": r["form"], "arms": r["arms"],
                           "obs": {k: r["obs"][k] for k in ("nonexh", "cex", "useless", "panic")}} for r in rows])
        v = tlc("PatternsTrace", "PatternsTrace.cfg", env={"C07_U": u, "TRACE": tr}, workers=4, timeout=2400,
                tag=f"c07tr{tag}", xmx="6g")
        drifted = [rows[int(p[1]) - 1] for p in v.printed if p[0] == "DRIFT"]
        drift += len(drifted)
        for r in drifted[:3]:
            log(f"MODEL-DRIFT: universe {u}: the transcription in Patterns.tla predicts another answer than the checker "
                f"gave on: {r['src']}  (observed {r['obs']})")
        if v.violated in VERDICT_INVARIANTS:
            l = v.last_l()
            if not l or l > len(rows):
                tool_failure(f"PatternsTrace: cannot locate the violating record ({v.violated})")
            viols.append((v.violated, rows[l - 1]))
            states += v.distinct
            if len(viols) >= MAX_VIOLATIONS_PER_UNIVERSE:
                break
            rows = rows[:l - 1] + rows[l:]      # judge the remaining records as well
            continue
        if not v.ok or v.violated:
            log(v.out[-3000:])
            tool_failure(f"PatternsTrace run failed on {tr}: {v.violated or v.error}")
        if v.distinct != len(rows):
            tool_failure(f"PatternsTrace judged {v.distinct} of {len(rows)} records")
        states += v.distinct
        break
    return viols, drift, states


def python_disagrees(r):
    """Cross-check only (never a verdict): expectation printed by pass 1 vs observation."""
    if r["form"] == "iflet":
        return r["obs"]["useless"] != r["exp"]["irr"]
    return r["obs"]["nonexh"] != (not r["exp"]["exh"]) or r["obs"]["useless"]


def replay_and_judge(u, uni, cases, tag, stats, feats):
    d = outdir(PID)
    cf, of = os.path.join(d, f"cases-{tag}.ndjson"), os.path.join(d, f"obs-{tag}.ndjson")
    write_ndjson(cf, [uni] + cases)
    t = time.time()
    out, _ = vh(["patterns-replay", "--cases", cf, "--out", of])
    summary = json.loads(out)
    rows = read_ndjson(of)
    if summary["records"] != len(rows) or len(rows) < len(cases):
        tool_failure(f"patterns-replay wrote {len(rows)} records for {len(cases)} cases")
    stats["records"] += len(rows)
    stats["replay_s"] += time.time() - t
    stats["multi_module_records"] = stats.get("multi_module_records", 0) + summary.get("multi_module_records", 0)
    if summary.get("prelude_diagnostics"):
        # not a record TLC can judge (the prelude is outside the universe): shown, counted, never a verdict by itself
        stats["prelude_diagnostics"] = stats.get("prelude_diagnostics", 0) + summary["prelude_diagnostics"]
        log(f"NOTE: universe {u}: {summary['prelude_diagnostics']} diagnostics on the prelude matches of the multi-module rendering "
            f"(each names every variant of its enum once)")
    for r in rows:
        feats[r["form"]] = feats.get(r["form"], 0) + 1
        if r["form"] == "iflet":
            feats["iflet_flagged" if r["obs"]["useless"] else "iflet_not_flagged"] = feats.get("iflet_flagged" if r["obs"]["useless"] else "iflet_not_flagged", 0) + 1
        else:
            feats["rejected" if r["obs"]["nonexh"] else "accepted"] = feats.get("rejected" if r["obs"]["nonexh"] else "accepted", 0) + 1
            if r["obs"]["nonexh"]:
                k = "cex_nested" if any(a.get("k") != "wild" for a in r["obs"]["cex"].get("args", [])) else "cex_flat"
                feats[k] = feats.get(k, 0) + 1
    all_viols = []
    t = time.time()
    chunks = [(ci // CHUNK, rows[ci:ci + CHUNK]) for ci in range(0, len(rows), CHUNK)]
    with ThreadPoolExecutor(max_workers=PARALLEL) as ex:     # a tool_failure (SystemExit) in a thread is re-raised here
        results = list(ex.map(lambda c: judge_chunk(u, c[1], f"{tag}-{c[0]}"), chunks))
    for viols, drift, states in results:
        stats["drift"] += drift
        stats["trace_states"] += states
        all_viols += viols
    stats["judge_s"] += time.time() - t
    pyd = [r for r in rows if python_disagrees(r)]
    if bool(pyd) != bool(all_viols) and not any(v[0] in ("CounterexampleSound", "NoPanic") for v in all_viols):
        tool_failure(f"universe {u}: pass-1 expectations and pass-2 verdict are inconsistent "
                     f"({len(pyd)} mismatches vs {len(all_viols)} violations); first: {pyd[:1]}")
    return rows, all_viols


def report(u, uni, viols):
    known = known_findings(PID)
    fails = 0
    for inv, r in viols:
        case = {"u": u, "universe": uni, "arms": r["arms"], "form": r["form"], "src": r["src"], "mm": r.get("mm", "")}
        observed = {"violated": inv, "diagnostic_non_exhaustive": r["obs"]["nonexh"],
                    "counterexample": r["obs"]["cextext"], "diagnostic_irrefutable": r["obs"]["useless"],
                    "panic": r["obs"]["panic"], "semantics_says_exhaustive": r["exp"]["exh"],
                    "semantics_says_irrefutable": r["exp"]["irr"]}
        # a known finding names its witness exactly: {"witness": {"u":.., "form":.., "arms":[..]}}
        kf = [k for k in known if k.get("witness", {}).get("u") == u and k["witness"].get("form") == r["form"]
              and k["witness"].get("arms") == r["arms"]]
        if kf:
            report_known(PID, kf[0]["what"])
            continue
        path = save_replay(PID, "pattern-case", case, EXPECTED[inv], observed)
        log(f"violation: universe {u}: {r['src']}  -> {observed}")
        report_violation(PID, path)
        fails += 1
    return fails


def run(tier):
    t0 = time.time()
    build_harness()
    stats = {"states": 0, "transitions": 0, "records": 0, "drift": 0, "trace_states": 0, "model_disagreements": 0,
             "replay_s": 0.0, "judge_s": 0.0}
    vac = vacuity_run()
    fails, per, feats, samples = 0, {}, {}, []
    only = os.environ.get("VERIF_DEV_C07_UNIVERSES")    # development aid only: never set by MANIFEST commands
    for u in (only.split(",") if only else UNIVERSES):
        uni, cases, info = generate(u, BOUNDS[tier][u], stats)
        rows, viols = replay_and_judge(u, uni, cases, u, stats, feats)
        info["records_replayed"] = len(rows)
        info["violations"] = len(viols)
        per[u] = info
        fails += report(u, uni, viols)
        pick = [r for r in rows if r["obs"]["nonexh"] and len(r["arms"]) >= 2][:1] + [r for r in rows if r["form"] == "iflet"][-1:]
        samples += [{"universe": u, "src": r["src"], "observed": {"non_exhaustive": r["obs"]["nonexh"],
                     "counterexample": r["obs"]["cextext"], "irrefutable": r["obs"]["useless"]}} for r in pick]
    missing = [k for k in ("accepted", "rejected", "iflet_flagged", "iflet_not_flagged", "cex_nested", "cex_flat", "let", "match")
               if not feats.get(k)]
    if missing and not fails and not only:      # a violation found is a verdict whatever else was (not) seen
        tool_failure(f"vacuity: no replayed case of kinds {missing}")
    if not stats.get("multi_module_records") and not fails:
        tool_failure("vacuity: no case was replayed in the multi-module rendering")
    coverage = {
        "states": stats["states"], "transitions": stats["transitions"],
        "traces_validated_against_impl": stats["records"],
        "samples": samples[:8],
        "universes": per,
        "model_invariants": MODEL_INVARIANTS, "verdict_invariants": VERDICT_INVARIANTS,
        "records_judged_by_tlc": stats["trace_states"],
        "observed_kinds": feats,
        "model_disagreements": stats["model_disagreements"],
        "model_drift_records": stats["drift"],
        "multi_module_records": stats.get("multi_module_records", 0),
        "diagnostics_on_prelude_matches": stats.get("prelude_diagnostics", 0),
        "vacuity": vac,
        "replay_wall_s": round(stats["replay_s"], 1), "judge_wall_s": round(stats["judge_s"], 1),
        "exhaustive": True,
    }
    write_evidence(PID, tier, "model_checking", coverage,
                   ["every type of a universe is inhabited at depth <= slack (checked by TLC: UniverseOK), so values of depth <= "
                    "pattern depth + slack decide exhaustiveness",
                    "universes: enum with nullary/recursive/nested variants (E, M), struct (P), generic enum nested 3x (O), "
                    "single-variant enum (W), generic struct (T), recursion through a struct (N); arm lists up to the bounds in `universes`",
                    "identifier patterns occur only outside or-patterns; patterns mention every field / argument "
                    "(anything else provokes diagnostics other than the ones the property is about)",
                    "the counterexample is read from the rendered diagnostic text and parsed by harness/src/patterns.rs",
                    "TLC 1.8.0 and the CommunityModules Json/IOUtils overrides are correct"],
                   time.time() - t0, fails)
    return 1 if fails else 0


def replay(path):
    build_harness()
    case = json.load(open(path))["case"]
    u, uni = case["u"], case["universe"]
    stats = {"records": 0, "drift": 0, "trace_states": 0, "replay_s": 0.0, "judge_s": 0.0}
    d = outdir(PID)
    cf, of = os.path.join(d, "cases-replay.ndjson"), os.path.join(d, "obs-replay.ndjson")
    # expectation fields are informative only; the verdict is recomputed by PatternsTrace.tla
    write_ndjson(cf, [uni, {"u": u, "arms": case["arms"], "exh": False, "irr": False, "mm": case.get("mm", "")}])
    vh(["patterns-replay", "--cases", cf, "--out", of])
    rows = [r for r in read_ndjson(of) if r["form"] == case["form"] and (not case.get("mm") or r.get("mm") == case["mm"])]
    viols, _, _ = judge_chunk(u, rows, "replay")
    for inv, r in viols:
        log(f"violation: {inv}: {r['src']} -> {r['obs']}")
        report_violation(PID, path)
    return 1 if viols else 0
