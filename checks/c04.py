"""C04 — the TypeScript and WebAssembly back ends behave identically.
Decided by spec/Arith.tla (the two back ends' operator tables next to the language's definition: TLC checks
TsOp = WasmOp = Src wherever Src is defined, for every operand pair of a small machine range), bound to the
code by one-operation programs with run-time operands compiled and executed on both back ends and judged
by spec/ArithTrace.tla at the real 32-bit range; and by spec/Observations.tla, which accepts the recorded
runs of whole programs (repository samples, generated programs) iff both back ends print the same lines and
end the same way, excluding runs the language leaves to the implementation."""
import json, os, time
from vlib import *
import progcommon as pc

PID = "C04"
INT_MIN, INT_MAX = -2147483648, 2147483647
OPS = {"MUL": "*", "DIV": "/", "MOD": "%", "PLUS": "+", "MINUS": "-", "LT": "<", "LE": "<=", "GT": ">", "GE": ">=",
       "EQ": "==", "NE": "!="}
ARITH = ("MUL", "DIV", "MOD", "PLUS", "MINUS")


def lit(n):
    return f"({n})" if n < 0 else str(n)


def opaque(n):
    return f'Main.v("{n}")'


def expr(op, x, y):
    e = f"{x} {OPS[op]} {y}"
    return e if op in ARITH else f"if {e} {{ 1 }} else {{ 0 }}"


def traps(op, a, b):
    return op in ("DIV", "MOD") and (b == 0 or (op == "DIV" and a == INT_MIN and b == -1))


def arith_cases(tier):
    small = range(-4, 5) if tier == "quick" else range(-9, 10)
    edge = [INT_MIN, INT_MIN + 1, -(2 ** 30) - 1, -(2 ** 30), -46341, -2, -1, 0, 1, 2, 3, 46340, 46341, 2 ** 30 - 1, 2 ** 30,
            INT_MAX - 1, INT_MAX]
    if tier == "quick":
        edge = [INT_MIN, INT_MIN + 1, -(2 ** 30), -1, 0, 1, 2, 46341, 2 ** 30, INT_MAX - 1, INT_MAX]
    cases = []
    for op in OPS:
        for a in small:
            for b in small:
                cases.append((op, a, b))
        for a in edge:
            for b in edge:
                cases.append((op, a, b))
    return sorted(set(cases))


def arith_programs(cases):
    """rt programs: operands read with toInt (opaque); fold programs: literal operands.
    Trapping cases get a program of their own (the run ends there)."""
    progs = []

    def mk(kind, cs):
        lines = []
        for (op, a, b) in cs:
            x, y = (opaque(a), opaque(b)) if kind == "rt" else (lit(a), lit(b))
            lines.append(f"    Process.println(Str.fromInt({expr(op, x, y)}));")
        body = "\n".join(lines)
        text = ("class Main {\n  function v(s: Str): int = s.toInt()\n  function main(): unit = {\n" + body + "\n  }\n}\n")
        progs.append({"origin": f"arith:{kind}", "entry": "Main", "sources": {"Main": text}, "kind": kind,
                      "cases": [list(c) for c in cs]})

    for kind in ("rt", "fold"):
        plain = [c for c in cases if not traps(*c)]
        for i in range(0, len(plain), 250):
            mk(kind, plain[i:i + 250])
        for c in cases:
            if traps(*c):
                mk(kind, [c])
    return progs


# ---- string literals: chunk name -> (source text inside the literal, code points it denotes) ----
CHUNKS = {
    "a": ("a", [97]), "n": ("n", [110]), "t": ("t", [116]), "zero": ("0", [48]), "space": (" ", [32]),
    "esc_backslash": ("\\\\", [92]), "esc_n": ("\\n", [10]), "esc_t": ("\\t", [9]), "esc_quote": ("\\\"", [34]),
    "esc_r": ("\\r", [13]), "backtick": ("`", [96]), "dollar_brace": ("${", [36, 123]), "brace": ("}", [125]),
}


def string_cases(tier):
    import itertools
    names = list(CHUNKS)
    core = ["a", "n", "t", "esc_backslash", "esc_n", "esc_t", "esc_quote", "backtick", "dollar_brace"]
    cases = [[c] for c in names] + [list(p) for p in itertools.product(core, repeat=2)]
    cases += [list(p) for p in itertools.product(core if tier != "quick" else ["n", "t", "esc_backslash", "esc_n", "esc_quote", "dollar_brace"], repeat=3)]
    return cases


def string_programs(cases):
    progs = []
    for i in range(0, len(cases), 150):
        cs = cases[i:i + 150]
        lines = ['    Process.println("' + "".join(CHUNKS[c][0] for c in chunks) + '");' for chunks in cs]
        text = "class Main {\n  function main(): unit = {\n" + "\n".join(lines) + "\n  }\n}\n"
        progs.append({"origin": "strings:literals", "entry": "Main", "sources": {"Main": text}, "cases": cs})
    return progs


def string_rows(recs):
    rows = []
    for r in recs:
        if r.get("front") != "accepted":
            tool_failure(f"string-literal program rejected/crashed: {r.get('errors') or r.get('crash')}")
        for i, chunks in enumerate(r["cases"]):
            printed = []
            for b, v in sorted(r["builds"].items()):
                for k in ("wasm", "ts"):
                    printed.append({"build": f"{b}/{k}", "text": line_or_end(v.get(k), i)})
            rows.append({"chunks": chunks, "printed": printed})
    return rows


def line_or_end(run, i):
    if run is None:
        return "<missing>"
    if i < len(run["out"]):
        return run["out"][i]
    e = run["end"]
    return "<" + e["k"] + ":" + (e.get("trap") or e.get("msg") or "") + ">"


def arith_trace(recs):
    rows = []
    for r in recs:
        if r.get("front") != "accepted":
            tool_failure(f"arithmetic program rejected/crashed: {r.get('errors') or r.get('crash')}")
        b0, b31 = r["builds"].get("opt:0", {}), r["builds"].get("opt:31", {})
        for i, (op, a, b) in enumerate(r["cases"]):
            rows.append({"kind": r["kind"], "op": op, "a": a, "b": b,
                         "wasm0": line_or_end(b0.get("wasm"), i), "ts0": line_or_end(b0.get("ts"), i),
                         "wasm31": line_or_end(b31.get("wasm"), i), "ts31": line_or_end(b31.get("ts"), i),
                         "status0": b0.get("status", "?"), "status31": b31.get("status", "?")})
    return rows


def known_negdiv(rows):
    """KNOWN-FINDING bookkeeping: the Math.floor divergence is reported as long as its witness still fails."""
    for k in known_findings(PID):
        if k.get("region") == "negdiv":
            w = [r for r in rows if r["kind"] == "rt" and r["op"] == "DIV" and r["a"] == -7 and r["b"] == 2]
            still = [r for r in w if r["ts0"] != r["wasm0"]]
            if still:
                report_known(PID, f"{k['what']} (witness -7 / 2: ts prints {still[0]['ts0']}, wasm prints {still[0]['wasm0']})")


def known_vec_i31(d):
    """KNOWN-FINDING bookkeeping: Vec<int> elements beyond 31 bits, reported as long as the witness still disagrees."""
    for k in known_findings(PID):
        if k.get("region") == "vec-int-beyond-i31":
            src = open(os.path.join(VERIF, k["witness"])).read()
            r = pc.run_programs(d, "veci31", [{"origin": "finding:vec-int-beyond-i31", "entry": "Main", "sources": {"Main": src}}], [31], jobs=1)[0]
            b = r.get("builds", {}).get("opt:31", {})
            w, t = (b.get("wasm") or {}).get("out"), (b.get("ts") or {}).get("out")
            if w != t:
                report_known(PID, f"{k['what']} (witness: wasm prints {w}, ts prints {t})")
            else:
                log("[c04] the open finding vec-int-beyond-i31 did not show in this run: both back ends print " + str(w))


def run(tier):
    t0 = time.time()
    d = outdir(PID)
    build_harness()
    stats = {}
    fails = 0
    # 1. operator tables, exhaustively at a small range
    mc = tlc("Arith", "ArithMC.cfg", workers=4, timeout=600, tag="c04mc")
    tlc_must_pass(mc, "Arith.tla model checking")
    # 2. one-operation programs on the real compiler, judged at the 32-bit range
    cases = arith_cases(tier)
    if not any(c == ("DIV", -7, 2) for c in cases):
        cases.append(("DIV", -7, 2))
    progs = arith_programs(cases)
    recs = pc.run_programs(d, "arith", progs, [0, 31])
    rows = arith_trace(recs)
    tr = os.path.join(d, "arith-trace.ndjson")
    write_ndjson(tr, rows)
    v = tlc("ArithTrace", "ArithTrace.cfg", env={"TRACE": tr}, deque=True, tag="c04at", timeout=1500)
    if v.violated:
        l = (v.last_l() or 2) - 1
        path = save_replay(PID, "arith-case", {"case": rows[l - 1]}, f"{v.violated} of ArithTrace.tla", rows[l - 1])
        report_violation(PID, path)
        fails += 1
    elif not v.ok:
        log(v.out[-3000:])
        tool_failure(f"ArithTrace failed: {v.error}")
    known_negdiv(rows)
    known_vec_i31(d)
    # 2b. string literals over a chunk alphabet (ordinary characters, every escape next to every other chunk,
    #     backtick, `${`): both back ends must print the value Strings.tla assigns to the literal
    scases = string_cases(tier)
    srows = string_rows(pc.run_programs(d, "strings", string_programs(scases), [0, 31]))
    st = os.path.join(d, "strings-trace.ndjson")
    write_ndjson(st, srows)
    write_ndjson(st + ".hdr", [{"denotes": {k: "".join(chr(c) for c in v[1]) for k, v in CHUNKS.items()}}])
    sv = tlc("Strings", "Strings.cfg", env={"TRACE": st, "TRACE_HDR": st + ".hdr"}, deque=True, tag="c04str", timeout=1500)
    if sv.violated:
        l = (sv.last_l() or 2) - 1
        bad = srows[l - 1]
        path = save_replay(PID, "string-literal", {"chunks": bad["chunks"], "literal": "".join(CHUNKS[c][0] for c in bad["chunks"])},
                           {"value_code_points": [c for ch in bad["chunks"] for c in CHUNKS[ch][1]]}, bad["printed"])
        report_violation(PID, path)
        fails += 1
    elif not sv.ok:
        log(sv.out[-3000:])
        tool_failure(f"Strings.tla failed: {sv.error}")
    # 3. whole programs
    programs = pc.repo_programs()
    n_gen = 120 if tier == "quick" else 2500
    for prof, share in (("mixed", 0.5), ("strings", 0.2), ("enums", 0.15), ("closures", 0.15)):
        programs += pc.generated_programs(d, max(1, int(n_gen * share)), SEED, prof)
    programs += pc.corpus_dir_programs("c04")      # equality of enum values across representations
    programs += pc.corpus_dir_programs("c03")      # hand-written feature programs (struct patterns, generics through bounds, nested generic lambdas)
    precs = pc.run_programs(d, "progs", programs, [31] if tier == "quick" else [0, 31])
    fails += pc.judge_obs(PID, "ObsC04.cfg", precs, "c04", "repository + generated programs", stats, d)
    cen = pc.census(precs)
    coverage = {
        "programs": len(precs), "disagreements_checked": len(rows) + sum(len(r.get("builds", {})) for r in precs),
        "samples": [rows[0], rows[len(rows) // 2], {"origin": precs[-1]["origin"], "out": (precs[-1].get("builds", {}).get("opt:31", {}).get("wasm", {}) or {}).get("out", [])[:5]}],
        "arith_table_states": mc.distinct, "arith_cases_replayed": len(rows), "string_literals_replayed": len(srows),
        "arith_cases_defined": None, "program_census": cen,
        "trace_states_checked_by_tlc": v.generated + stats.get("tlc_states", 0),
    }
    write_evidence(PID, tier, "translation_validation", coverage,
                   ["wasm_interp (own WasmGC interpreter) and ts_run (type eraser + node) observe the artefacts faithfully; loader.js is transcribed, not executed",
                    "a run in which any i32 add/sub/mul overflowed, or that trapped on division, is excluded as implementation-defined",
                    "generated programs stay out of the recorded known-finding regions (negative non-integral quotients, non-ASCII text, ints beyond 31 bits in Vec)"],
                   time.time() - t0, fails)
    return 1 if fails else 0


def replay(path):
    case = json.load(open(path))
    d = outdir(PID)
    if case["kind"] == "arith-case":
        c = case["case"]["case"]
        progs = arith_programs([(c["op"], c["a"], c["b"])])
        rows = arith_trace(pc.run_programs(d, "replay", progs, [0, 31], jobs=1))
        tr = os.path.join(d, "replay-trace.ndjson")
        write_ndjson(tr, rows)
        v = tlc("ArithTrace", "ArithTrace.cfg", env={"TRACE": tr}, deque=True, tag="c04rp")
        if v.violated:
            report_violation(PID, path)
            return 1
        return 0
    p = case["case"]["program"]
    p["with_std"] = case["case"].get("with_std", True)
    recs = pc.run_programs(d, "replay", [p], [0, 31], jobs=1)
    return 1 if pc.judge_obs(PID, "ObsC04.cfg", recs, "replay", "replay", {}, d) else 0
