"""Rule-level half of C01 / C02 for self tail recursion: spec/TailRec.tla (the reference semantics of small
recursive functions, the compiler's tail-call-to-loop rewrite transcribed from mir_tail_recursion_rewrite.rs,
and the meaning of `While` with parallel loop-variable assignment; TLC checks for every body of the bounded
universes and all small argument tuples that the loop returns and prints what the recursion does, and that two
as-is configurations — sequential loop variables, a discarded self call taken for a tail call — FAIL).
Bound to the code by compiling every enumerated body (also: a second enumerated function called from the guard
or an argument, which gives nested loops after inlining) under `raw`, `opt:0` and `opt:31`, running both back
ends, and judging the printed lines with spec/TailRecTrace.tla against the specification's results.
Programs go through `vh run-programs` exactly as progcommon.run_programs does, but with a small instruction
budget / TypeScript watchdog and WebAssembly first (see compile_and_run): with a defect in this area the compiled
loops may never end and print on every iteration, which must end as a VIOLATION, not as a stuck or killed check.

  run_tailrec(pid, tier, d, stats) -> (fails, coverage)      used by checks/c01.py and checks/c02.py
  python3 checks/tailrec.py quick|thorough                   standalone (set VERIF_SCRATCH during development)
"""
import json, os, sys, time
from concurrent.futures import ThreadPoolExecutor

sys.path.insert(0, os.path.join(os.path.dirname(os.path.dirname(os.path.abspath(__file__))), "lib"))
from vlib import *

BUILDS = ["raw", 0, 31]
PACK = 10                       # enumerated functions per compiled program
MAX_REPORTS = 3
# one TLC run per universe checks the theorem on every body and prints the body with the specification's results
MODEL_CFGS = {"quick": ["TailRecMC.cfg", "TailRecMCdeep.cfg", "TailRecMCnest.cfg", "TailRecMCunit.cfg"],
              "thorough": ["TailRecMCwideT.cfg", "TailRecMCdeepT.cfg", "TailRecMCnestT.cfg", "TailRecMCunitT.cfg"]}
MUST_FAIL = [("TailRecAsIsSeq.cfg", "loop variables assigned one after another (before commit 8593e50)"),
             ("TailRecAsIsDiscard.cfg", "a discarded self call taken for a tail call")]
# how many of the enumerated bodies of a universe are replayed at most (evenly spread over the sorted cases)
REPLAY_SHARE = {"quick": 2500, "thorough": 8000}


# ------------------------------------------------------------------------------------------------ rendering
def pname(np, i, helper=False):
    if helper:
        return "xy"[i - 1]
    return ("abn" if np == 3 else "an")[i - 1]


def atom(a, np, helper):
    return {"p": lambda: pname(np, a["i"], helper), "c": lambda: str(a["i"]), "r": lambda: "r"}[a["v"]]()


def expr(e, np, helper, tag):
    if e["op"] == "atom":
        return atom(e["l"], np, helper)
    l, r = atom(e["l"], np, helper), atom(e["r"], np, helper)
    if e["op"] == "g":
        return f"Main.g{tag}({l}, {r})"
    return f"{l} {e['op']} {r}"


def body(b, np, helper, tag, ind, unit=False):
    """the text of a body in expression position (the contents of a block)"""
    me = f"Main.{'g' if helper else 'f'}{tag}"
    pad = "  " * ind
    k = b["kind"]
    if k == "ret":
        return pad + ("{}" if unit else expr(b["x"], np, helper, tag))
    if k == "if":
        c = b["c"]
        return (f"{pad}if {expr(c['e'], np, helper, tag)} {c['op']} {c['k']} {{\n" + body(b["t"], np, helper, tag, ind + 1, unit) +
                f"\n{pad}}} else {{\n" + body(b["e"], np, helper, tag, ind + 1, unit) + f"\n{pad}}}")
    call = f"{me}({', '.join(expr(x, np, helper, tag) for x in b['args'])})"
    if k == "tail":
        return pad + call
    var = "_" if k == "disc" else "r"
    return f"{pad}let {var} = {call};\n{pad}{expr(b['x'], np, helper, tag)}"


def function(fun, helper, tag):
    np = fun["np"]
    params = ", ".join(f"{pname(np, i, helper)}: int" for i in range(1, np + 1))
    unit = bool(fun.get("unit"))
    head = f"  function {'g' if helper else 'f'}{tag}({params}): {'unit' if unit else 'int'} ="
    if fun["print"]:
        return (f"{head} {{\n    let _ = Process.println(Str.fromInt({pname(np, fun['print'], helper)}));\n" +
                body(fun["body"], np, helper, tag, 2, unit) + "\n  }\n")
    return head + "\n" + body(fun["body"], np, helper, tag, 2, unit) + "\n"


def pack_program(cases, opaque, origin):
    """class Main with one f<i> (and g<i> where used) per case; main prints f<i>(args) for every argument tuple
    whose evaluation the specification bounds.  opaque: the arguments are not compile-time constants."""
    fns, calls = [], []
    for i, c in enumerate(cases):
        if c["usesg"]:
            fns.append(function(c["g"], True, i))
        fns.append(function(c["f"], False, i))
        for call in c["calls"]:
            if call["ok"]:
                args = ", ".join(f'"{v}".toInt()' if opaque else str(v) for v in call["args"])
                calls.append(f"    let _ = Main.f{i}({args});" if c["f"].get("unit") else
                             f"    let _ = Process.println(Str.fromInt(Main.f{i}({args})));")
    text = "class Main {\n" + "".join(fns) + "  function main(): unit = {\n" + "\n".join(calls) + "\n  }\n}\n"
    return {"origin": origin, "entry": "Main", "sources": {"Main": text}}


def expected_lines(cases):
    return [l for c in cases for call in c["calls"] if call["ok"] for l in call["lines"]]


def runs_of(rec, kinds, cap):
    """[{name, out}] for every build x back end; a crash / trap / invalid module becomes a line of its own;
    at most `cap` lines of a run are kept (a loop that never ends may print millions)"""
    if rec.get("front") != "accepted":
        return [{"name": "front", "out": [f"<front end: {rec.get('front')} {rec.get('errors') or rec.get('crash')}>"]}]
    runs = []
    for b, v in sorted(rec["builds"].items()):
        if v.get("status") != "ok":
            runs.append({"name": b, "out": [f"<compiler crashed: {v.get('message')}>"]})
            continue
        for k in kinds:
            if k in v:
                out = list(v[k]["out"])[:cap]
                if v[k]["end"]["k"] != "return":
                    out.append("<" + json.dumps(v[k]["end"]) + ">")
                runs.append({"name": f"{b}/{k}", "out": out})
            elif k == "wasm":
                runs.append({"name": f"{b}/wasm", "out": ["<no wasm run: " + str(v.get("wasm_invalid_reason") or v.get("wasm_tool_error")) + ">"]})
    return runs


# ------------------------------------------------------------------------------------------------ model checking
def model_check(pid, tier):
    """The theorem over the bounded universes (must pass; the same runs print every body with the specification's
    results) and the two as-is configurations (must fail).  Returns (cases, coverage)."""
    jobs = [(c, False) for c in MODEL_CFGS[tier]] + [(c, True) for c, _ in MUST_FAIL]
    workers = 3 if tier == "quick" else 4

    def one(job):
        return tlc("TailRecMC", job[0], workers=workers, timeout=2400, tag=f"{pid}tr-{job[0][:-4]}")

    with ThreadPoolExecutor(max_workers=len(jobs) if tier == "quick" else 4) as ex:
        results = list(ex.map(one, jobs))
    cov, cases, per_cfg = {}, [], {}
    for (cfg, must_fail), res in zip(jobs, results):
        if must_fail:
            if res.violated != "RewriteSound":
                log(res.out[-2500:])
                tool_failure(f"{cfg} is a must-fail configuration ({dict(MUST_FAIL)[cfg]}) but TLC reported "
                             f"{res.violated or res.error or 'no error'}: the model can no longer see the defect")
            cov[cfg] = {"must_fail": True, "violated": res.violated, "wall_s": round(res.wall, 1)}
            continue
        tlc_must_pass(res, f"TailRec.tla model checking ({cfg})")
        got = behaviours_from(res)
        cov[cfg] = {"states": res.distinct, "transitions": res.generated, "bodies": len(got), "wall_s": round(res.wall, 1),
                    "recognised": sum(1 for c in got if c["rec"])}
        # replayed: bodies with a self call and at least one call within the budget (plus a few without a self
        # call: the compiler must leave them alone, too)
        got.sort(key=lambda c: json.dumps(c, sort_keys=True))        # TLC's workers print in any order
        plain = [c for c in got if not c["selfcall"]][:20]
        got = [c for c in got if c["selfcall"] and any(call["ok"] for call in c["calls"])] + plain
        total = len(got)
        share = REPLAY_SHARE[tier]
        if total > share:
            keep = {int(i * total / share) for i in range(share)}
            got = [c for i, c in enumerate(got) if i in keep]
        per_cfg[cfg] = {"replayable": total, "replayed": len(got)}
        for c in got:
            c["universe"] = cfg[9:-4] or "wide"
        cases += got
    return cases, {"tailrec_model": cov, "tailrec_cases": per_cfg}


# ------------------------------------------------------------------------------------------------ replay
FUEL = 3_000_000        # wasm instructions per program (a pack needs < 100 k): a wrongly compiled loop may never end
TS_TIMEOUT_MS = 300     # ... and may print on every iteration (the TypeScript runner keeps up to 64 MiB of lines)


def run_programs_bounded(d, name, programs, jobs, backends, ts_timeout=TS_TIMEOUT_MS):
    """progcommon.run_programs with a small instruction budget and TypeScript timeout (same `vh run-programs`,
    same record format): a miscompiled loop that never ends must end up as a wrong line, not as a stuck check."""
    build_harness()
    for i, p in enumerate(programs):
        p["id"] = i
    chunks = [c for c in (programs[i::jobs] for i in range(jobs)) if c]

    def work(ci):
        inp = os.path.join(d, f"{name}-{backends}-in-{ci}.ndjson")
        outp = os.path.join(d, f"{name}-{backends}-rec-{ci}.ndjson")
        write_ndjson(inp, chunks[ci])
        vh(["run-programs", "--in", inp, "--out", outp, "--builds", ",".join(map(str, BUILDS)), "--backends", backends,
            "--fuel", FUEL, "--ts-timeout-ms", ts_timeout], timeout=3000)
        return read_ndjson(outp)

    with ThreadPoolExecutor(max_workers=max(1, len(chunks))) as ex:
        parts = list(ex.map(work, range(len(chunks))))
    return sorted((r for part in parts for r in part), key=lambda r: r["id"])


def compile_and_run(d, name, packs, jobs=8):
    """WebAssembly first (bounded by the instruction budget); TypeScript only for the programs whose WebAssembly
    runs printed what is expected — a program that is already wrong is reported from those runs, and a loop that
    never ends is not run a second time.  A TypeScript run cut by the (short) watchdog is repeated with a long one."""
    progs = [pack_program(p["cases"], p["opaque"], f"tailrec:{name}:{i}") for i, p in enumerate(packs)]
    wrecs = run_programs_bounded(d, name, [dict(p) for p in progs], jobs, "wasm")
    rows, fine = [], []
    for i, (p, prog, r) in enumerate(zip(packs, progs, wrecs)):
        exp = expected_lines(p["cases"])
        runs = runs_of(r, ("wasm",), len(exp) + 20)
        rows.append({"fns": [{k: c[k] for k in ("f", "g", "calls")} for c in p["cases"]], "runs": runs,
                     "program": prog["sources"]["Main"]})
        if all(run["out"] == exp for run in runs):
            fine.append(i)
    trecs = run_programs_bounded(d, name, [dict(progs[i]) for i in fine], min(jobs, 6), "ts")
    for i, r in zip(fine, trecs):
        cut = [b for b, v in r.get("builds", {}).items() if v.get("ts", {}).get("end", {}).get("k") == "budget"]
        if cut:
            r = run_programs_bounded(d, name + "-again", [dict(progs[i])], 1, "ts", ts_timeout=5000)[0]
        rows[i]["runs"] += runs_of(r, ("ts",), len(expected_lines(packs[i]["cases"])) + 20)
    return rows


def recognition_drift(d, packs, rows, limit):
    """[RT] the transcription against the real function: in the unoptimised MIR of a sample of the compiled
    programs, f<i> is a `while (true)` loop iff TryRewrite of the specification recognises the body.
    A disagreement is MODEL-DRIFT (the transcription is out of date), never a verdict."""
    import re
    step = max(1, len(packs) // limit)
    sample = list(range(0, len(packs), step))[:limit]

    def one(i):
        path = os.path.join(d, f"tailrec-mir-{i}.json")
        with open(path, "w") as f:
            json.dump({"Main": rows[i]["program"]}, f)
        out, rc = vh(["mir-dump", "--json", path, "--build", "raw"], check=False, timeout=120)
        os.remove(path)
        if rc != 0:
            return 0, []
        loops = {}
        for m in re.finditer(r"^function _Main_Main\$f(\d+)\(.*?^}", out, re.M | re.S):
            loops[int(m.group(1))] = "while (true)" in m.group(0)
        return len(loops), [(i, k, c["rec"], loops[k]) for k, c in enumerate(packs[i]["cases"]) if k in loops and loops[k] != c["rec"]]

    with ThreadPoolExecutor(max_workers=8) as ex:
        parts = list(ex.map(one, sample))
    diffs = [x for _, part in parts for x in part]
    for i, k, rec, loop in diffs[:5]:
        log(f"MODEL-DRIFT: TailRec.tla says the body of f{k} is {'recognised' if rec else 'not recognised'} but the compiler "
            f"{'made' if loop else 'did not make'} it a loop:\n{function(packs[i]['cases'][k]['f'], False, k)}")
    return len(diffs), sum(n for n, _ in parts)


CHUNK = 250             # compiled programs per TLC run of the acceptor


def judge(pid, d, rows, tag, stats):
    """TailRecTrace.tla over the rows (in chunks, a few TLC processes side by side); returns [(row index,
    violated invariant)], at most MAX_REPORTS: after a violation the offending row is dropped and the rest of
    its chunk is judged again, so one bad program does not hide others."""
    chunks = [list(range(i, min(i + CHUNK, len(rows)))) for i in range(0, len(rows), CHUNK)]

    def one(ci):
        bad, remaining, states = [], list(chunks[ci]), 0
        while remaining and len(bad) < MAX_REPORTS:
            tr = os.path.join(d, f"tailrec-trace-{tag}-{ci}.ndjson")
            write_ndjson(tr, [{"fns": rows[i]["fns"], "runs": rows[i]["runs"]} for i in remaining])
            v = tlc("TailRecTrace", "TailRecTrace.cfg", env={"TRACE": tr}, deque=True, tag=f"{pid}trtr-{tag}-{ci}", timeout=2400, xmx="4g")
            states += v.generated
            if v.violated == "ExpectationIsSpec":      # generator and acceptor disagree about the specification itself
                return bad, states, "the recorded expectation is not the specification's (TailRecMC.tla / TailRecTrace.tla out of step)\n" + v.out[-1500:]
            if v.violated:
                l = (v.last_l() or 2) - 1
                bad.append((remaining[l - 1], v.violated))
                remaining = remaining[:l - 1] + remaining[l:]
                continue
            if not v.ok:
                return bad, states, f"{v.error}\n{v.out[-1500:]}"
            break
        return bad, states, None

    with ThreadPoolExecutor(max_workers=4) as ex:
        results = list(ex.map(one, range(len(chunks))))
    for _, _, err in results:
        if err:
            log(err)
            tool_failure("TailRecTrace failed")
    stats["tlc_states"] = stats.get("tlc_states", 0) + sum(n for _, n, _ in results)
    return [b for bad, _, _ in results for b in bad][:MAX_REPORTS]


def minimise(pid, d, row, pack, stats):
    """the single functions of a failing pack that fail on their own (else the pack as a whole)"""
    exp = expected_lines(pack["cases"])
    singles = [{"cases": [c], "opaque": pack["opaque"]} for c in pack["cases"]]
    rows = compile_and_run(d, "tailrec-min", singles, jobs=8)
    out = []
    for s, r in zip(singles, rows):
        e = expected_lines(s["cases"])
        wrong = [run for run in r["runs"] if run["out"] != e]
        if wrong:
            out.append({"case": s["cases"][0], "program": r["program"], "expected": e, "wrong": wrong[:3]})
    if out:
        return out[:2]
    return [{"case": {"pack": [c["f"] for c in pack["cases"]]}, "program": row["program"], "expected": exp,
             "wrong": [run for run in row["runs"] if run["out"] != exp][:3]}]


def run_tailrec(pid, tier, d, stats):
    """returns (violations, coverage dict)"""
    t0 = time.time()
    build_harness()
    cases, cov = model_check(pid, tier)
    t_mc = time.time() - t0
    packs = []
    for uni in sorted({c["universe"] for c in cases}):
        cs = [c for c in cases if c["universe"] == uni]
        for i in range(0, len(cs), PACK):
            chunk = cs[i:i + PACK]
            # arguments as compile-time constants (the optimiser sees the loop bounds) / as run-time values
            for opaque in ([True, False] if tier == "thorough" and uni.startswith("nest") else [(i // PACK) % 2 == 0]):
                packs.append({"cases": chunk, "opaque": opaque})
    rows = compile_and_run(d, "tailrec", packs)
    t_run = time.time() - t0 - t_mc
    bad = judge(pid, d, rows, "all", stats)
    fails = 0
    for idx, inv in bad:
        for m in minimise(pid, d, rows[idx], packs[idx], stats):
            for run in m["wrong"]:
                run["out"] = run["out"][:200]
            path = save_replay(pid, "tailrec", {"case": m["case"], "program": m["program"], "builds": [str(b) for b in BUILDS]},
                               {"printed": m["expected"], "by": "Ref of spec/TailRec.tla"},
                               {"invariant": f"{inv} of spec/TailRecTrace.tla", "runs": m["wrong"]},
                               how="compile `program` (module Main) with vh run-programs --builds raw,0,31 and compare the printed lines")
            report_violation(pid, path)
            fails += 1
    drift, drift_checked = recognition_drift(d, packs, rows, 32 if tier == "quick" else 300)
    sample = rows[len(rows) // 2]
    cov.update({"tailrec_recognition_compared_with_mir": drift_checked, "tailrec_model_drift": drift,
                "tailrec_bodies_replayed": sum(len(p["cases"]) for p in packs),
                "tailrec_programs_compiled": len(packs), "tailrec_builds": [str(b) for b in BUILDS],
                "tailrec_calls_judged": sum(1 for p in packs for c in p["cases"] for call in c["calls"] if call["ok"]),
                "tailrec_lines_judged": sum(len(expected_lines(p["cases"])) * len(r["runs"]) for p, r in zip(packs, rows)),
                "tailrec_recognised_bodies": sum(1 for p in packs for c in p["cases"] if c["rec"]),
                "tailrec_nested_loop_bodies": sum(1 for p in packs for c in p["cases"] if c["usesg"]),
                "tailrec_wall_s": {"model_checking": round(t_mc, 1), "compile_and_run": round(t_run, 1), "total": round(time.time() - t0, 1)},
                "tailrec_sample": {"program": sample["program"][:600], "printed": sample["runs"][0]["out"][:8]}})
    return fails, cov


if __name__ == "__main__":
    tier = sys.argv[1] if len(sys.argv) > 1 else "quick"
    pid = os.environ.get("TAILREC_PID", "C01")
    t = time.time()
    st = {}
    fails, cov = run_tailrec(pid, tier, outdir("tailrec"), st)
    cov["tlc_states_trace"] = st.get("tlc_states", 0)
    print(json.dumps(cov, indent=1)[:6000])
    log(f"[tailrec] {tier}: {fails} violation(s), {time.time() - t:.1f}s")
    sys.exit(1 if fails else 0)
