"""Rule-level half of C01 / C02 for self tail recursion: spec/TailRec.tla (the reference semantics of small
recursive functions, the compiler's tail-call-to-loop rewrite transcribed from mir_tail_recursion_rewrite.rs,
and the meaning of `While` with parallel loop-variable assignment; TLC checks for every body of the bounded
universes and all small argument tuples that the loop returns and prints what the recursion does, and that two
as-is configurations — sequential loop variables, a discarded self call taken for a tail call — FAIL).
Bound to the code by compiling every enumerated body (also: a second enumerated function called from the guard
or an argument, which gives nested loops after inlining) under `raw`, `opt:0` and `opt:31`, running both back
ends, and judging the printed lines with spec/TailRecTrace.tla against the specification's results.

  run_tailrec(pid, tier, d, stats) -> (fails, coverage)      used by checks/c01.py and checks/c02.py
  python3 checks/tailrec.py quick|thorough                   standalone (set VERIF_SCRATCH during development)
"""
import json, os, sys, time
from concurrent.futures import ThreadPoolExecutor

sys.path.insert(0, os.path.join(os.path.dirname(os.path.dirname(os.path.abspath(__file__))), "lib"))
from vlib import *
import progcommon as pc

BUILDS = ["raw", 0, 31]
PACK = 10                       # enumerated functions per compiled program
MAX_REPORTS = 3
MODEL_CFGS = {"quick": ["TailRecMC.cfg", "TailRecMCdeep.cfg", "TailRecMCnest.cfg"],
              "thorough": ["TailRecMCwideT.cfg", "TailRecMCdeepT.cfg", "TailRecMCnestT.cfg"]}
MUST_FAIL = [("TailRecAsIsSeq.cfg", "loop variables assigned one after another (before commit 8593e50)"),
             ("TailRecAsIsDiscard.cfg", "a discarded self call taken for a tail call")]
GEN_CFGS = {"quick": ["TailRecGenWideQuick.cfg", "TailRecGenDeepQuick.cfg", "TailRecGenNestQuick.cfg"],
            "thorough": ["TailRecGenWide.cfg", "TailRecGenDeep.cfg", "TailRecGenNest.cfg"]}
# how many of the enumerated bodies of each universe the quick tier replays (evenly spread; all in thorough)
QUICK_SHARE = {"TailRecGenWideQuick.cfg": 700, "TailRecGenDeepQuick.cfg": 600, "TailRecGenNestQuick.cfg": 400}


# ------------------------------------------------------------------------------------------------ rendering
def pname(np, i, helper=False):
    if helper:
        return "xy"[i - 1]
    return ("abn" if np == 3 else "an")[i - 1]


def atom(a, np, helper):
    return {"p": lambda: pname(np, a["i"], helper), "c": lambda: str(a["i"]), "r": lambda: "r"}[a["v"]]()


def expr(e, np, helper, tag):
    if e["op"] == "atom":
        return atom(e["l"], np, helper)
    l, r = atom(e["l"], np, helper), atom(e["r"], np, helper)
    if e["op"] == "g":
        return f"Main.g{tag}({l}, {r})"
    return f"{l} {e['op']} {r}"


def body(b, np, helper, tag, ind):
    """the text of a body in expression position (the contents of a block)"""
    me = f"Main.{'g' if helper else 'f'}{tag}"
    pad = "  " * ind
    k = b["kind"]
    if k == "ret":
        return pad + expr(b["x"], np, helper, tag)
    if k == "if":
        c = b["c"]
        return (f"{pad}if {expr(c['e'], np, helper, tag)} {c['op']} {c['k']} {{\n" + body(b["t"], np, helper, tag, ind + 1) +
                f"\n{pad}}} else {{\n" + body(b["e"], np, helper, tag, ind + 1) + f"\n{pad}}}")
    call = f"{me}({', '.join(expr(x, np, helper, tag) for x in b['args'])})"
    if k == "tail":
        return pad + call
    var = "_" if k == "disc" else "r"
    return f"{pad}let {var} = {call};\n{pad}{expr(b['x'], np, helper, tag)}"


def function(fun, helper, tag):
    np = fun["np"]
    params = ", ".join(f"{pname(np, i, helper)}: int" for i in range(1, np + 1))
    head = f"  function {'g' if helper else 'f'}{tag}({params}): int ="
    if fun["print"]:
        return (f"{head} {{\n    let _ = Process.println(Str.fromInt({pname(np, fun['print'], helper)}));\n" +
                body(fun["body"], np, helper, tag, 2) + "\n  }\n")
    return head + "\n" + body(fun["body"], np, helper, tag, 2) + "\n"


def pack_program(cases, opaque, origin):
    """class Main with one f<i> (and g<i> where used) per case; main prints f<i>(args) for every argument tuple
    whose evaluation the specification bounds.  opaque: the arguments are not compile-time constants."""
    fns, calls = [], []
    for i, c in enumerate(cases):
        if c["usesg"]:
            fns.append(function(c["g"], True, i))
        fns.append(function(c["f"], False, i))
        for call in c["calls"]:
            if call["ok"]:
                args = ", ".join(f'"{v}".toInt()' if opaque else str(v) for v in call["args"])
                calls.append(f"    let _ = Process.println(Str.fromInt(Main.f{i}({args})));")
    text = "class Main {\n" + "".join(fns) + "  function main(): unit = {\n" + "\n".join(calls) + "\n  }\n}\n"
    return {"origin": origin, "entry": "Main", "sources": {"Main": text}}


def expected_lines(cases):
    return [l for c in cases for call in c["calls"] if call["ok"] for l in call["lines"]]


def runs_of(rec):
    """[{name, out}] for every build x back end; a crash / trap / invalid module becomes a line of its own"""
    if rec.get("front") != "accepted":
        return [{"name": "front", "out": [f"<front end: {rec.get('front')} {rec.get('errors') or rec.get('crash')}>"]}]
    runs = []
    for b, v in sorted(rec["builds"].items()):
        if v.get("status") != "ok":
            runs.append({"name": b, "out": [f"<compiler crashed: {v.get('message')}>"]})
            continue
        for k in ("wasm", "ts"):
            if k in v:
                out = list(v[k]["out"])
                if v[k]["end"]["k"] != "return":
                    out.append("<" + json.dumps(v[k]["end"]) + ">")
                runs.append({"name": f"{b}/{k}", "out": out})
            elif k == "wasm":
                runs.append({"name": f"{b}/wasm", "out": ["<no wasm run: " + str(v.get("wasm_invalid_reason") or v.get("wasm_tool_error")) + ">"]})
    return runs


# ------------------------------------------------------------------------------------------------ model checking
def model_check(pid, tier):
    """the theorem over the bounded universes (must pass) and the two as-is configurations (must fail)"""
    jobs = [(c, False) for c in MODEL_CFGS[tier]] + [(c, True) for c, _ in MUST_FAIL]
    workers = 3 if tier == "quick" else 5

    def one(job):
        cfg, _ = job
        return tlc("TailRecMC", cfg, workers=workers, timeout=2400, tag=f"{pid}tr-{cfg[:-4]}")

    with ThreadPoolExecutor(max_workers=len(jobs) if tier == "quick" else 3) as ex:
        results = list(ex.map(one, jobs))
    cov = {"tailrec_model": {}}
    for (cfg, must_fail), res in zip(jobs, results):
        initial = 0
        for line in res.out.splitlines():
            if line.startswith("Finished computing initial states:"):
                initial = int(line.split(":")[1].split()[0])
        if must_fail:
            if res.violated != "RewriteSound":
                log(res.out[-2500:])
                tool_failure(f"{cfg} is a must-fail configuration ({dict(MUST_FAIL)[cfg]}) but TLC reported "
                             f"{res.violated or res.error or 'no error'}: the model can no longer see the defect")
            cov["tailrec_model"][cfg] = {"must_fail": True, "violated": res.violated, "wall_s": round(res.wall, 1)}
        else:
            tlc_must_pass(res, f"TailRec.tla model checking ({cfg})")
            cov["tailrec_model"][cfg] = {"states": res.distinct, "bodies": res.distinct - initial, "generated": res.generated,
                                         "wall_s": round(res.wall, 1)}
    return cov


def generate(pid, tier):
    cases = []
    per_cfg = {}

    def one(cfg):
        return tlc("TailRecMC", cfg, workers=4, timeout=2400, tag=f"{pid}tr-{cfg[:-4]}")

    with ThreadPoolExecutor(max_workers=3) as ex:
        results = list(ex.map(one, GEN_CFGS[tier]))
    for cfg, res in zip(GEN_CFGS[tier], results):
        tlc_must_pass(res, f"TailRec case generation ({cfg})")
        got = [c for c in behaviours_from(res) if any(call["ok"] for call in c["calls"])]
        got.sort(key=lambda c: json.dumps(c, sort_keys=True))        # TLC's workers print in any order
        total = len(got)
        if tier == "quick" and total > QUICK_SHARE[cfg]:
            # evenly spread, but every body whose tail call reads a parameter assigned before it stays in
            step = total / QUICK_SHARE[cfg]
            keep = {int(i * step) for i in range(QUICK_SHARE[cfg])}
            got = [c for i, c in enumerate(got) if i in keep]
        per_cfg[cfg] = {"enumerated": total, "replayed": len(got), "model_states": res.distinct}
        for c in got:
            c["universe"] = cfg[10:-4]
        cases += got
    return cases, per_cfg


# ------------------------------------------------------------------------------------------------ replay
def compile_and_run(d, name, packs, jobs=8):
    progs = [pack_program(p["cases"], p["opaque"], f"tailrec:{name}:{i}") for i, p in enumerate(packs)]
    recs = pc.run_programs(d, name, progs, BUILDS, jobs=jobs)
    rows = []
    for p, prog, r in zip(packs, progs, recs):
        rows.append({"fns": [{k: c[k] for k in ("f", "g", "calls")} for c in p["cases"]], "runs": runs_of(r),
                     "program": prog["sources"]["Main"]})
    return rows


def judge(pid, d, rows, tag, stats):
    """TLC over the rows; returns the indices of the rows that violate PrintedOK / ExpectationIsSpec"""
    bad = []
    remaining = list(range(len(rows)))
    while remaining and len(bad) < MAX_REPORTS:
        tr = os.path.join(d, f"tailrec-trace-{tag}.ndjson")
        write_ndjson(tr, [{"fns": rows[i]["fns"], "runs": rows[i]["runs"]} for i in remaining])
        v = tlc("TailRecTrace", "TailRecTrace.cfg", env={"TRACE": tr}, deque=True, tag=f"{pid}trtr-{tag}", timeout=2400)
        stats["tlc_states"] = stats.get("tlc_states", 0) + v.generated
        if v.violated:
            l = (v.last_l() or 2) - 1
            bad.append((remaining[l - 1], v.violated))
            remaining = remaining[:l - 1] + remaining[l:]
            continue
        if not v.ok:
            log(v.out[-3000:])
            tool_failure(f"TailRecTrace failed: {v.error}")
        break
    return bad


def minimise(pid, d, row, pack, stats):
    """the single functions of a failing pack that fail on their own (else the pack as a whole)"""
    exp = expected_lines(pack["cases"])
    singles = [{"cases": [c], "opaque": pack["opaque"]} for c in pack["cases"]]
    rows = compile_and_run(d, "tailrec-min", singles, jobs=8)
    out = []
    for s, r in zip(singles, rows):
        e = expected_lines(s["cases"])
        wrong = [run for run in r["runs"] if run["out"] != e]
        if wrong:
            out.append({"case": s["cases"][0], "program": r["program"], "expected": e, "wrong": wrong[:3]})
    if out:
        return out[:2]
    return [{"case": {"pack": [c["f"] for c in pack["cases"]]}, "program": row["program"], "expected": exp,
             "wrong": [run for run in row["runs"] if run["out"] != exp][:3]}]


def run_tailrec(pid, tier, d, stats):
    """returns (violations, coverage dict)"""
    t0 = time.time()
    build_harness()
    with ThreadPoolExecutor(max_workers=2) as ex:
        mc_future = ex.submit(model_check, pid, tier)
        cases, per_cfg = generate(pid, tier)
        t_gen = time.time() - t0
        packs = []
        for uni in sorted({c["universe"] for c in cases}):
            cs = [c for c in cases if c["universe"] == uni]
            for i in range(0, len(cs), PACK):
                chunk = cs[i:i + PACK]
                variants = [True, False] if tier == "thorough" else [(i // PACK) % 2 == 0]
                for opaque in variants:
                    packs.append({"cases": chunk, "opaque": opaque})
        rows = compile_and_run(d, "tailrec", packs)
        t_run = time.time() - t0 - t_gen
        bad = judge(pid, d, rows, "all", stats)
        cov = mc_future.result()
    fails = 0
    for idx, inv in bad:
        for m in minimise(pid, d, rows[idx], packs[idx], stats):
            path = save_replay(pid, "tailrec", {"case": m["case"], "program": m["program"], "builds": [str(b) for b in BUILDS]},
                               {"printed": m["expected"], "by": "Ref of spec/TailRec.tla"},
                               {"invariant": f"{inv} of spec/TailRecTrace.tla", "runs": m["wrong"]},
                               how="compile `program` (module Main) with vh run-programs --builds raw,0,31 and compare the printed lines")
            report_violation(pid, path)
            fails += 1
    sample = rows[len(rows) // 2]
    cov.update({"tailrec_cases": per_cfg, "tailrec_bodies_replayed": sum(len(p["cases"]) for p in packs),
                "tailrec_programs_compiled": len(packs), "tailrec_builds": [str(b) for b in BUILDS],
                "tailrec_calls_judged": sum(1 for p in packs for c in p["cases"] for call in c["calls"] if call["ok"]),
                "tailrec_lines_judged": sum(len(expected_lines(p["cases"])) for p in packs) * len(sample["runs"]),
                "tailrec_recognised_bodies": sum(1 for p in packs for c in p["cases"] if c["rec"]),
                "tailrec_nested_loop_bodies": sum(1 for p in packs for c in p["cases"] if c["usesg"]),
                "tailrec_wall_s": {"generate": round(t_gen, 1), "compile_and_run": round(t_run, 1), "total": round(time.time() - t0, 1)},
                "tailrec_sample": {"program": sample["program"][:600], "printed": sample["runs"][0]["out"][:8]}})
    return fails, cov


if __name__ == "__main__":
    tier = sys.argv[1] if len(sys.argv) > 1 else "quick"
    pid = os.environ.get("TAILREC_PID", "C01")
    t = time.time()
    st = {}
    fails, cov = run_tailrec(pid, tier, outdir("tailrec"), st)
    cov["tlc_states_trace"] = st.get("tlc_states", 0)
    print(json.dumps(cov, indent=1)[:6000])
    log(f"[tailrec] {tier}: {fails} violation(s), {time.time() - t:.1f}s")
    sys.exit(1 if fails else 0)
