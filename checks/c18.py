"""C18 — the standard library's Map, Set and List behave like finite maps, sets and sequences.
Decided by spec/Collections.tla (one action per std operation: its mathematical meaning on abstract
registers and its canonical observation).  (1) TLC model-checks the algebraic sanity of the model over
keys {1,2,3}; (2) [BR] spec/CollGen.tla enumerates operation sequences; (3) a seeded driver adds long random
sequences over a small and a wide key range; every sequence becomes samlang code that performs the
operations on the real std classes (read from VERIF_STD_DIR, default /repo/std) and prints each result on one
line; the programs are compiled at optimisation configs 0 and 31 and run on both back ends;
(4) [TV] spec/CollTrace.tla replays every operation on the abstract registers and compares what each build
printed with the abstract observation.  A printed result that differs is a VIOLATION unless an open known
finding (known-findings.json, property C18) covers it."""
import glob, json, os, random, re, shutil, time
from concurrent.futures import ThreadPoolExecutor
from vlib import *
import progcommon as pc

PID = "C18"
STD_DIR = os.environ.get("VERIF_STD_DIR", "/repo/std")
BUILDS = ["wasm0", "wasm31", "ts0", "ts31"]
WIDE = 2 ** 30 - 4096          # |key| bound: Int.compare's subtraction cannot overflow (and +1 sixty times neither)
MAXLIST = 40                   # the driver never builds a list that could be longer than this
MAXSET = 80

# ------------------------------------------------------------------------------------------------
# The operation table.  name -> (argument class, observation kind, emitter)
#   argument classes: "0" (r), "k" (r,k), "kv" (r,k,v), "f<n>" (r,f<n), "kf<n>" (r,k,f<n)
#   observation kinds (syntax of the printed line -> parts):
#     E  [(k,v),...]      L  [x,...]      O  None|Some(x)     P  None|Some((k,v))     B  true|false     I  int
#     EOE  E|O|E          EE E|E          LBL L|B|L           LL L|L                  OL None|Some([x,...])
# ------------------------------------------------------------------------------------------------
MT = "Map<Int, int>"


def lit(n):
    return f"({n})" if n < 0 else str(n)


def K(o):
    return f"Int.init({lit(o['k'])})"


def mut(reg, expr):
    """a mutator of register kind `reg`: new SSA name bound to the printed result"""
    return ("mut", reg, expr)


def mut2(reg, expr):
    return ("mut2", reg, expr)


def ob(expr):
    return ("obs", None, expr)


OPS = {
    # ---- Map<Int, int>
    "mEmpty": ("0", "E", lambda o, c: mut("m", f"C.pm(Map.empty<Int, int>())")),
    "mSingleton": ("kv", "E", lambda o, c: mut("m", f"C.pm(Map.singleton({K(o)}, {lit(o['v'])}))")),
    "mInsert": ("kv", "E", lambda o, c: mut("m", f"C.pm({c['m']}.insert({K(o)}, {lit(o['v'])}))")),
    "mRemove": ("k", "E", lambda o, c: mut("m", f"C.pm({c['m']}.remove({K(o)}))")),
    "mUpdate": ("kf4", "E", lambda o, c: mut("m", f"C.pm({c['m']}.update({K(o)}, (o) -> C.upd({o['f']}, o)))")),
    "mUnion": ("0", "E", lambda o, c: mut("m", f"C.pm({c['m']}.union({c['mo']}))")),
    "mCustomUnion": ("f2", "E", lambda o, c: mut("m", f"C.pm({c['m']}.customizedUnion({c['mo']}, (k, a, b) -> C.comb({o['f']}, k, a, b)))")),
    "mMerge": ("f2", "E", lambda o, c: mut("m", f"C.pm({c['m']}.merge({c['mo']}, (k, a, b) -> C.mrg({o['f']}, k, a, b)))")),
    "mFilter": ("f3", "E", lambda o, c: mut("m", f"C.pm({c['m']}.filter((k, v) -> C.kp({o['f']}, k, v)))")),
    "mMap": ("0", "E", lambda o, c: mut("m", f"C.pm({c['m']}.map((k, v) -> C.mapVal(k, v)))")),
    "mCopy": ("0", "E", lambda o, c: mut("m", f"C.pm({c['mo']})")),
    "mSplit": ("k", "EOE", lambda o, c: mut2("m", f"C.pmSplit({c['m']}.split({K(o)}))")),
    "mPartition": ("f3", "EE", lambda o, c: mut2("m", f"C.pmPair({c['m']}.partition((k, v) -> C.kp({o['f']}, k, v)))")),
    "mGet": ("k", "O", lambda o, c: ob(f"Sh.oi({c['m']}.get({K(o)}))")),
    "mContainsKey": ("k", "B", lambda o, c: ob(f"Sh.b({c['m']}.containsKey({K(o)}))")),
    "mIsEmpty": ("0", "B", lambda o, c: ob(f"Sh.b({c['m']}.isEmpty())")),
    "mSize": ("0", "I", lambda o, c: ob(f"Str.fromInt({c['m']}.size())")),
    "mEntries": ("0", "E", lambda o, c: ob(f"Sh.ents({c['m']}.entries())")),
    "mKeys": ("0", "L", lambda o, c: ob(f"Sh.li(C.unbox({c['m']}.keys()))")),
    "mMin": ("0", "P", lambda o, c: ob(f"Sh.op({c['m']}.min())")),
    "mMax": ("0", "P", lambda o, c: ob(f"Sh.op({c['m']}.max())")),
    "mMinKey": ("0", "O", lambda o, c: ob(f"Sh.ok({c['m']}.minKey())")),
    "mMaxKey": ("0", "O", lambda o, c: ob(f"Sh.ok({c['m']}.maxKey())")),
    "mFold": ("0", "I", lambda o, c: ob(f"Str.fromInt({c['m']}.fold(0, (acc, k, v) -> C.fskv(acc, k, v)))")),
    "mForAll": ("f3", "B", lambda o, c: ob(f"Sh.b({c['m']}.forAll((k, v) -> C.kp({o['f']}, k, v)))")),
    "mExists": ("f3", "B", lambda o, c: ob(f"Sh.b({c['m']}.exists((k, v) -> C.kp({o['f']}, k, v)))")),
    "mEqual": ("0", "B", lambda o, c: ob(f"Sh.b({c['m']}.equal({c['mo']}, (a, b) -> a == b))")),
    "mCompare": ("0", "I", lambda o, c: ob(f"Str.fromInt(C.sgn({c['m']}.compare({c['mo']}, (a, b) -> a - b)))")),
    # ---- Set<Int>
    "sEmpty": ("0", "L", lambda o, c: mut("s", f"C.ps(Set.empty<Int>())")),
    "sSingleton": ("k", "L", lambda o, c: mut("s", f"C.ps(Set.singleton({K(o)}))")),
    "sInsert": ("k", "L", lambda o, c: mut("s", f"C.ps({c['s']}.insert({K(o)}))")),
    "sRemove": ("k", "L", lambda o, c: mut("s", f"C.ps({c['s']}.remove({K(o)}))")),
    "sUnion": ("0", "L", lambda o, c: mut("s", f"C.ps({c['s']}.union({c['so']}))")),
    "sInter": ("0", "L", lambda o, c: mut("s", f"C.ps({c['s']}.intersection({c['so']}))")),
    "sDiff": ("0", "L", lambda o, c: mut("s", f"C.ps({c['s']}.diff({c['so']}))")),
    "sFilter": ("f2", "L", lambda o, c: mut("s", f"C.ps({c['s']}.filter((x) -> C.ep({o['f']}, x.value)))")),
    "sMap": ("f3", "L", lambda o, c: mut("s", f"C.ps({c['s']}.map((x) -> Int.init(C.ef({o['f']}, x.value))))")),
    "sCopy": ("0", "L", lambda o, c: mut("s", f"C.ps({c['so']})")),
    "sFromList": ("0", "L", lambda o, c: mut("s", f"C.ps(Set.fromList(C.box({c['q']})))")),
    "sFromKeys": ("0", "L", lambda o, c: mut("s", f"C.ps(Set.fromList({c['m']}.keys()))")),
    "sSplit": ("k", "LBL", lambda o, c: mut2("s", f"C.psSplit({c['s']}.split({K(o)}))")),
    "sPartition": ("f2", "LL", lambda o, c: mut2("s", f"C.psPair({c['s']}.partition((x) -> C.ep({o['f']}, x.value)))")),
    "sContains": ("k", "B", lambda o, c: ob(f"Sh.b({c['s']}.contains({K(o)}))")),
    "sIsEmpty": ("0", "B", lambda o, c: ob(f"Sh.b({c['s']}.isEmpty())")),
    "sSubset": ("0", "B", lambda o, c: ob(f"Sh.b({c['s']}.subset({c['so']}))")),
    "sDisjoint": ("0", "B", lambda o, c: ob(f"Sh.b({c['s']}.disjoint({c['so']}))")),
    "sSize": ("0", "I", lambda o, c: ob(f"Str.fromInt({c['s']}.size())")),
    "sElements": ("0", "L", lambda o, c: ob(f"Sh.li(C.unbox({c['s']}.elements()))")),
    "sMin": ("0", "O", lambda o, c: ob(f"Sh.ok({c['s']}.min())")),
    "sMax": ("0", "O", lambda o, c: ob(f"Sh.ok({c['s']}.max())")),
    "sFold": ("0", "I", lambda o, c: ob(f"Str.fromInt({c['s']}.fold(0, (acc, x) -> C.fs(acc, x.value)))")),
    "sForAll": ("f2", "B", lambda o, c: ob(f"Sh.b({c['s']}.forAll((x) -> C.ep({o['f']}, x.value)))")),
    "sExists": ("f2", "B", lambda o, c: ob(f"Sh.b({c['s']}.exists((x) -> C.ep({o['f']}, x.value)))")),
    "sEqual": ("0", "B", lambda o, c: ob(f"Sh.b({c['s']}.equal({c['so']}, (a, b) -> a.compare(b) == 0))")),
    "sCompare": ("f2", "I", lambda o, c: ob(f"Str.fromInt(C.sgn({c['s']}.compare({c['so']}, (a, b) -> C.scf({o['f']}, a, b))))")),
    "sToList": ("0", "L", lambda o, c: mut("q", f"C.pq(C.unbox({c['s']}.elements()))")),
    # ---- List<int>
    "qNil": ("0", "L", lambda o, c: mut("q", f"C.pq(List.nil<int>())")),
    "qOf": ("k", "L", lambda o, c: mut("q", f"C.pq(List.of({lit(o['k'])}))")),
    "qCons": ("k", "L", lambda o, c: mut("q", f"C.pq({c['q']}.cons({lit(o['k'])}))")),
    "qAppend": ("0", "L", lambda o, c: mut("q", f"C.pq({c['q']}.append({c['qo']}))")),
    "qRevAppend": ("0", "L", lambda o, c: mut("q", f"C.pq({c['q']}.reverseAndAppend({c['qo']}))")),
    "qReverse": ("0", "L", lambda o, c: mut("q", f"C.pq({c['q']}.reverse())")),
    "qMap": ("f3", "L", lambda o, c: mut("q", f"C.pq({c['q']}.map((x) -> C.ef({o['f']}, x)))")),
    "qFilter": ("f2", "L", lambda o, c: mut("q", f"C.pq({c['q']}.filter((x) -> C.ep({o['f']}, x)))")),
    "qFilterMap": ("0", "L", lambda o, c: mut("q", f"C.pq({c['q']}.filterMap((x) -> C.fmf(x)))")),
    "qBind": ("0", "L", lambda o, c: mut("q", f"C.pq({c['q']}.bind((x) -> C.bindf(x)))")),
    "qFlatten": ("0", "L", lambda o, c: mut("q", f"C.pq(List.flatten(List.of({c['q']}).cons({c['qo']}).cons({c['q']})))")),
    "qCopy": ("0", "L", lambda o, c: mut("q", f"C.pq({c['qo']})")),
    "qRest": ("0", "OL", lambda o, c: mut("q", f"C.pqRest({c['q']})")),
    "qLength": ("0", "I", lambda o, c: ob(f"Str.fromInt({c['q']}.length())")),
    "qIsEmpty": ("0", "B", lambda o, c: ob(f"Sh.b({c['q']}.isEmpty())")),
    "qFirst": ("0", "O", lambda o, c: ob(f"Sh.oi({c['q']}.first())")),
    "qContains": ("k", "B", lambda o, c: ob(f"Sh.b({c['q']}.contains({lit(o['k'])}, (a, b) -> a == b))")),
    "qForAll": ("f2", "B", lambda o, c: ob(f"Sh.b({c['q']}.forAll((x) -> C.ep({o['f']}, x)))")),
    "qExists": ("f2", "B", lambda o, c: ob(f"Sh.b({c['q']}.exists((x) -> C.ep({o['f']}, x)))")),
    "qFind": ("f2", "O", lambda o, c: ob(f"Sh.oi({c['q']}.find((x) -> C.ep({o['f']}, x)))")),
    "qFindMap": ("0", "O", lambda o, c: ob(f"Sh.oi({c['q']}.findMap((x) -> C.fdf(x)))")),
    "qFold": ("0", "I", lambda o, c: ob(f"Str.fromInt({c['q']}.fold((acc, x) -> C.fs(acc, x), 0))")),
    "qFoldRight": ("0", "I", lambda o, c: ob(f"Str.fromInt({c['q']}.foldRight((x, acc) -> C.fs(acc, x), 0))")),
}

PRELUDE = """import { Int } from std.boxed;
import { List } from std.list;
import { Map } from std.map;
import { Option } from std.option;
import { Set } from std.set;
import { Pair, Triple } from std.tuples;

class Sh {
  function b(x: bool): Str = if x { "true" } else { "false" }
  function oi(o: Option<int>): Str = match o { None -> "None", Some(v) -> "Some(" :: Str.fromInt(v) :: ")" }
  function ok(o: Option<Int>): Str = match o { None -> "None", Some(v) -> "Some(" :: Str.fromInt(v.value) :: ")" }
  function op(o: Option<Pair<Int, int>>): Str =
    match o { None -> "None", Some(p) -> "Some((" :: Str.fromInt(p.e0.value) :: "," :: Str.fromInt(p.e1) :: "))" }
  function li(l: List<int>): Str = "[" :: Sh.liTail(l, true) :: "]"
  private function liTail(l: List<int>, first: bool): Str =
    match l {
      Nil -> "",
      Cons(x, rest) -> (if first { "" } else { "," }) :: Str.fromInt(x) :: Sh.liTail(rest, false),
    }
  function ents(l: List<Pair<Int, int>>): Str = "[" :: Sh.entsTail(l, true) :: "]"
  private function entsTail(l: List<Pair<Int, int>>, first: bool): Str =
    match l {
      Nil -> "",
      Cons(p, rest) -> (if first { "" } else { "," }) :: "(" :: Str.fromInt(p.e0.value) :: "," :: Str.fromInt(p.e1) :: ")" :: Sh.entsTail(rest, false),
    }
}

class C {
  function mod(x: int, m: int): int = ((x % m) + m) % m
  function sgn(x: int): int = if x < 0 { 0 - 1 } else if x > 0 { 1 } else { 0 }
  function box(l: List<int>): List<Int> = l.map((x) -> Int.init(x))
  function unbox(l: List<Int>): List<int> = l.map((x) -> x.value)
  function kp(p: int, k: Int, v: int): bool =
    if p == 0 { C.mod(k.value, 2) == 0 } else if p == 1 { C.mod(v, 2) == 1 } else { k.value > v }
  function ep(p: int, x: int): bool = if p == 0 { C.mod(x, 2) == 0 } else { x > 2 }
  function upd(f: int, o: Option<int>): Option<int> =
    if f == 0 {
      Option.None<int>()
    } else if f == 1 {
      match o { None -> Option.Some(1), Some(v) -> Option.Some(v + 1) }
    } else if f == 2 {
      o
    } else {
      match o { None -> Option.None<int>(), Some(v) -> if C.mod(v, 2) == 0 { Option.None<int>() } else { Option.Some(v + 1) } }
    }
  function comb(c: int, k: Int, a: int, b: int): Option<int> =
    if c == 0 { Option.Some(C.mod(a + 2 * b, 10)) } else if C.mod(k.value + a, 2) == 0 { Option.None<int>() } else { Option.Some(b) }
  function mrg(g: int, k: Int, oa: Option<int>, ob: Option<int>): Option<int> =
    if g == 0 {
      match ob {
        None -> oa,
        Some(b) -> match oa { None -> Option.None<int>(), Some(a) -> Option.Some(C.mod(a + 2 * b, 10)) },
      }
    } else {
      match oa {
        None -> ob,
        Some(a) -> match ob { None -> Option.None<int>(), Some(b) -> if C.mod(k.value, 2) == 0 { Option.None<int>() } else { oa } },
      }
    }
  function scf(f: int, a: Int, b: Int): int = if f == 0 { a.compare(b) } else { 1 }
  function mapVal(k: Int, v: int): int = C.mod(v + C.mod(k.value, 7), 10)
  function ef(f: int, x: int): int = if f == 0 { x + 1 } else if f == 1 { C.mod(x, 3) } else { 0 - x }
  function fmf(x: int): Option<int> = if C.mod(x, 2) == 0 { Option.None<int>() } else { Option.Some(C.mod(x, 5)) }
  function fdf(x: int): Option<int> = if x > 2 { Option.Some(x + 1) } else { Option.None<int>() }
  function bindf(x: int): List<int> = List.of(x + 1).cons(x)
  function fs(acc: int, x: int): int = C.mod(acc * 31 + C.mod(x, 1009), 10007)
  function fskv(acc: int, k: Int, v: int): int = C.mod(acc * 31 + C.mod(k.value, 1009) * 7 + v, 10007)
  function sm(m: MT): Str = Sh.ents(m.entries())
  function ss(s: Set<Int>): Str = Sh.li(C.unbox(s.elements()))
  function pm(m: MT): MT = {
    Process.println(C.sm(m));
    m
  }
  function ps(s: Set<Int>): Set<Int> = {
    Process.println(C.ss(s));
    s
  }
  function pq(q: List<int>): List<int> = {
    Process.println(Sh.li(q));
    q
  }
  function pmSplit(t: Triple<MT, Option<int>, MT>): Pair<MT, MT> = {
    Process.println(C.sm(t.e0) :: "|" :: Sh.oi(t.e1) :: "|" :: C.sm(t.e2));
    (t.e0, t.e2)
  }
  function pmPair(t: Pair<MT, MT>): Pair<MT, MT> = {
    Process.println(C.sm(t.e0) :: "|" :: C.sm(t.e1));
    t
  }
  function psSplit(t: Triple<Set<Int>, bool, Set<Int>>): Pair<Set<Int>, Set<Int>> = {
    Process.println(C.ss(t.e0) :: "|" :: Sh.b(t.e1) :: "|" :: C.ss(t.e2));
    (t.e0, t.e2)
  }
  function psPair(t: Pair<Set<Int>, Set<Int>>): Pair<Set<Int>, Set<Int>> = {
    Process.println(C.ss(t.e0) :: "|" :: C.ss(t.e1));
    t
  }
  function pqRest(q: List<int>): List<int> =
    match q.rest() {
      None -> {
        Process.println("None");
        q
      },
      Some(t) -> {
        Process.println("Some(" :: Sh.li(t) :: ")");
        t
      },
    }
}
""".replace("MT", MT)


def std_sources():
    srcs = {}
    for p in sorted(glob.glob(os.path.join(STD_DIR, "*.sam"))):
        srcs["std." + os.path.basename(p)[:-4]] = open(p).read()
    for need in ("std.map", "std.set", "std.list", "std.option", "std.boxed", "std.tuples", "std.interfaces"):
        if need not in srcs:
            tool_failure(f"{STD_DIR}: {need} not found")
    return srcs


# ------------------------------------------------------------------------------------------------
# sequences -> samlang
# ------------------------------------------------------------------------------------------------
def seq_function(sid, ops):
    """One samlang function performing the operations; prints the marker line, then one line per operation."""
    cur = {k: f"{k}v0" for k in ("m0", "m1", "s0", "s1", "q0", "q1")}
    lines = [f"  function seq{sid}(): unit = {{",
             f'    Process.println("#seq {sid}");',
             "    let m0v0 = Map.empty<Int, int>();", "    let m1v0 = m0v0;",
             "    let s0v0 = Set.empty<Int>();", "    let s1v0 = s0v0;",
             "    let q0v0 = List.nil<int>();", "    let q1v0 = q0v0;"]
    for i, o in enumerate(ops):
        r = o["r"]
        ctx = {"m": cur[f"m{r}"], "mo": cur[f"m{1 - r}"], "s": cur[f"s{r}"], "so": cur[f"s{1 - r}"],
               "q": cur[f"q{r}"], "qo": cur[f"q{1 - r}"]}
        kind, reg, expr = OPS[o["op"]][2](o, ctx)
        if kind == "obs":
            lines.append(f"    Process.println({expr});")
        elif kind == "mut":
            n = f"{reg}{r}v{i + 1}"
            lines.append(f"    let {n} = {expr};")
            cur[f"{reg}{r}"] = n
        else:
            n, n2 = f"{reg}{r}v{i + 1}", f"{reg}{1 - r}v{i + 1}"
            lines.append(f"    let ({n}, {n2}) = {expr};")
            cur[f"{reg}{r}"], cur[f"{reg}{1 - r}"] = n, n2
    lines.append("  }")
    return "\n".join(lines)


def make_program(seqs, std):
    """seqs: list of (sid, ops).  One program performing all of them in order."""
    body = "\n".join(seq_function(sid, ops) for sid, ops in seqs)
    calls = "\n".join(f"    Main.seq{sid}();" for sid, _ in seqs)
    text = PRELUDE + "\nclass Main {\n" + body + "\n  function main(): unit = {\n    Process.println(\"#c18 \" :: Int.init(0).toString());\n" + calls + "\n  }\n}\n"
    srcs = dict(std)
    srcs["Main"] = text
    return {"origin": "c18:" + ",".join(str(s) for s, _ in seqs[:3]) + ("..." if len(seqs) > 3 else ""),
            "entry": "Main", "sources": srcs, "with_std": False, "sids": [s for s, _ in seqs]}


# ------------------------------------------------------------------------------------------------
# the seeded random driver (no model of the collections here: only upper bounds on sizes, so that
# lists stay short)
# ------------------------------------------------------------------------------------------------
WEIGHTS = {"mInsert": 7, "sInsert": 7, "qCons": 5, "mRemove": 3, "sRemove": 3, "mUpdate": 3, "mEmpty": 0.2, "sEmpty": 0.2,
           "qNil": 0.3, "mCopy": 0.4, "sCopy": 0.4, "qCopy": 0.4, "mSingleton": 0.3, "sSingleton": 0.3, "qOf": 0.3,
           "mSplit": 0.7, "sSplit": 0.7, "mPartition": 0.7, "sPartition": 0.7, "mFilter": 0.7, "sFilter": 0.7,
           "sInter": 0.7, "sDiff": 0.7, "qFilter": 0.7, "qFilterMap": 0.7, "qRest": 0.7}


STRUCT = {"mInsert": 1.5, "sInsert": 1.5, "qCons": 1.5, "mRemove": 4, "sRemove": 4, "mUpdate": 2, "mSplit": 2.5, "sSplit": 2.5,
          "mPartition": 2, "sPartition": 2, "mFilter": 2, "sFilter": 2, "mUnion": 3, "mCustomUnion": 3, "mMerge": 3,
          "sUnion": 3, "sInter": 2.5, "sDiff": 2.5, "sMap": 2, "mCopy": 1, "sCopy": 1, "sSubset": 2}


def random_sequence(rng, length, wide, avoid=()):
    """A seeded random operation sequence.  Two profiles: `mixed` (any operation any time, keys from the small
    range 0..7 or a wide pool) and `grow first` (one map or set is grown to 20-40 elements, the other register
    stays small, then structural operations dominate: split / union / filter / remove on trees of height 5-7
    reach the deep rebalancing branches of join / balanced)."""
    grow = 0
    if rng.random() < 0.5 and length >= 16:
        grow = rng.randint(length // 2, (3 * length) // 4)
    if wide:
        pool = [rng.randint(-WIDE, WIDE) for _ in range(rng.randint(40, 64) if grow else rng.randint(6, 40))]
        pool += [p + d for p in pool[:6] for d in (-1, 1)] + [WIDE, -WIDE, 0]
    else:
        pool = list(range(48)) if grow else list(range(8))
    names = [n for n in OPS if n not in avoid]
    fam = rng.random()
    if grow:
        f = "m" if fam < 0.5 else "s"
        names = [n for n in names if n[0] == f or n in ("sFromKeys", "sToList", "sFromList")]
        grower, big = f + "Insert", rng.randint(0, 1)
    elif fam < 0.3:
        names = [n for n in names if n[0] == "m" or n == "sFromKeys"]
    elif fam < 0.55:
        names = [n for n in names if n[0] == "s" or n in ("qCons",)]
    elif fam < 0.7:
        names = [n for n in names if n[0] == "q" or n == "sToList"]
    weights = [(STRUCT if grow else WEIGHTS).get(n, 1.0) for n in names]
    ub = {k: 0 for k in ("m0", "m1", "s0", "s1", "q0", "q1")}
    ops = []
    tries = 0
    # one sequence in five starts by building the SAME map (or set) in both registers through different insertion
    # orders — equal as finite maps, different as trees — and compares them before going on: equality, comparison
    # and the binary operations must not see the shape
    if not grow and rng.random() < 0.2 and length >= 12:
        f = "m" if rng.random() < 0.6 else "s"
        keys = rng.sample(pool, min(len(pool), rng.randint(3, 6))) if len(set(pool)) >= 3 else []
        keys = list(dict.fromkeys(keys))
        if len(keys) >= 3 and (f + "Insert") in names:
            vals = {k: rng.randint(0, 9) for k in keys}
            other = keys[:]
            while other == keys:
                rng.shuffle(other)
            for r, order in ((0, keys), (1, other)):
                for k in order:
                    o = {"op": f + "Insert", "r": r, "k": k, "v": vals[k], "f": 0}
                    nb = size_bounds(ub, o)
                    if nb is not None:
                        ub = nb
                        ops.append(o)
            for name in (f + "Equal", f + "Compare", f + "Equal"):
                if name in names:
                    ops.append({"op": name, "r": len(ops) % 2, "k": 0, "v": 0, "f": 0})
    while len(ops) < length and tries < length * 20:
        tries += 1
        growing = len(ops) < grow
        name = grower if growing else rng.choices(names, weights)[0]
        cls = OPS[name][0]
        r = rng.randint(0, 1)
        if growing:
            r = big if rng.random() < 0.8 else 1 - big
        o = {"op": name, "r": r, "k": 0, "v": 0, "f": 0}
        if "k" in cls:
            o["k"] = rng.choice(pool)
        if "v" in cls:
            o["v"] = rng.randint(0, 9)
        m = re.search(r"f(\d)", cls)
        if m:
            o["f"] = rng.randint(0, int(m.group(1)) - 1)
        nb = size_bounds(ub, o)
        if nb is None:
            continue
        ub = nb
        ops.append(o)
    return ops


def size_bounds(ub, o):
    """upper bounds of the register sizes after `o`, or None when a list/set could get too long"""
    n, r = o["op"], o["r"]
    a, b = n[0] + str(r), n[0] + str(1 - r)
    u = dict(ub)
    if n in ("mEmpty", "sEmpty", "qNil"):
        u[a] = 0
    elif n in ("mSingleton", "sSingleton", "qOf"):
        u[a] = 1
    elif n in ("mInsert", "mUpdate", "sInsert", "qCons"):
        u[a] += 1
    elif n in ("mUnion", "mCustomUnion", "mMerge", "sUnion", "qAppend", "qRevAppend"):
        u[a] += u[b]
    elif n in ("mCopy", "sCopy", "qCopy"):
        u[a] = u[b]
    elif n in ("mSplit", "mPartition", "sSplit", "sPartition"):
        u[b] = u[a]
    elif n == "qBind":
        u[a] *= 2
    elif n == "qFlatten":
        u[a] = 2 * u[a] + u[b]
    elif n == "sFromList":
        u[f"s{r}"] = u[f"q{r}"]
    elif n == "sFromKeys":
        u[f"s{r}"] = u[f"m{r}"]
    elif n == "sToList":
        u[f"q{r}"] = u[f"s{r}"]
    if max(u["q0"], u["q1"]) > MAXLIST or max(u["s0"], u["s1"], u["m0"], u["m1"]) > MAXSET:
        return None
    return u


# ------------------------------------------------------------------------------------------------
# printed line -> canonical parts
# ------------------------------------------------------------------------------------------------
INT = r"-?\d+"
RE_L = re.compile(rf"^\[(?:{INT}(?:,{INT})*)?\]$")
RE_E = re.compile(rf"^\[(?:\({INT},{INT}\)(?:,\({INT},{INT}\))*)?\]$")
RE_O = re.compile(rf"^(?:None|Some\(({INT})\))$")
RE_P = re.compile(rf"^(?:None|Some\(\(({INT}),({INT})\)\))$")
RE_I = re.compile(rf"^{INT}$")
RE_OL = re.compile(r"^(?:None|Some\((\[.*\])\))$")


def ints(s):
    return [int(x) for x in re.findall(INT, s)]


def parse_part(kind, s):
    if kind == "L":
        return ints(s) if RE_L.match(s) else None
    if kind == "E":
        return ints(s) if RE_E.match(s) else None
    if kind in ("O", "P"):
        return ints(s) if (RE_O if kind == "O" else RE_P).match(s) else None
    if kind == "B":
        return {"true": [1], "false": [0]}.get(s)
    if kind == "I":
        return [int(s)] if RE_I.match(s) else None
    return None


def parse_line(kind, line):
    """-> parts (list of int lists) or None when the line has not the syntax of `kind`"""
    if kind == "OL":
        m = RE_OL.match(line)
        if not m:
            return None
        if m.group(1) is None:
            return []
        p = parse_part("L", m.group(1))
        return None if p is None else [p]
    comps = {"EOE": "EOE", "EE": "EE", "LBL": "LBL", "LL": "LL"}.get(kind, kind)
    fields = line.split("|")
    if len(fields) != len(comps):
        return None
    parts = [parse_part(k, f) for k, f in zip(comps, fields)]
    return None if any(p is None for p in parts) else parts


# ------------------------------------------------------------------------------------------------
# execution
# ------------------------------------------------------------------------------------------------
def end_line(end):
    k = end.get("k")
    return "<" + str(k) + ":" + str(end.get("msg") or end.get("trap") or "") + ">"


def split_runs(rec):
    """per build: {sid: [lines]} (the pseudo line <panic:..>/<trap:..> appended where the run ended),
    plus the set of sids whose output is complete in that build."""
    res = {}
    for b in BUILDS:
        back, opt = ("wasm", b[4:]) if b.startswith("wasm") else ("ts", b[2:])
        bd = rec.get("builds", {}).get(f"opt:{opt}", {})
        run = bd.get(back)
        if run is None:
            res[b] = None
            continue
        per = {}
        curid = None
        for ln in run["out"]:
            mm = re.match(r"^#seq (\d+)$", ln)
            if mm:
                curid = int(mm.group(1))
                per[curid] = []
            elif curid is not None:
                per[curid].append(ln)
        ended = run["end"].get("k") != "return"
        if ended and curid is not None:
            per[curid].append(end_line(run["end"]))
        res[b] = {"per": per, "last": curid if ended else None, "overflow": bool(run.get("overflow"))}
    return res


def execute(d, tag, seqs, std, stats, batch):
    """Runs all sequences [(sid, ops)]; returns {sid: {build: [lines]}}.  A program that ends early (panic)
    leaves the later sequences of its batch unobserved; those are run again in smaller batches."""
    results = {}
    pending = list(seqs)
    rnd = 0
    while pending:
        rnd += 1
        if rnd > 12:
            stats["not_executed"] = stats.get("not_executed", 0) + len(pending)
            log(f"[c18] {len(pending)} sequences still unobserved after {rnd - 1} rounds (programs keep ending early)")
            break
        bs = max(1, batch >> (rnd - 1)) if rnd > 1 else batch
        progs = [make_program(pending[i:i + bs], std) for i in range(0, len(pending), bs)]
        recs = pc.run_programs(d, f"{tag}-r{rnd}", progs, [0, 31])
        stats["programs"] = stats.get("programs", 0) + len(progs)
        byid = dict(pending)
        nxt = []
        for rec in recs:
            if rec.get("front") != "accepted":
                report_front_failure(rec)
            runs = split_runs(rec)
            for b in BUILDS:
                if runs[b] is None:
                    bd = rec.get("builds", {}).get("opt:" + (b[4:] if b.startswith("wasm") else b[2:]), {})
                    if bd.get("status") == "crashed":
                        diagnose_crash(d, std, [o for sid in rec["sids"] for o in byid[sid]], bd)
                    tool_failure(f"no {b} run for program {rec['origin']}: " + json.dumps({k: v for k, v in bd.items() if k not in ("wasm", "ts")})[:600])
                if runs[b]["overflow"]:
                    stats["overflow_runs"] = stats.get("overflow_runs", 0) + 1
            for sid in rec["sids"]:
                if all(sid in runs[b]["per"] for b in BUILDS):
                    results[sid] = {b: runs[b]["per"][sid] for b in BUILDS}
                elif any(sid in runs[b]["per"] for b in BUILDS):
                    # some build ended before reaching this sequence, another did not: keep what there is
                    results[sid] = {b: runs[b]["per"].get(sid, ["<not-reached>"]) for b in BUILDS}
                else:
                    nxt.append((sid, byid[sid]))
            if any(runs[b]["last"] is not None for b in BUILDS):
                stats["early_ends"] = stats.get("early_ends", 0) + 1
        pending = nxt
    return results


def diagnose_crash(d, std, ops, bd):
    """The compiler crashed on a generated program: find the operations that cannot be compiled on their own.
    A std operation that has no compiled form has no result at all: reported against C18 with the blame on the
    compiler (the crash itself is C03's subject)."""
    names = sorted({o["op"] for o in ops})
    probes = []
    for n in names:
        o = next(o for o in ops if o["op"] == n)
        p = make_program([(0, [o])], std)
        p["name"] = n
        probes.append(p)
    recs = pc.run_programs(d, "probe", probes, [0, 31])
    culprits = [r for r in recs if r.get("front") == "accepted" and any(b.get("status") == "crashed" for b in r.get("builds", {}).values())]
    if not culprits:
        return
    for r in culprits[:5]:
        msg = next(b for b in r["builds"].values() if b.get("status") == "crashed")
        path = save_replay(PID, "uncompilable-op", {"ops": [next(o for o in ops if o["op"] == r["name"])], "std_dir": STD_DIR},
                           "the std operation can be compiled and executed",
                           {"compiler_crash": {k: msg.get(k) for k in ("stage", "message")},
                            "blame": "the compiler panics on the std source of this operation (C03 region); C18 cannot observe the operation"})
        report_violation(PID, path)
    write_evidence(PID, "?", "model_checking", {"states": 0, "transitions": 0, "traces_validated_against_impl": 0, "samples": [],
                                                "uncompilable_operations": [r["name"] for r in culprits]}, [], 0, len(culprits))
    raise SystemExit(1)


def report_front_failure(rec):
    errs = rec.get("errors") or rec.get("crash")
    mods = sorted({e[0] for e in rec.get("errors", [])}) if rec.get("errors") else []
    log(json.dumps(errs)[:3000])
    if mods and all(m.startswith("std.") for m in mods):
        tool_failure(f"the std library in {STD_DIR} does not type-check: {mods} (not a C18 verdict; see C06/C03)")
    tool_failure(f"generated program {rec.get('front')}: generator defect")


def trace_rows(seqs, results):
    rows = []
    for sid, ops in seqs:
        if sid not in results:
            continue
        rows.append({"ev": "seq", "id": sid})
        res = results[sid]
        for i, o in enumerate(ops):
            kind = OPS[o["op"]][1]
            groups = {}
            for b in BUILDS:
                lines = res[b]
                if i < len(lines):
                    ln = lines[i]
                    if i == len(ops) - 1 and len(lines) > len(ops):
                        ln = "<extra-lines>" + ln
                else:
                    ln = "<no-line>"
                groups.setdefault(ln, []).append(b)
            obs = []
            for ln, who in groups.items():
                parts = parse_line(kind, ln)
                obs.append({"who": who, "ok": parts is not None, "parts": parts if parts is not None else [], "raw": ln})
            rows.append({"ev": "op", "id": sid, "i": i, "o": o, "obs": obs, "lines": {ln: who for ln, who in groups.items()}})
    return rows


def slim_row(r):
    return {k: v for k, v in r.items() if k not in ("lines", "expected_parts")}


# ------------------------------------------------------------------------------------------------
# judging with CollTrace.tla
# ------------------------------------------------------------------------------------------------
def kf_list():
    p = os.environ.get("VERIF_KF")
    if p:
        return [k for k in json.load(open(p)) if k.get("property") == PID and k.get("status") == "open"]
    return known_findings(PID)


def judge(d, tag, rows, kfs, stats, chunk_rows=60000, jobs=6):
    """Runs CollTrace.tla over the rows (split at sequence boundaries into chunks, in parallel).
    Returns (bad_rows, known_rows): lists of row indices."""
    hdr = os.path.join(d, f"trace-{tag}.hdr")
    with open(hdr, "w") as f:
        json.dump({"builds": BUILDS, "excuse": [{"ops": k["ops"], "line": k.get("line", ""), "who": k.get("who", [])} for k in kfs if k.get("ops")]}, f)
    chunks = []
    start = 0
    last_seq = 0
    for i, r in enumerate(rows):
        if r["ev"] == "seq":
            if i - start >= chunk_rows:
                chunks.append((start, i))
                start = i
            last_seq = i
    if start < len(rows):
        chunks.append((start, len(rows)))

    def work(ci):
        a, b = chunks[ci]
        tr = os.path.join(d, f"trace-{tag}-{ci}.ndjson")
        write_ndjson(tr, [slim_row(r) for r in rows[a:b]])
        v = tlc("CollTrace", "CollTrace.cfg", env={"TRACE": tr, "TRACE_HDR": hdr}, deque=True, workers=1,
                tag=f"c18tv-{tag}-{ci}", timeout=3000, xmx="6g")
        return v

    with ThreadPoolExecutor(max_workers=jobs) as ex:
        vs = list(ex.map(work, range(len(chunks))))
    bad, known = [], []
    for (a, b), v in zip(chunks, vs):
        stats["tlc_states"] = stats.get("tlc_states", 0) + v.generated
        marks = {"BAD": [], "KNOWN": []}
        for t, val in v.printed:
            if t in marks:
                marks[t].append(a + int(val) - 1)
        # the abstract observation of a bad record (TLC may wrap a long tuple over several lines)
        for mm in re.finditer(r'<<\s*"EXPECTED",\s*(\d+),\s*"(.*?)"\s*>>', v.out, re.S):
            rows[a + int(mm.group(1)) - 1]["expected_parts"] = re.sub(r"\s+", "", mm.group(2))
        if v.violated == "Conforms" or marks["BAD"]:
            if not marks["BAD"] or v.violated != "Conforms":
                log(v.out[-3000:])
                tool_failure(f"CollTrace: inconsistent verdict ({v.violated}, {len(marks['BAD'])} BAD lines)")
        elif v.violated or not v.ok:
            log(v.out[-3000:])
            tool_failure(f"CollTrace.tla run failed on chunk {a}..{b}: {v.violated or v.error}")
        bad += marks["BAD"]
        known += marks["KNOWN"]
    return sorted(set(bad)), sorted(set(known))


def describe(row):
    """who printed what, for the replay file"""
    return {"op": row["o"], "printed": row["lines"], "expected_parts": row.get("expected_parts")}


def blame(row):
    ls = row["lines"]
    if len(ls) == 1:
        return "all four builds (wasm/ts, opt 0/31) print the same wrong result: the std library source"
    return ("the builds disagree with each other (" + "; ".join(f"{'+'.join(w)}: {l}" for l, w in ls.items()) +
            "): a back end / optimiser defect (C04/C02 region) surfacing in the compiled std code")


def run_and_judge(d, tag, seqs, std, kfs, stats, batch=40):
    results = execute(d, tag, seqs, std, stats, batch)
    rows = trace_rows(seqs, results)
    bad, known = judge(d, tag, rows, kfs, stats)
    stats["sequences"] = stats.get("sequences", 0) + sum(1 for r in rows if r["ev"] == "seq")
    stats["ops_rows"] = stats.get("ops_rows", 0) + sum(1 for r in rows if r["ev"] == "op")
    return rows, bad, known


def minimise(d, seq, std, kfs, want_op):
    """greedy one-operation removal while some operation named `want_op` still prints a wrong result"""
    cur = list(seq)
    for rnd in range(80):
        cands = [cur[:i] + cur[i + 1:] for i in range(len(cur))]
        cands = [c for c in cands if c]
        if not cands:
            break
        seqs = list(enumerate(cands))
        st = {}
        rows, bad, known = run_and_judge(d, f"min{rnd}", seqs, std, kfs, st, batch=1 if len(cands) < 8 else 8)
        failing = {rows[i]["id"] for i in bad + known if rows[i]["o"]["op"] == want_op}
        if not failing:
            break
        cur = cands[min(failing)]
    return cur


def load_known_witnesses(kfs, excluded):
    out = []
    for k in kfs:
        w = k.get("witness")
        if not w or k.get("kind") == "uncompilable":
            continue
        p = w if os.path.isabs(w) else os.path.join(VERIF, w)
        try:
            ops = json.load(open(p))["ops"]
        except Exception as e:
            tool_failure(f"known finding witness {p} unreadable: {e}")
        if any(o["op"] in excluded for o in ops):
            log(f"[c18] witness of '{k.get('region')}' uses an operation that cannot be compiled at present; not run")
            continue
        out.append((k, ops))
    return out


class Campaign:
    """Executes slices of sequences and judges them (TLC runs of the previous slice overlap with the
    compilation/execution of the next one); keeps only what is needed to report."""

    def __init__(self, d, std, kfs):
        self.d, self.std, self.kfs = d, std, kfs
        self.stats = {}
        self.per_op = {}
        self.findings = []        # {"kind": bad|known, "sid", "origin", "prefix": ops, "row"}
        self.samples = []
        self.pool = ThreadPoolExecutor(max_workers=1)
        self.pending = None
        self.n = 0

    def _judge(self, tag, seqs, origin, rows):
        bad, known = judge(self.d, tag, rows, self.kfs, self.stats)
        ops_of = dict(seqs)
        nops = {sid: len(ops) for sid, ops in seqs}
        for kind, idx in (("bad", bad), ("known", known)):
            for i in idx:
                r = rows[i]
                self.stats["ops_skipped"] = self.stats.get("ops_skipped", 0) + nops[r["id"]] - r["i"] - 1
                self.findings.append({"kind": kind, "sid": r["id"], "origin": origin, "prefix": ops_of[r["id"]][:r["i"] + 1], "row": r})
        for r in rows:
            if r["ev"] == "op":
                self.per_op[r["o"]["op"]] = self.per_op.get(r["o"]["op"], 0) + 1
                self.stats["ops_rows"] = self.stats.get("ops_rows", 0) + 1
            else:
                self.stats["sequences"] = self.stats.get("sequences", 0) + 1
        if len(self.samples) < 3:
            self.samples.append({"origin": origin, "trace_rows": [slim_row(r) for r in rows[1:4]]})

    def submit(self, origin, seq_ops, batch):
        """seq_ops: list of operation lists"""
        if not seq_ops:
            return
        seqs = [(self.n + i, ops) for i, ops in enumerate(seq_ops)]
        self.n += len(seqs)
        tag = re.sub(r"\W", "", origin) + str(seqs[0][0])
        results = execute(self.d, tag, seqs, self.std, self.stats, batch)
        rows = trace_rows(seqs, results)
        if self.pending:
            self.pending.result()
        self.pending = self.pool.submit(self._judge, tag, seqs, origin, rows)
        return [sid for sid, _ in seqs]

    def finish(self):
        if self.pending:
            self.pending.result()
        self.pool.shutdown()


def slices(xs, n):
    for i in range(0, len(xs), n):
        yield xs[i:i + n]


def scratch(name):
    """a fresh scratch directory under out/C18 (programs, records, traces of one run)"""
    d = os.path.join(outdir(PID), name)
    shutil.rmtree(d, ignore_errors=True)
    os.makedirs(d)
    return d


def run(tier):
    t0 = time.time()
    d = scratch("run")
    build_harness()
    std = std_sources()
    kfs = kf_list()
    quick = tier == "quick"
    excluded = {op for k in kfs if k.get("kind") == "uncompilable" for op in k.get("ops", [])}
    # 1. the abstract model: algebraic laws over keys {1,2,3}, all operation sequences up to Depth
    mc = tlc("CollectionsMC", "CollectionsMCquick.cfg" if quick else "CollectionsMCthorough.cfg", workers=8 if quick else 12,
             timeout=1500, tag="c18mc", xmx="16g")
    tlc_must_pass(mc, "Collections.tla model checking")
    log(f"[c18] model checked: {mc.distinct} states / {mc.generated} transitions, depth {mc.depth - 1}, {mc.wall:.0f}s")
    # 2. [BR] operation sequences enumerated by TLC: all of length 1, all (thorough) / a seeded sample (quick) of
    #    length 2, simulated ones of length 6
    gen1 = tlc("CollGen", "CollGen1.cfg", workers=1, timeout=600, tag="c18gen1")
    tlc_must_pass(gen1, "CollGen depth 1")
    behs1 = behaviours_from(gen1)
    if quick:
        gen2 = tlc("CollGen", "CollGen2.cfg", workers=1, timeout=600, tag="c18gen2",
                   simulate=("num=1200", 3), extra=["-seed", str(SEED)])
    else:
        gen2 = tlc("CollGen", "CollGen2.cfg", workers=4, timeout=900, tag="c18gen2")
        tlc_must_pass(gen2, "CollGen depth 2")
    behs2 = behaviours_from(gen2)
    sim = tlc("CollGen", "CollGenSim.cfg", workers=1, timeout=900, tag="c18sim",
              simulate=(f"num={300 if quick else 8000}", 7), extra=["-seed", str(SEED + 1)])
    behs_sim = behaviours_from(sim)
    if not behs1 or not behs2 or not behs_sim:
        log(gen1.out[-1500:], gen2.out[-1500:], sim.out[-1500:])
        tool_failure("behaviour generation produced nothing")
    names_gen = {o["op"] for b in behs1 for o in b}
    if names_gen != set(OPS):
        tool_failure(f"operation tables of Collections.tla and checks/c18.py differ: {sorted(set(OPS) ^ names_gen)}")
    log(f"[c18] behaviours generated: {len(behs1)} + {len(behs2)} + {len(behs_sim)} at {time.time() - t0:.0f}s")
    drop = lambda bs: [b for b in bs if not any(o["op"] in excluded for o in b)]
    behs1, behs2, behs_sim = drop(behs1), drop(behs2), drop(behs_sim)
    camp = Campaign(d, std, kfs)
    witnesses = load_known_witnesses(kfs, excluded)
    wit_sids = {}
    if witnesses:
        sids = camp.submit("known-finding-witness", [w for _, w in witnesses], 1)
        wit_sids = {sid: k for sid, (k, _) in zip(sids, witnesses)}
    # witnesses of earlier (fixed) findings are regression inputs: they must conform now
    open_w = {os.path.basename(k.get("witness", "")) for k in kfs}
    regress = []
    for p in sorted(glob.glob(os.path.join(VERIF, "findings", "C18-*.json"))):
        if os.path.basename(p) not in open_w:
            ops = json.load(open(p)).get("ops")
            if ops and not any(o["op"] in excluded for o in ops):
                regress.append(ops)
    camp.submit("regression-witness", regress, 4)
    for part in slices(behs1 + behs2, 20000):
        camp.submit("tlc-exhaustive", part, 300)
    for part in slices(behs_sim, 8000):
        camp.submit("tlc-simulated", part, 100)
    log(f"[c18] TLC-generated behaviours executed at {time.time() - t0:.0f}s")
    # 3. seeded random sequences of length <= 60, small and wide key range
    rng = random.Random(SEED)
    n_rand = 2500 if quick else 100000
    done = 0
    budget = 150 if quick else 1320      # seconds for this phase; the count executed is reported
    t_r = time.time()
    while done < n_rand and time.time() - t_r < budget:
        n = min(1250 if quick else 4000, n_rand - done)
        part = [random_sequence(rng, rng.randint(1, 60), wide=((done + i) % 2 == 1), avoid=excluded) for i in range(n)]
        camp.submit("random", part, 25)
        done += n
    camp.finish()
    log(f"[c18] {done} random sequences executed and judged at {time.time() - t0:.0f}s")
    stats = camp.stats
    fails = 0
    # known findings: reported while they still reproduce
    known = [f for f in camp.findings if f["kind"] == "known"]
    for k in kfs:
        reg = k.get("region", "?")
        if k.get("kind") == "uncompilable":
            report_known(PID, f"{k['what']} [operations {k.get('ops')} not executed]")
            continue
        hits = [f for f in known if f["row"]["o"]["op"] in k.get("ops", []) and
                (not k.get("line") or k["line"] in f["row"]["lines"])]
        wit = [f for f in known if wit_sids.get(f["sid"]) is k]
        if hits or wit:
            report_known(PID, f"{k['what']} [region {reg}; {len(hits)} sequences cut short there in this run]")
        else:
            log(f"[c18] known finding '{reg}' did not reproduce in this run (fixed? then mark it fixed in known-findings.json)")
    # violations: up to 5 distinct operations reported, each minimised
    bad = [f for f in camp.findings if f["kind"] == "bad"]
    bad.sort(key=lambda f: len(f["prefix"]))
    seen_ops = set()
    for f in bad:
        row = f["row"]
        op = row["o"]["op"]
        if op in seen_ops or fails >= 5:
            continue
        seen_ops.add(op)
        prefix = f["prefix"]
        small = minimise(d, prefix, std, kfs, op) if len(prefix) > 1 and not os.environ.get("VERIF_C18_NOMIN") else prefix
        if small != prefix:     # what the minimal sequence prints
            r2, b2, _ = run_and_judge(d, "minimal", [(0, small)], std, kfs, {}, batch=1)
            if b2:
                row = r2[b2[0]]
        path = save_replay(PID, "opseq", {"source": f["origin"], "ops": small, "original_length": len(prefix), "std_dir": STD_DIR},
                           "every build prints the canonical rendering of the abstract result (CollTrace!Conforms)",
                           {"failing_op": describe(row), "blame": blame(row)})
        report_violation(PID, path)
        fails += 1
    per_op = camp.per_op
    coverage = {
        "states": mc.distinct, "transitions": mc.generated,
        "traces_validated_against_impl": stats.get("sequences", 0),
        "samples": camp.samples,
        "model_depth": mc.depth - 1, "model_universe": "keys {1,2,3}, values {0,1}, lists up to 4 elements, all 79 operations",
        "tlc_generated_behaviours": {"length1_exhaustive": len(behs1), "length2": len(behs2), "length2_exhaustive": not quick,
                                     "simulated_length6": len(behs_sim)},
        "regression_witnesses": len(regress), "random_sequences": done, "random_max_length": 60, "key_ranges": ["0..7", "0..47 (grow-first profile)", f"+-{WIDE}"],
        "operations_executed": stats.get("ops_rows", 0),
        "operations_validated": stats.get("ops_rows", 0) - stats.get("ops_skipped", 0),
        "operations_not_judged_after_a_deviation": stats.get("ops_skipped", 0),
        "operation_names_covered": len(per_op), "operation_names_total": len(OPS),
        "operations_by_name_min": min(per_op.values()) if per_op else 0,
        "operations_never_executed": sorted(set(OPS) - set(per_op)),
        "programs_compiled": stats.get("programs", 0), "builds_per_program": BUILDS,
        "programs_ended_early": stats.get("early_ends", 0), "sequences_not_executed": stats.get("not_executed", 0),
        "runs_with_i32_overflow": stats.get("overflow_runs", 0),
        "trace_states_checked_by_tlc": stats.get("tlc_states", 0),
        "sequences_deviating": len({f["sid"] for f in bad}),
        "sequences_cut_short_by_known_findings": len({f["sid"] for f in known}),
        "open_known_findings": [k.get("region") for k in kfs], "std_dir": STD_DIR,
        "exhaustive": False,
    }
    if stats.get("overflow_runs"):
        log(f"[c18] WARNING: {stats['overflow_runs']} runs saw a 32-bit overflow (driver bound too loose?)")
    if set(OPS) - set(per_op) - excluded:
        tool_failure(f"vacuity: operations never executed: {sorted(set(OPS) - set(per_op) - excluded)}")
    write_evidence(PID, tier, "model_checking", coverage,
                   ["wasm_interp (own WasmGC interpreter) and ts_run (type eraser + node) observe the compiled programs faithfully; a compiler defect (C01/C02/C04) can surface here, the replay file says whether the builds agree",
                    "the printed line is parsed into integer parts by checks/c18.py (strict per-operation syntax); the comparison with the abstract result is evaluated by TLC (CollTrace.tla)",
                    "observation of a register uses the library's own entries()/elements() and List.map; callbacks are the fixed ones of Collections.tla",
                    "keys stay within +-(2^30-4096) so that Int.compare's subtraction does not overflow",
                    "after a deviation the rest of that sequence is not judged (registers no longer comparable)",
                    "TLC 1.8.0 and the CommunityModules Json/IOUtils/SequencesExt overrides are correct"],
                   time.time() - t0, fails)
    return 1 if fails else 0


def replay(path):
    case = json.load(open(path))["case"]
    d = scratch("replay")
    build_harness()
    std = std_sources()
    stats = {}
    rows, bad, known = run_and_judge(d, "replay", [(0, case["ops"])], std, kf_list(), stats, batch=1)
    for i in bad:
        log(f"[c18] replay: {json.dumps(describe(rows[i]))}")
    if bad:
        report_violation(PID, path)
        return 1
    if known:
        report_known(PID, "replayed sequence deviates only at an open known finding")
    return 0
