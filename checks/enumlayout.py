"""Rule-level half of C01 / C12: spec/EnumLayout.tla (the compiler's enum layout choice next to a
representation semantics; TLC checks soundness for every declaration set under both processing orders)
bound to the code by compiling, for every declaration set TLC enumerates, a program that builds and prints
every value of depth <= 3; EnumLayoutTrace.tla judges the printed lines."""
import json, os
from vlib import *
import progcommon as pc


def payload_show(t, var):
    return {"int": f"Str.fromInt({var})", "S": f'"S" :: Str.fromInt({var}.a)', "Str": var}.get(t, f"{var}.show()")


def payload_type(t):
    return {"int": "int", "S": "S", "Str": "Str"}.get(t, t)


def enum_class(name, variants):
    vs, arms = [], []
    for i, types in enumerate(variants, 1):
        vn = f"V{i}"
        vs.append(vn if not types else f"{vn}({', '.join(payload_type(t) for t in types)})")
        if not types:
            arms.append(f'      {vn} -> "{vn}"')
        else:
            binds = ", ".join(f"a{j}" for j in range(len(types)))
            shown = ' :: "," :: '.join(payload_show(t, f"a{j}") for j, t in enumerate(types))
            arms.append(f'      {vn}({binds}) -> "{vn}(" :: {shown} :: ")"')
    return (f"class {name}({', '.join(vs)}) {{\n  method show(): Str =\n    match this {{\n" + ",\n".join(arms) + "\n    }\n}\n")


def case_program(case, order="12"):
    """order "12": the values of E1 are built (and E1 is met by the compiler) before those of E2; "21": E2 first"""
    text = "class S(val a: int) {}\n" + enum_class("E1", case["decl"]["E1"]) + enum_class("E2", case["decl"]["E2"])
    vals = case["e1"] + case["e2"] if order == "12" else case["e2"] + case["e1"]
    lines = [f"    Process.println({v['build']}.show());" for v in vals]
    text += "class Main {\n  function main(): unit = {\n" + "\n".join(lines) + "\n  }\n}\n"
    return {"origin": f"layout{order}:" + json.dumps(case["decl"], sort_keys=True), "entry": "Main", "sources": {"Main": text},
            "order": order}


def mutually_recursive(case):
    d = case["decl"]
    return any("E2" in v for v in d["E1"]) and any("E1" in v for v in d["E2"])


def two_entry_programs(case):
    """The declarations in a module of their own and two entry modules (each has a Main.main, so the compiler
    lowers both) that meet the two enums in opposite orders: which one the compiler meets first is then a
    matter of the order in which it enumerates the modules.  One program per entry point."""
    types = "class S(val a: int) {}\n" + enum_class("E1", case["decl"]["E1"]) + enum_class("E2", case["decl"]["E2"])
    out = []
    mods = {}
    for m, vals in (("M1", case["e1"] + case["e2"]), ("M2", case["e2"] + case["e1"])):
        lines = [f"    Process.println({v['build']}.show());" for v in vals]
        used = [c for c in ("S", "E1", "E2") if any(f"{c}." in l for l in lines)]
        mods[m] = (f"import {{ {', '.join(used)} }} from Types;\n" if used else "") + \
            "class Main {\n  function main(): unit = {\n" + "\n".join(lines) + "\n  }\n}\n"
    for m in ("M1", "M2"):
        out.append({"origin": f"layout-entries-{m}:" + json.dumps(case["decl"], sort_keys=True), "entry": m,
                    "sources": {"Types": types, "M1": mods["M1"], "M2": mods["M2"]}})
    return out


def layout_cases(pid, tier):
    gen = tlc("EnumLayoutMC", "EnumLayoutGenQuick.cfg" if tier == "quick" else "EnumLayoutGen.cfg", workers=4,
              timeout=1500, tag=f"{pid}elgen")
    tlc_must_pass(gen, "EnumLayout case generation")
    seen, cases = set(), []
    for c in behaviours_from(gen):
        key = json.dumps(c["decl"], sort_keys=True)
        if key in seen or not (c["e1"] or c["e2"]):
            continue
        seen.add(key)
        c["e1"], c["e2"] = c["e1"][:60], c["e2"][:60]
        cases.append(c)
    return cases


def run_layout(pid, tier, d, stats):
    """returns (violations, coverage dict)"""
    mc = tlc("EnumLayoutMC", "EnumLayoutMC.cfg", workers=8, timeout=1500, tag=f"{pid}elmc")
    tlc_must_pass(mc, "EnumLayout.tla model checking")
    cases = layout_cases(pid, tier)
    if tier == "quick":
        cases = cases[::3]
    # both processing orders of the model are replayed: E1 met first, E2 met first
    cases = [dict(c, order=o) for c in cases for o in ("12", "21") if o == "12" or (c["e1"] and c["e2"])]
    progs = [case_program(c, c["order"]) for c in cases]
    recs = pc.run_programs(d, "layout", progs, [0, 31])
    inp = os.path.join(d, "layout-progs.ndjson")
    write_ndjson(inp, [{"id": p["id"], "sources": p["sources"]} for p in progs])
    vh(["mir-types", "--in", inp, "--out", os.path.join(d, "layout-types.ndjson")])
    types = {t["id"]: t for t in read_ndjson(os.path.join(d, "layout-types.ndjson"))}
    rows = []
    for c, r in zip(cases, recs):
        if r.get("front") != "accepted":
            tool_failure(f"layout program rejected or crashed: {r.get('errors') or r.get('crash')}\n{r['sources']['Main']}")
        runs = []
        for b, v in sorted(r["builds"].items()):
            if v.get("status") != "ok":
                runs.append({"name": b, "out": [f"<compiler crashed: {v.get('message')}>"]})
                continue
            for k in ("wasm", "ts"):
                if k in v:
                    out = list(v[k]["out"])
                    if c["order"] == "21" and len(out) == len(c["e1"]) + len(c["e2"]):
                        out = out[len(c["e2"]):] + out[:len(c["e2"])]      # back to the order of the trace row
                    if v[k]["end"]["k"] != "return":
                        out.append("<" + json.dumps(v[k]["end"]) + ">")
                    runs.append({"name": f"{b}/{k}", "out": out})
                elif k == "wasm":
                    runs.append({"name": f"{b}/wasm", "out": ["<no wasm run: " + str(v.get("wasm_invalid_reason") or v.get("wasm_tool_error")) + ">"]})
        lay = {}
        for name, l in (types.get(r["id"], {}).get("layouts") or {}).items():
            if name in ("Main_E1", "Main_E2"):
                lay[name[5:]] = l
        rows.append({"decl": c["decl"], "e1": c["e1"], "e2": c["e2"], "runs": runs, "layouts": lay})
    tr = os.path.join(d, "layout-trace.ndjson")
    write_ndjson(tr, rows)
    fails = 0
    v = tlc("EnumLayoutTrace", "EnumLayoutTrace.cfg", env={"TRACE": tr}, deque=True, tag=f"{pid}eltr", timeout=1500)
    if v.violated:
        l = (v.last_l() or 2) - 1
        bad = rows[l - 1]
        exp = [x["show"] for x in bad["e1"] + bad["e2"]]
        wrong = [r for r in bad["runs"] if r["out"] != exp][:2]
        path = save_replay(pid, "enum-layout", {"decl": bad["decl"], "program": progs[l - 1]["sources"]["Main"]},
                           {"printed": exp}, {"invariant": v.violated, "runs": wrong, "layouts": bad["layouts"]})
        report_violation(pid, path)
        fails += 1
    elif not v.ok:
        log(v.out[-3000:])
        tool_failure(f"EnumLayoutTrace failed: {v.error}")
    dr = tlc("EnumLayoutTrace", "EnumLayoutTraceDrift.cfg", env={"TRACE": tr}, deque=True, tag=f"{pid}eldr", timeout=1500)
    drift = 0
    if dr.violated or not dr.ok:
        drift = 1
        log(f"MODEL-DRIFT: the compiler's enum layout differs from EnumLayout.tla's transcription ({dr.violated or dr.error}) at record {dr.last_l()}")
    stats["tlc_states"] = stats.get("tlc_states", 0) + v.generated + dr.generated
    cov = {"layout_model_states": mc.distinct, "layout_decl_sets_replayed": len(rows),
           "layout_values_printed": sum(len(r["e1"]) + len(r["e2"]) for r in rows), "layout_model_drift": drift,
           "layout_sample": {"decl": rows[len(rows) // 2]["decl"], "layouts": rows[len(rows) // 2]["layouts"],
                             "printed": rows[len(rows) // 2]["runs"][0]["out"][:5]}}
    return fails, cov
