"""C13 — type inference is stable under meaning-preserving rewrites of the source.
Design level: spec/Rewrites.tla (the nine rewrite kinds as actions on an abstract program with the reference
name resolution; TLC checks that under the side conditions the harness enforces every rewrite — and every chain
of up to three — is a stuttering step of the summary <verdict, obs>, and that without the freshness condition
renaming can capture: RewritesMCcapture.cfg must fail).
Code level [TV]: `vh rewrite` applies sampled instances of RenameLocal, ReorderToplevels, ReorderMembers,
Parenthesise, WrapInBlock, AnnotateLet, AnnotateLambda, ExplicitTypeArgs, SplitModule textually (AST locations, no
printer) to accepted programs (generated + repository + the hand-written feature corpus corpus/c13/*.sam) and to
rejected ones (one injected type error); on the feature corpus EVERY applicable instance is applied (`--exhaustive`),
so that each annotation rewrite meets the language features it interacts with (lambdas whose body is typed from
the expected return type, zero-parameter lambdas, bounds that mention other type parameters, ...).  It re-parses and keeps
an instance only if the syntax tree shows exactly the intended modification; originals and rewritten programs
are compiled and run on both back ends; spec/RewritesTrace.tla checks the action property
[][verdict' = verdict /\\ (accepted => obs' = obs)] between consecutive programs of every recorded history.
Which binders RenameLocal may rename, and which occurrences go with a binder, is decided by the reference reading of
the parsed tree (spec/RewritesNames.tla; confirmed per instance by spec/RewritesNamesTrace.tla), never by the checker
under test: the corpus holds accepted programs that bind one name in several scopes that follow one another
(corpus/c13/rebind_*.sam); on a tree that rejects one of them it is a rejected program whose verdict every rewrite
instance must keep.
corpus/c13/rejected/*.sam are hand-written ILL-TYPED programs (one mistake each, of the kinds the annotation rewrites
interact with: a bound-violating generic function value under a function-type hint, a bound-violating explicit type
argument, an under-constrained generic call, a wrong annotation, ...): rejected baselines on which every instance of
every kind is applied too (the sites come from the typed tree the checker returns whatever it reports; for a generic
member used as a value the ExplicitTypeArgs site is the member access with the type arguments the checker solved
from the hint).  A tree that accepts one of them (a check dropped on the inferred path only) flips on the rewrite
that makes the inferred instantiation explicit."""
import glob, hashlib, json, os, re, time
from concurrent.futures import ThreadPoolExecutor
from vlib import *
import progcommon as pc

PID = "C13"
KINDS = ["RenameLocal", "ReorderToplevels", "ReorderMembers", "Parenthesise", "WrapInBlock",
         "AnnotateLet", "ExplicitTypeArgs", "SplitModule", "AnnotateLambda"]
# kinds with few instances per program (everything except the per-expression kinds)
SPARSE_KINDS = [k for k in KINDS if k not in ("Parenthesise", "WrapInBlock")]
CORPUS_DIR = os.path.join(VERIF, "corpus", "c13")
# what the feature corpus must contain for the annotation rewrites to be exercised where they matter (vacuity)
REQUIRED_FEATURES = [
    "annotate_lambda_sites_as_argument_of_call_with_inferred_type_arguments",
    "lambdas_without_parameters_as_argument_of_call_with_inferred_type_arguments",
    "lambdas_returning_lambda",
    "annotate_let_sites_with_instantiated_generic_class",
    "type_parameter_bounds_mentioning_itself",
    "type_parameter_bounds_mentioning_earlier_parameter",
    "type_parameter_bounds_mentioning_later_parameter",
    # RenameLocal: programs that bind a name again once the scope of an earlier binder of that name is closed
    # (a checker that keeps a scope open too long rejects them, and renaming either binder apart flips that)
    "if_let_guard_name_bound_again_in_else_branch:iflet",
    "if_let_guard_name_bound_again_in_else_branch:let",
    "if_let_guard_name_bound_again_in_else_branch:arm",
    "if_let_guard_name_bound_again_in_else_branch:lambda",
    "name_bound_again_after_scope_closed:iflet_then_iflet",
    "name_bound_again_after_scope_closed:iflet_then_let",
    "name_bound_again_after_scope_closed:arm_then_arm",
    "name_bound_again_after_scope_closed:arm_then_let",
    "name_bound_again_after_scope_closed:let_then_let",
    "name_bound_again_after_scope_closed:lambda_then_lambda",
    "name_bound_again_after_scope_closed:lambda_then_let",
    "name_bound_again_after_scope_closed:let_then_lambda",
    # a static function of a generic class that re-uses the NAME of a class type parameter for its own one
    "static_function_type_parameter_named_like_class_type_parameter:same_bound",
    "static_function_type_parameter_named_like_class_type_parameter:bound_only_on_function",
    "static_function_type_parameter_named_like_class_type_parameter:bound_only_on_class",
    "static_function_type_parameter_named_like_class_type_parameter:other_bound",
    # generic members used as values: type arguments solved from the expected function type
    "explicit_type_args_sites_on_generic_member_values",
]
# ... and what the hand-written REJECTED corpus must offer (features of the typed tree of ill-typed programs)
REQUIRED_FEATURES_REJECTED = ["explicit_type_args_sites_on_generic_member_values"]
REJECTED_DIR = os.path.join(CORPUS_DIR, "rejected")
EXHAUSTIVE_HIST = 1_000_000      # history numbers of the exhaustive pass start here
DENSE_CAP_QUICK = 0              # quick tier: Parenthesise / WrapInBlock instances per corpus program (0 = all)
RENAME_APART_MAX = 80            # steps of a rename-apart history
BUILDS = [31]
PROFILES = (("mixed", 0.3), ("enums", 0.2), ("closures", 0.2), ("loops", 0.15), ("strings", 0.15))


def known():
    p = os.environ.get("VERIF_KF")
    if p:
        return [k for k in json.load(open(p)) if k.get("property") == PID and k.get("status") == "open"]
    return known_findings(PID)


def generated(d, n, seed):
    """accepted-by-construction programs from the seeded generator; [] if the generator is not there"""
    progs = []
    for prof, share in PROFILES:
        k = max(1, int(n * share))
        outp = os.path.join(d, f"gen-{prof}-{seed}.ndjson")
        if os.path.exists(outp):
            os.remove(outp)
        _, rc = vh(["gen-programs", "--seed", seed, "--n", k, "--out", outp, "--profile", prof], check=False)
        if rc != 0 or not os.path.exists(outp):
            log(f"[c13] gen-programs --profile {prof} not available (exit {rc}); continuing without it")
            continue
        progs += read_ndjson(outp)
    return progs


HAND = [
    {"origin": "hand:generic-calls", "entry": "Main", "sources": {
        "Lib": "import { Option } from std.option;\nimport { List } from std.list;\n\nclass Box<T>(val v: T) {\n  method <R> map(f: (T) -> R): Box<R> = Box.init(f(this.v))\n  method get(): T = this.v\n  function <A> of(a: A): Box<A> = Box.init(a)\n}\n\nclass Shape(Circle(int), Rect(int, int)) {\n  method area(): int = match this {\n    Circle(r) -> r * r * 3,\n    Rect(w, h) -> w * h,\n  }\n}\n\nclass Util {\n  function <T> pick(c: bool, a: T, b: T): T = if c { a } else { b }\n  function total(l: List<int>): int = l.fold((acc, x) -> acc + x, 0)\n  function first(o: Option<int>): int = match o { Some(x) -> x, None -> 0 - 1 }\n}\n",
        "Main": "import { Box, Shape, Util } from Lib;\nimport { Option } from std.option;\nimport { List } from std.list;\n\nclass Main {\n  function show(n: int): unit = Process.println(Str.fromInt(n))\n  function main(): unit = {\n    let b = Box.of(20);\n    let c = b.map((x) -> x + 1);\n    let { v } = c;\n    let (p, q) = (v, Util.pick(v > 3, 7, 9));\n    let s = Shape.Rect(p, q);\n    let area = s.area();\n    let l = List.of(1).cons(2).cons(area);\n    let o = Option.Some(Util.total(l));\n    Main.show(Util.first(o));\n    Main.show(Util.pick(false, Shape.Circle(2), s).area());\n    let f = (k: int) -> k * Util.first(Option.None<int>());\n    Main.show(f(3))\n  }\n}\n"}},
]


def feature_corpus(directory=CORPUS_DIR, origin="corpus:"):
    """corpus/c13/*.sam: hand-written accepted programs (corpus/c13/rejected/*.sam: ill-typed ones, origin
    `corpus-rejected:`); a file is one module `Main`, or several modules introduced by lines `// module: Name`
    (the entry is the module Main)"""
    progs = []
    for path in sorted(glob.glob(os.path.join(directory, "*.sam"))):
        text = open(path).read()
        parts = re.split(r"^// module: (\w+)[ \t]*\n", text, flags=re.M)
        srcs = {"Main": text} if len(parts) == 1 else {parts[i]: parts[i + 1] for i in range(1, len(parts), 2)}
        progs.append({"origin": origin + os.path.basename(path), "entry": "Main", "sources": srcs, "with_std": True})
    return progs


def prune(p):
    """a repository program restricted to the modules its entry can reach through imports"""
    srcs = p["sources"]
    seen, todo = set(), [p["entry"]]
    while todo:
        m = todo.pop()
        if m in seen or m not in srcs:
            continue
        seen.add(m)
        todo += re.findall(r"^\s*import\s*\{[^}]*\}\s*from\s+([\w.]+)", srcs[m], re.M)
    # std modules the compiler itself refers to (tuples) stay available
    keep = {m: t for m, t in srcs.items() if m in seen or m.startswith("std.")}
    q = dict(p)
    q["sources"] = keep
    return q


def corpus(d, tier):
    n_gen = 40 if tier == "quick" else 520
    n_repo = 2 if tier == "quick" else 14
    n_broken = 24 if tier == "quick" else 360
    good = generated(d, n_gen, SEED + 13)
    repo = pc.repo_programs()
    wrappers = [prune(p) for p in repo[1:]]
    step = max(1, len(wrappers) // max(1, n_repo))
    good += wrappers[::step][:n_repo]
    if tier != "quick":
        good.append(repo[0])
    good += [dict(h, with_std=True) for h in json.loads(json.dumps(HAND))]
    feat = feature_corpus()
    good += feat
    for i, p in enumerate(good):
        p["id"] = i
    # rejected programs: one injected static error each
    src = os.path.join(d, "break-in.ndjson")
    dst = os.path.join(d, "break-out.ndjson")
    small = [p for p in good if sum(len(t) for t in p["sources"].values()) < 400_000]
    write_ndjson(src, small[:: max(1, len(small) // max(1, n_broken))][:n_broken])
    vh(["rewrite-break", "--in", src, "--out", dst, "--seed", SEED, "--per-program", 1])
    broken = read_ndjson(dst)
    # ... and the feature corpus, each program with one (thorough: four) injected error(s)
    write_ndjson(src, feat)
    vh(["rewrite-break", "--in", src, "--out", dst, "--seed", SEED + 1, "--per-program", 1 if tier == "quick" else 4])
    broken += read_ndjson(dst)
    # ... and the hand-written ill-typed programs (rejected baselines as they are)
    programs = good + broken + feature_corpus(REJECTED_DIR, "corpus-rejected:")
    for i, p in enumerate(programs):
        p["id"] = i
        p.setdefault("with_std", True)
        for k in ("features", "census", "est_cost", "lines"):
            p.pop(k, None)
    return programs


def rewrite(d, programs, per_program, chain, avoid, jobs=8, kinds=None, exhaustive=False, max_per_kind=0, tag="rw",
            rename_apart=0):
    """runs `vh rewrite` over the programs in parallel; returns (step records, census);
    exhaustive: every applicable instance of `kinds` (per program and kind at most max_per_kind, 0 = all)
    as a history of one step, instead of sampled chains"""
    chunks = [c for c in (programs[i::jobs] for i in range(jobs)) if c]
    av = os.path.join(d, "avoid.json")
    json.dump(avoid, open(av, "w"))

    def work(ci):
        inp = os.path.join(d, f"{tag}-in-{ci}.ndjson")
        outp = os.path.join(d, f"{tag}-out-{ci}.ndjson")
        write_ndjson(inp, chunks[ci])
        args = ["rewrite", "--in", inp, "--out", outp, "--seed", SEED, "--per-program", per_program,
                "--chain", chain, "--avoid", av]
        if kinds:
            args += ["--kinds", ",".join(kinds)]
        if exhaustive:
            args += ["--exhaustive", "--max-per-kind", max_per_kind]
        if rename_apart:
            args += ["--rename-apart", "--max-steps", rename_apart]
        out, _ = vh(args, timeout=3000)
        return read_ndjson(outp), json.loads(out.strip().splitlines()[-1])

    with ThreadPoolExecutor(max_workers=jobs) as ex:
        parts = list(ex.map(work, range(len(chunks))))
    steps = [s for part, _ in parts for s in part]
    census = {"programs": 0, "unparseable": 0, "frontend_crashed": 0, "histories": 0, "steps": 0, "features": {},
              "kinds": {k: {"found": 0, "attempted": 0, "applied": 0, "discarded": 0, "discard_reasons": {}} for k in KINDS}}
    for _, c in parts:
        for k in ("programs", "unparseable", "frontend_crashed", "histories", "steps"):
            census[k] += c[k]
        for f, n in c.get("features", {}).items():
            census["features"][f] = census["features"].get(f, 0) + n
        for kc in c["kinds"]:
            t = census["kinds"][kc["kind"]]
            for f in ("found", "attempted", "applied", "discarded"):
                t[f] += kc[f]
            for why, n in kc["discard_reasons"].items():
                t["discard_reasons"][why] = t["discard_reasons"].get(why, 0) + n
            BROKE_SYNTAX.extend(kc.get("broke_syntax", []))
    return steps, census


BROKE_SYNTAX = []     # Parenthesise / WrapInBlock instances whose result does not parse (filled by rewrite())


def exhaustive_pass(d, programs, tier, avoid):
    """every applicable instance on the feature corpus (and, for the kinds with few instances, on its broken
    variants), each as a history of one step; quick caps the two per-expression kinds per program"""
    ok = [p for p in programs if p["origin"].startswith("corpus:") and "+break:" not in p["origin"]]
    bad = [p for p in programs if p["origin"].startswith("corpus:") and "+break:" in p["origin"]]
    dense = [k for k in KINDS if k not in SPARSE_KINDS]
    cap = DENSE_CAP_QUICK if tier == "quick" else 0
    rej = [p for p in programs if p["origin"].startswith("corpus-rejected:")]
    passes = [(ok, SPARSE_KINDS, 0, "exs"), (ok, dense, cap, "exd"), (bad, SPARSE_KINDS, 0, "exbs"),
              (rej, SPARSE_KINDS, 0, "exrs"), (rej, dense, cap, "exrd")]
    if tier != "quick":
        passes.append((bad, dense, 0, "exbd"))
    steps = []
    census = {"programs": len(ok), "rejected_variants": len(bad), "features": {},
              "kinds": {k: {"found": 0, "attempted": 0, "applied": 0, "discarded": 0, "discard_reasons": {}} for k in KINDS},
              "kinds_on_rejected_variants": {k: {"found": 0, "attempted": 0, "applied": 0, "discarded": 0, "discard_reasons": {}} for k in KINDS},
              "rejected_corpus_programs": len(rej), "features_of_rejected_corpus": {},
              "kinds_on_rejected_corpus": {k: {"found": 0, "attempted": 0, "applied": 0, "discarded": 0, "discard_reasons": {}} for k in KINDS},
              "per_expression_kinds_cap_per_program": cap}
    # ... and per corpus program one history that renames apart, step after step, every binder whose name is
    # bound more than once in its module (thorough: also on the variants with an injected error)
    passes.append((ok, ["RenameLocal"], 0, "apart"))
    if tier != "quick":
        passes.append((bad, ["RenameLocal"], 0, "apartb"))
    census["rename_apart_histories"] = 0
    census["rename_apart_steps"] = 0
    for n, (progs, kinds, mpk, tag) in enumerate(passes):
        if not progs:
            continue
        if tag.startswith("apart"):
            st, c = rewrite(d, progs, 0, 1, avoid, rename_apart=RENAME_APART_MAX, tag=tag)
            for x in st:
                x["hist"] += EXHAUSTIVE_HIST * (n + 1)
            steps += st
            census["rename_apart_histories"] += c["histories"]
            census["rename_apart_steps"] += c["steps"]
            continue
        st, c = rewrite(d, progs, 0, 1, avoid, kinds=kinds, exhaustive=True, max_per_kind=mpk, tag=tag)
        for x in st:
            x["hist"] += EXHAUSTIVE_HIST * (n + 1)
        steps += st
        into = census["kinds"] if progs is ok else census["kinds_on_rejected_corpus"] if progs is rej else census["kinds_on_rejected_variants"]
        for k in kinds:
            into[k] = c["kinds"][k]
        if tag == "exs":
            census["features"] = c["features"]
        if tag == "exrs":
            census["features_of_rejected_corpus"] = c["features"]
    return steps, census


def confirm_rename_instances(d, steps, stats):
    """spec/RewritesNamesTrace.tla confirms, for every RenameLocal step, that the binder is renameable by the
    reference reading (RewritesNames.tla) and that exactly the uses that resolve to it were renamed.
    The harness computes both with a transcription of those operators; a step TLC does not confirm means harness
    and specification have come apart (tool failure, never a verdict)."""
    rn = [s for s in steps if s["kind"] == "RenameLocal"]
    rows = [s["names"] for s in rn if "names" in s]
    stats["rename_steps"] = len(rn)
    stats["rename_steps_confirmed_by_tlc"] = 0
    stats["rename_steps_member_too_large_for_tlc"] = len(rn) - len(rows)
    stats["rename_steps_where_checker_reads_binder_differently"] = sum(1 for s in rn if not s.get("checker_agrees", True))
    if not rows:
        return
    tr = os.path.join(d, "names.ndjson")
    write_ndjson(tr, rows)
    v = tlc("RewritesNamesTrace", "RewritesNamesTrace.cfg", env={"TRACE": tr}, workers=4, tag="c13names", timeout=1200, xmx="4g")
    if not v.ok:
        log(v.out[-3000:])
        tool_failure(f"RewritesNamesTrace.tla run failed: {v.violated or v.error}")
    vs = {x["r"]: x for x in behaviours_from(v, "VERDICT")}
    if sorted(vs) != list(range(1, len(rows) + 1)):
        tool_failure(f"RewritesNamesTrace judged {len(vs)} of {len(rows)} rename instances")
    bad = [i for i, x in vs.items() if not (x["wellFormed"] and x["renameable"] and x["occurrences"])]
    if bad:
        log(json.dumps({"row": rows[bad[0] - 1], "verdict": vs[bad[0]]})[:3000])
        tool_failure(f"{len(bad)} RenameLocal instance(s) of the harness are not instances by RewritesNames.tla (harness/spec drift)")
    stats["rename_steps_confirmed_by_tlc"] = len(rows)
    stats["tlc_states"] = stats.get("tlc_states", 0) + v.generated


def apply_delta(sources, delta):
    s = dict(sources)
    for m, t in delta.items():
        if t is None:
            s.pop(m, None)
        else:
            s[m] = t
    return s


def summary_row(meta, rec):
    """one line of the trace for spec/RewritesTrace.tla"""
    return {"pid": meta["pid"], "hist": meta["hist"], "step": meta["step"], "kind": meta["kind"], "site": meta["site"],
            "valid": meta["valid"], "front": rec.get("front", "crashed"), "errorCount": len(rec.get("errors", [])),
            "builds": rec.get("builds", {})}


def run_histories(d, programs, steps, round_size=6000):
    """compiles and runs the originals and every rewritten program; returns histories:
    [{"pid", "hist", "rows": [row...], "sources": [sources per row] (kept lazily: only deltas)}]"""
    by_pid = {p["id"]: p for p in programs}
    orig_recs = pc.run_programs(d, "orig", [dict(p) for p in programs], BUILDS)
    orig_by_pid = {p["id"]: r for p, r in zip(programs, orig_recs)}
    # histories in file order
    hists = {}
    for s in steps:
        hists.setdefault((s["pid"], s["hist"]), []).append(s)
    keys = sorted(hists)
    results = {}
    batch, metas = [], []

    def flush():
        nonlocal batch, metas
        if not batch:
            return
        recs = pc.run_programs(d, "steps", batch, BUILDS)
        for m, r in zip(metas, recs):
            results[m] = {k: v for k, v in r.items() if k in ("front", "errors", "builds", "crash")}
        batch, metas = [], []

    for key in keys:
        p = by_pid[key[0]]
        cur = p["sources"]
        for s in sorted(hists[key], key=lambda s: s["step"]):
            cur = apply_delta(cur, s["delta"])
            batch.append({"origin": f"{p['origin']}#h{key[1]}s{s['step']}", "entry": p["entry"], "sources": cur,
                          "with_std": p.get("with_std", True)})
            metas.append((key[0], key[1], s["step"]))
        if len(batch) >= round_size:
            flush()
    flush()
    out = []
    for key in keys:
        p = by_pid[key[0]]
        rows = [summary_row({"pid": key[0], "hist": key[1], "step": 0, "kind": "Original", "site": "", "valid": True},
                            orig_by_pid[key[0]])]
        for s in sorted(hists[key], key=lambda s: s["step"]):
            rows.append(summary_row(s, results[(key[0], key[1], s["step"])]))
        out.append({"pid": key[0], "hist": key[1], "rows": rows, "steps": sorted(hists[key], key=lambda s: s["step"])})
    return out


def tlc_chunks(d, hists, cfg, tag, stats, max_lines=4000, par=3):
    """runs RewritesTrace over the histories (chunked, histories never split);
    returns [(history, index of the offending row)] — at most one per chunk and pass"""
    chunks, cur, n = [], [], 0
    for h in hists:
        if n + len(h["rows"]) > max_lines and cur:
            chunks.append(cur)
            cur, n = [], 0
        cur.append(h)
        n += len(h["rows"])
    if cur:
        chunks.append(cur)

    def work(ci):
        rows = [r for h in chunks[ci] for r in h["rows"]]
        tr = os.path.join(d, f"trace-{tag}-{ci}.ndjson")
        write_ndjson(tr, rows)
        return tlc("RewritesTrace", cfg, env={"TRACE": tr}, deque=True, tag=f"c13{tag}{ci}", timeout=2400, xmx="4g")

    with ThreadPoolExecutor(max_workers=par) as ex:
        res = list(ex.map(work, range(len(chunks))))
    bad = []
    for ci, v in enumerate(res):
        stats["tlc_states"] = stats.get("tlc_states", 0) + v.generated
        if v.violated:
            l = (v.last_l() or 2) - 1           # 1-based index of the offending line in the chunk
            at = 0
            for h in chunks[ci]:
                if at + len(h["rows"]) >= l:
                    bad.append((h, l - at - 1, v.violated))
                    break
                at += len(h["rows"])
        elif not v.ok:
            log(v.out[-3000:])
            tool_failure(f"RewritesTrace.tla run failed ({cfg}): {v.error}")
    return bad


def case_of(programs, h, idx):
    """replayable case: the original program and the chain of rewritten programs up to row idx"""
    p = next(p for p in programs if p["id"] == h["pid"])
    cur, chain = p["sources"], []
    for s in h["steps"][:idx]:
        cur = apply_delta(cur, s["delta"])
        chain.append({"kind": s["kind"], "site": s["site"], "sources": cur})
    return {"program": {"origin": p["origin"], "entry": p["entry"], "sources": p["sources"]},
            "with_std": p.get("with_std", True), "chain": chain}


def matches_known(kf, case):
    last = case["chain"][-1]
    before = case["chain"][-2]["sources"] if len(case["chain"]) > 1 else case["program"]["sources"]
    for k in kf:
        m = k.get("match", {})
        if m.get("kind") == last["kind"] and any(m.get("contains", "\0") in t for t in before.values()):
            return k
    return None


def judge(d, programs, hists, stats, kf):
    """verdict pass: reports violations / known findings; returns number of violations"""
    fails, reported, remaining = 0, 0, list(hists)
    seen_known = set()
    while remaining and reported < 8:
        bad = tlc_chunks(d, remaining, "RewritesTrace.cfg", "v", stats)
        if not bad:
            break
        for h, idx, prop in bad:
            case = case_of(programs, h, idx)
            a, b = h["rows"][idx - 1], h["rows"][idx]
            observed = {"property": prop, "kind": b["kind"], "site": b["site"],
                        "before": {k: a[k] for k in ("front", "errorCount", "builds")},
                        "after": {k: b[k] for k in ("front", "errorCount", "builds")}}
            k = matches_known(kf, case)
            reported += 1
            if k:
                if k["what"] not in seen_known:
                    report_known(PID, k["what"])
                    seen_known.add(k["what"])
                stats["known_hits"] = stats.get("known_hits", 0) + 1
            else:
                path = save_replay(PID, "history", case, "every rewrite step keeps the verdict and, when accepted, the behaviour (RewritesTrace!Stable)", observed)
                report_violation(PID, path)
                fails += 1
            # the rest of that history is not judged further; the others are
            h["rows"] = h["rows"][:idx]
            h["steps"] = h["steps"][:idx - 1]
        remaining = [h for h in remaining if len(h["rows"]) > 1]
    return fails


def known_witnesses(d, kf, stats):
    """open findings are re-checked on their witness and announced"""
    for k in kf:
        w = k.get("witness")
        if not w:
            continue
        path = w if os.path.isabs(w) else os.path.join(VERIF, w)
        if not os.path.exists(path):
            log(f"[c13] witness {path} of a known finding is missing")
            continue
        if replay(path, quiet=True) == 1:
            report_known(PID, k["what"])
            stats["known_witnesses_reproduced"] = stats.get("known_witnesses_reproduced", 0) + 1
        else:
            log(f"[c13] known finding no longer reproduces on its witness: {k['what'][:100]}")


def run(tier):
    t0 = time.time()
    d = outdir(PID)
    build_harness()
    stats = {}
    kf = known()
    # design level
    mc = tlc("RewritesMC", "RewritesMCquick.cfg" if tier == "quick" else "RewritesMC.cfg", workers=4, timeout=1200,
             tag="c13mc", coverage=True)
    tlc_must_pass(mc, "Rewrites.tla model checking")
    cap = tlc("RewritesMC", "RewritesMCcapture.cfg", workers=2, timeout=600, tag="c13cap")
    if cap.violated != "Stable":
        log(cap.out[-2000:])
        tool_failure("Rewrites.tla: renaming to a name in use must be able to capture (RewritesMCcapture.cfg should fail)")
    # code level
    log(f"[c13] abstract model {mc.distinct} states; {time.time()-t0:.0f}s")
    programs = corpus(d, tier)
    log(f"[c13] {len(programs)} programs; {time.time()-t0:.0f}s")
    per_program, chain = (11, 3) if tier == "quick" else (22, 3)
    avoid = [k["match"] for k in kf if "match" in k]
    steps, census = rewrite(d, programs, per_program, chain, avoid)
    ex_steps, ex_census = exhaustive_pass(d, programs, tier, avoid)
    n_sampled = len(steps)
    steps += ex_steps
    log(f"[c13] {n_sampled} sampled rewrite steps + {len(ex_steps)} (every instance on the feature corpus); {time.time()-t0:.0f}s")
    confirm_rename_instances(d, steps, stats)
    for s in steps:
        s.pop("names", None)
    # the checker's own name resolution against the reference reading (information: a difference is not a verdict;
    # the verdict is what renaming does to accepted / rejected)
    reading = {k: census["features"].get(k, 0) + ex_census["features"].get(k, 0)
               for k in ("local_binders", "local_binders_in_a_name_clash", "local_binders_the_checker_reads_differently",
                         "local_uses", "local_uses_the_checker_resolves_differently")}
    if reading["local_binders_the_checker_reads_differently"] or reading["local_uses_the_checker_resolves_differently"]:
        log(f"MODEL-DRIFT: the checker's name resolution differs from the reference reading (RewritesNames.tla) at "
            f"{reading['local_binders_the_checker_reads_differently']} of {reading['local_binders']} local binders and "
            f"{reading['local_uses_the_checker_resolves_differently']} of {reading['local_uses']} uses")
    log(f"[c13] {stats['rename_steps_confirmed_by_tlc']} of {stats['rename_steps']} RenameLocal instances confirmed by RewritesNamesTrace.tla; {time.time()-t0:.0f}s")
    hists = run_histories(d, programs, steps)
    log(f"[c13] programs compiled and run; {time.time()-t0:.0f}s")
    fails = judge(d, programs, hists, stats, kf)
    log(f"[c13] judged; {time.time()-t0:.0f}s")
    # wrapping a complete expression in parentheses or a block can never make a parseable program unparseable:
    # such an instance is a verdict flip the structural validation would otherwise discard silently
    seen = set()
    for b in BROKE_SYNTAX:
        key = (b["kind"], b["site"])
        if key in seen or len(seen) >= 5:
            continue
        seen.add(key)
        changed = {m: t for m, t in b["after"].items() if b["before"].get(m) != t}
        if b.get("crash"):
            # the checker gave a verdict on the original and crashes on the rewritten program
            path = save_replay(PID, "wrap-breaks-syntax", {"kind": b["kind"], "site": b["site"], "before": b["before"], "after": b["after"]},
                               "the checker gives the rewritten program the verdict it gave the original", {"checker_crash_after": b["crash"][:500]})
            log(f"[c13] {b['kind']} at {b['site']} makes the checker crash: {b['crash'][:200]}")
            report_violation(PID, path)
            fails += 1
            continue
        path = save_replay(PID, "wrap-breaks-syntax", {"kind": b["kind"], "site": b["site"], "before": {m: b["before"].get(m) for m in changed},
                                                        "after": changed},
                           "the rewritten program parses (the original does)", {"syntax_errors_after": True})
        log(f"[c13] {b['kind']} at {b['site']} makes the program unparseable")
        report_violation(PID, path)
        fails += 1
    known_witnesses(d, kf, stats)
    # drift: number of diagnostics of rejected programs
    drift = tlc_chunks(d, [h for h in hists if len(h["rows"]) > 1], "RewritesTraceStrict.cfg", "s", {})
    for h, idx, _ in drift[:5]:
        a, b = h["rows"][idx - 1], h["rows"][idx]
        log(f"MODEL-DRIFT: {b['kind']} at {b['site']} changed the number of diagnostics {a['errorCount']} -> {b['errorCount']} (program {h['pid']})")
    # census of what was judged
    judged = {k: {"verdict_judged": 0, "behaviour_judged": 0, "rejected": 0} for k in KINDS}
    chains = {}
    texts = set()
    n_drift = 0

    def impl_or_tool(r):
        for b in r["builds"].values():
            if "wasm_tool_error" in b or "ts_tool_error" in b:
                return True
            w = b.get("wasm")
            if w and (w.get("overflow") or w["end"]["k"] == "budget" or
                      (w["end"]["k"] == "trap" and w["end"].get("trap") in ("integer divide by zero", "integer overflow", "call stack exhausted"))):
                return True
            t = b.get("ts")
            if t and (t["end"]["k"] == "budget" or (t["end"]["k"] == "trap" and t["end"].get("trap") == "call stack exhausted")):
                return True
        return False

    for h in hists:
        chains[len(h["rows"]) - 1] = chains.get(len(h["rows"]) - 1, 0) + 1
        for a, b in zip(h["rows"], h["rows"][1:]):
            j = judged[b["kind"]]
            j["verdict_judged"] += 1
            if a["front"] == "accepted" and not impl_or_tool(a) and not impl_or_tool(b):
                j["behaviour_judged"] += 1
            if a["front"] == "rejected":
                j["rejected"] += 1
                if a["errorCount"] != b["errorCount"]:
                    n_drift += 1
    for s in steps:
        texts.add(hashlib.sha1(json.dumps(s["delta"], sort_keys=True).encode()).hexdigest())
    n_judged = sum(j["verdict_judged"] for j in judged.values())
    # the feature corpus is accepted by the tree it was written against; on another tree this is a fact about
    # the population (logged, counted), not a verdict: its rewrites are still judged
    corpus_ids = {p["id"]: p["origin"] for p in programs if p["origin"].startswith("corpus:") and "+break:" not in p["origin"]}
    corpus_rejected = sorted({corpus_ids[h["pid"]] for h in hists if h["pid"] in corpus_ids and h["rows"][0]["front"] != "accepted"})
    for o in corpus_rejected:
        log(f"[c13] note: feature-corpus program {o} is not accepted by this tree")
    rej_ids = {p["id"]: p["origin"] for p in programs if p["origin"].startswith("corpus-rejected:")}
    rej_accepted = sorted({rej_ids[h["pid"]] for h in hists if h["pid"] in rej_ids and h["rows"][0]["front"] == "accepted"})
    for o in rej_accepted:
        log(f"[c13] note: ill-typed corpus program {o} is accepted by this tree")
    # vacuity (only meaningful when nothing was reported): every kind judged, the features met
    if not fails:
        idle = [k for k in KINDS if judged[k]["verdict_judged"] == 0]
        if idle:
            tool_failure(f"vacuous: no instance of {idle} was judged")
        if not corpus_ids:
            tool_failure(f"vacuous: no feature corpus in {CORPUS_DIR}")
        if not any(h["rows"][0]["front"] == "accepted" for h in hists):
            tool_failure("vacuous: this tree accepts no program of the population (not even the standard library?): "
                         "nothing can be said about accepted programs")
        missing = [f for f in REQUIRED_FEATURES if not ex_census["features"].get(f)]
        if missing and not corpus_rejected:
            tool_failure(f"vacuous: the feature corpus lacks {missing}")
        unapplied = [k for k in ("AnnotateLambda", "AnnotateLet", "ExplicitTypeArgs") if ex_census["kinds"][k]["applied"] == 0]
        if unapplied:
            tool_failure(f"vacuous: no instance of {unapplied} on the feature corpus")
        if not rej_ids:
            tool_failure(f"vacuous: no ill-typed corpus in {REJECTED_DIR}")
        missing = [f for f in REQUIRED_FEATURES_REJECTED if not ex_census["features_of_rejected_corpus"].get(f)]
        if missing:
            tool_failure(f"vacuous: the ill-typed corpus lacks {missing}")
        unapplied = [k for k in ("AnnotateLet", "ExplicitTypeArgs") if ex_census["kinds_on_rejected_corpus"][k]["applied"] == 0]
        if unapplied:
            tool_failure(f"vacuous: no instance of {unapplied} on the ill-typed corpus")
    fronts = {}
    for h in hists:
        fronts[h["rows"][0]["front"]] = fronts.get(h["rows"][0]["front"], 0) + 1
    per_kind = {k: dict(census["kinds"][k], **judged[k]) for k in KINDS}
    sample_h = [h for h in hists if len(h["rows"]) > 2][:2] + hists[-1:]
    coverage = {
        "evaluations": n_judged, "distinct_nontrivial": len(texts),
        "rule": "one evaluation = one rewrite step (a program and its rewritten successor, both compiled and run on the "
                "WebAssembly and TypeScript back ends at opt:31) judged by RewritesTrace!Stable; non-trivial = distinct "
                "resulting text change (hash of the modules the step changed); instances whose re-parsed tree is not exactly "
                "the intended one are discarded before judging and counted per kind",
        "samples": [{"program": next(p["origin"] for p in programs if p["id"] == h["pid"]),
                     "steps": [{"kind": r["kind"], "site": r["site"], "front": r["front"], "errorCount": r["errorCount"]} for r in h["rows"]]}
                    for h in sample_h],
        "program_census": {"total": len(programs), "histories_by_original_verdict": fronts,
                     "rewriter_census": {k: census[k] for k in ("programs", "unparseable", "frontend_crashed", "histories", "steps")}},
        "per_kind": per_kind,
        "feature_corpus": dict(ex_census, steps=len(ex_steps), files=sorted(corpus_ids.values()),
                               not_accepted_by_this_tree=corpus_rejected,
                               rejected_corpus_files=sorted(rej_ids.values()),
                               rejected_corpus_accepted_by_this_tree=rej_accepted,
                               rule="every applicable instance of every kind on each corpus program (the two per-expression "
                                    "kinds capped per program in the quick tier when the cap is non-zero), and every instance of "
                                    "the other kinds on its variants with one injected error; one history of one step each"),
        "chain_lengths": {str(k): v for k, v in sorted(chains.items())},
        "rename_local_instances": {"steps": stats["rename_steps"],
                                   "confirmed_by_RewritesNamesTrace": stats["rename_steps_confirmed_by_tlc"],
                                   "member_too_large_for_tlc": stats["rename_steps_member_too_large_for_tlc"],
                                   "steps_where_checker_reads_the_binder_differently": stats["rename_steps_where_checker_reads_binder_differently"],
                                   "reference_reading_vs_checker": reading,
                                   "rule": "binders and their occurrences come from the reference reading of the parsed tree "
                                           "(RewritesNames.tla), not from the checker under test; the comparison with the checker's "
                                           "own resolution is information only"},
        "error_count_drift_steps": n_drift,
        "known_finding_hits": stats.get("known_hits", 0),
        "abstract_model": {"states": mc.distinct, "transitions": mc.generated, "capture_counterexample_found": True},
        "trace_states_checked_by_tlc": stats.get("tlc_states", 0),
        "builds": [f"opt:{b}" for b in BUILDS],
    }
    write_evidence(PID, tier, "exploration", coverage,
                   ["rewrites are applied as text edits at AST locations and kept only if the re-parsed syntax tree (locations and comments "
                    "ignored, class references resolved) equals the original tree with exactly the intended modification",
                    "AnnotateLet / AnnotateLambda / ExplicitTypeArgs write the checker's own inferred type and are kept only if the parsed annotation denotes "
                    "exactly that type (same classes in the same modules); types with unknown parts or classes not in scope are not instances",
                    "WrapInBlock is not applied to a class name (not a value expression) nor to the callee `e.m` of a call whose type arguments "
                    "are inferred from that call (spec.md 6.7.2: `e.m(args)` is one syntactic form)",
                    "RenameLocal renames a binder and the uses that resolve to it by the reference reading of the parsed tree (RewritesNames.tla: "
                    "Parent / ScopeOf extracted by the harness, every instance confirmed by TLC), whatever the checker under test says; only binders "
                    "whose name takes part in a name clash BY THAT READING (re-use of the name of an enclosing binder) are no instances; "
                    "programs with syntax errors are not rewritten",
                    "a feature-corpus program the tree under test rejects is a rejected program like any other: all its rewrite instances are applied and must keep the verdict",
                    "the hand-written ill-typed corpus (corpus/c13/rejected) is a population of rejected baselines: every instance of every kind, "
                    "enumerated on the typed tree the checker returns for them, must keep the verdict; one the tree under test accepts is an accepted program like any other",
                    "behaviour is compared on runs the language defines (Observations!ImplDefined excluded); rejected programs compare the verdict; "
                    "a changed number of diagnostics is reported as drift only"],
                   time.time() - t0, fails)
    return 1 if fails else 0


def replay(path, quiet=False):
    whole = json.load(open(path))
    if whole.get("kind") == "wrap-breaks-syntax":
        # the rewritten modules must parse: run the front end on them (any module of the program that changed)
        c = whole["case"]
        d = outdir(PID)
        recs = pc.run_programs(d, "replay-wrap", [{"origin": "after", "entry": sorted(c["after"])[0], "sources": c["after"]}], [0], jobs=1)
        rendered = recs[0].get("rendered", "")
        bad = "Expected:" in rendered or "Expecting:" in rendered or "Invalid token" in rendered or recs[0].get("front") == "crashed"
        if bad:
            report_violation(PID, path)
        return 1 if bad else 0
    case = whole["case"]
    d = outdir(PID)
    p = dict(case["program"], with_std=case.get("with_std", True))
    progs = [dict(p)]
    for i, c in enumerate(case["chain"]):
        progs.append({"origin": f"{p['origin']}#s{i + 1}", "entry": p["entry"], "sources": c["sources"], "with_std": p["with_std"]})
    recs = pc.run_programs(d, "replay", progs, BUILDS, jobs=1)
    rows = [summary_row({"pid": 0, "hist": 0, "step": 0, "kind": "Original", "site": "", "valid": True}, recs[0])]
    for i, c in enumerate(case["chain"]):
        rows.append(summary_row({"pid": 0, "hist": 0, "step": i + 1, "kind": c["kind"], "site": c["site"], "valid": True}, recs[i + 1]))
    tr = os.path.join(d, "trace-replay.ndjson")
    write_ndjson(tr, rows)
    v = tlc("RewritesTrace", "RewritesTrace.cfg", env={"TRACE": tr}, deque=True, tag="c13rp")
    if v.violated:
        if not quiet:
            l = (v.last_l() or 2) - 1
            a, b = rows[l - 2], rows[l - 1]
            log(f"[c13] {b['kind']} at {b['site']}: {a['front']} ({a['errorCount']} errors) -> {b['front']} ({b['errorCount']} errors)")
        return 1
    if not v.ok:
        log(v.out[-2000:])
        tool_failure(f"RewritesTrace.tla replay failed: {v.error}")
    return 0
