"""Rule-level half of C06 / C03 (and, for printed values, C01): spec/TypeRules.tla is a specification of samlang's
TYPE SYSTEM on a core expression fragment -- literals, variables, unary / binary operators, if, let (with and
without annotation), one-parameter lambdas, calls of function values, static functions incl. the generic
`id`, `pick`, `app`, `konst`, `Process.panic` with implicit and explicit type arguments, a struct class with
field access, tuples, an enum with `match` -- as a judgment `TypeOf(e)` = a type or `Error(kind)`, next to a
big-step dynamic semantics `Eval(e)` with a distinguished `Stuck` result.  TLC checks over EVERY term of six
term universes up to a size bound that a term with a type never gets stuck and evaluates to a value of that
type (type soundness), that results are ground types, that the inferred type given back as the expected type
and the checker's synthesis mode change nothing, and that annotating a `let` with the inferred type changes
nothing; a must-fail configuration (`if` not checking its condition) must produce a counterexample.

Bound to the code ([BR]): TLC prints every enumerated term with the specification's verdict; the terms (all of
them up to the replay bound of the tier, a seeded stratified sample of the larger universes) are rendered
inside a fixed program skeleton, type-checked, compiled (opt:0, opt:31), validated and run on both back ends
by `vh run-programs`; spec/TypeRulesTrace.tla recomputes TypeOf / Eval from the term and judges each record:
  hard static error accepted                      -> VIOLATION property=C06
  accepted, but a build crashes / the module is invalid / a run ends in an engine fault or unhandled match
                                                  -> VIOLATION property=C03
  accepted and well-typed, but another value is printed (or another panic raised) than Eval's
                                                  -> VIOLATION property=C01
  well-typed but rejected, a soft error (not enough context, name collision) accepted, a diagnostic of another
  class                                           -> MODEL-DRIFT (logged and counted, never a violation)

  run_typerules(tier, d, stats) -> (fails, coverage)         for checks/c06.py / checks/c03.py
  python3 checks/typerules.py quick|thorough                 standalone (set VERIF_SCRATCH during development)
  python3 checks/typerules.py replay FILE                    re-judges the term of a replay file
"""
import json, os, random, re, sys, time
from concurrent.futures import ThreadPoolExecutor

sys.path.insert(0, os.path.join(os.path.dirname(os.path.dirname(os.path.abspath(__file__))), "lib"))
from vlib import *
import progcommon as pc

BUILDS = [0, 31]
# (profile, size bound model-checked, size bound up to which EVERY term is replayed)
UNIVERSES = {
    "quick":    [("core", 5, 4), ("data", 4, 3), ("fun", 5, 4), ("gen", 4, 3), ("gend", 5, 4), ("mix", 3, 2), ("tiny", 4, 4), ("chain", 7, 7)],
    "thorough": [("core", 6, 5), ("data", 5, 4), ("fun", 6, 5), ("gen", 5, 4), ("gend", 6, 5), ("mix", 4, 3), ("tiny", 5, 5), ("chain", 10, 10)],
}
# ill-typed terms above the replay bound: a seeded sample, stratified by (universe, verdict, root construct);
# well-typed terms are all replayed, up to MAX_WELLTYPED per universe
SAMPLE_PER_STRATUM = {"quick": 12, "thorough": 400}
# well-typed terms cost a compilation and four runs each: cap per universe (seeded choice; all below the replay bound first)
MAX_WELLTYPED = {"quick": 600, "thorough": 20000}
MUST_FAIL = ("core", 4, "TypeRulesAsIs.cfg", "Sound")
COVERAGE_UNIVERSE = ("tiny", 4)
CHUNK = 20000
PARALLEL_TLC = 4
MAX_REPORTS = 6
VERDICTS = {"FrontDoesNotCrash": ("C06", "the front end does not crash on the program"),
            "RejectsStaticErrors": ("C06", "a term with a static error (spec/TypeRules.tla: TypeOf = Error(kind), kind in HardKinds) is "
                                           "rejected with at least one diagnostic located in module Main"),
            "NeverGoesWrong": ("C03", "an accepted program compiles under every build, the module validates and no run ends in an "
                                      "engine-level fault or an unhandled match"),
            "ComputesTheValue": ("C01", "a well-typed accepted term prints the value (raises the panic) the dynamic semantics of "
                                        "spec/TypeRules.tla assigns to it"),
            "SoundHere": ("C03", "type soundness of the rules on this term (model error if it fails here only)")}
CONSTRUCTS = ["int", "bool", "str", "var", "un", "bin", "if", "else-if", "let", "let-annotated", "lam", "lam-annotated", "call", "fref",
              "fref-explicit-targs", "field", "pair", "match"]
HARD = ["type-mismatch", "arity", "targ-arity", "unresolved-name", "unresolved-class", "unresolved-member", "non-exhaustive",
        "not-callable", "not-a-class", "not-an-enum", "pattern-arity"]
SOFT = ["underconstrained", "name-collision"]

SKELETON = """class P(val a: int, val b: bool) {}
class Opt(None, Some(int)) {}
class G {
  function <T> id(x: T): T = x
  function <T> pick(c: bool, a: T, b: T): T = if c { a } else { b }
  function <A, B> app(f: (A) -> B, a: A): B = f(a)
  function <A, B> konst(b: B): (A) -> B = (a) -> b
  function inc(n: int): int = n + 1
}
class Main {
  function main(): unit = {
    let v = %s;
    Process.println(%s)
  }
}
"""
_TUPLES = None


def tuples_source():
    global _TUPLES
    if _TUPLES is None:
        _TUPLES = open("/repo/std/tuples.sam").read()
    return _TUPLES


# ------------------------------------------------------------------------------------------------ rendering
def ty_text(t):
    k = t["k"]
    if k == "prim":
        return t["n"]
    if k == "nom":
        return t["c"] + ("<" + ", ".join(ty_text(a) for a in t["ta"]) + ">" if t["ta"] else "")
    if k == "fn":
        return "(" + ", ".join(ty_text(a) for a in t["as"]) + ") -> " + ty_text(t["r"])
    raise ValueError(f"type {t}")


def pat_text(p):
    if p["k"] == "wild":
        return "_"
    if p["k"] == "id":
        return p["n"]
    return p["n"] + ("(" + ", ".join(p["vs"]) + ")" if p["vs"] else "")


def ann_text(a):
    return "" if a["k"] == "nohint" else ": " + ty_text(a)


def fref_text(e):
    return f"{e['cls']}.{e['fn']}" + ("<" + ", ".join(ty_text(a) for a in e["ta"]) + ">" if e["ta"] else "")


def rend(e):
    """samlang text of a term; the result is always self-delimited (atomic or in parentheses / braces)"""
    k = e["k"]
    if k == "int":
        return str(e["i"])
    if k == "bool":
        return "true" if e["bv"] else "false"
    if k == "str":
        return '"' + e["s"] + '"'
    if k == "var":
        return e["n"]
    if k == "un":
        return f"({e['op']}{rend(e['e'])})"
    if k == "bin":
        return f"({rend(e['a'])} {e['op']} {rend(e['b'])})"
    if k == "if":
        if e.get("ei") and e["b"]["k"] == "if":          # else-if chain: the nested `if` without braces and parentheses
            return f"(if {rend(e['c'])} {{ {rend(e['a'])} }} else {rend(e['b'])[1:-1]})"
        return f"(if {rend(e['c'])} {{ {rend(e['a'])} }} else {{ {rend(e['b'])} }})"
    if k == "let":
        return f"{{ let {e['n']}{ann_text(e['ann'])} = {rend(e['e'])}; {rend(e['b'])} }}"
    if k == "lam":
        return f"(({e['n']}{ann_text(e['ann'])}) -> {rend(e['b'])})"
    if k == "fref":           # as a value: in parentheses (`G.id < 0` would read `<` as the start of type arguments)
        return "(" + fref_text(e) + ")"
    if k == "call":
        f = e["f"]
        callee = fref_text(f) if f["k"] == "fref" else rend(f) if f["k"] == "var" else "(" + rend(f) + ")"
        return callee + "(" + ", ".join(rend(a) for a in e["as"]) + ")"
    if k == "field":          # in parentheses: `p.a < 0` is a syntax error in samlang (`<` after `.name` starts type arguments)
        o = e["e"]
        obj = rend(o) if o["k"] in ("var",) else "(" + rend(o) + ")"
        return f"({obj}.{e['fld']})"
    if k == "pair":
        return f"({rend(e['a'])}, {rend(e['b'])})"
    if k == "match":
        arms = ", ".join(f"{pat_text(a['p'])} -> {rend(a['b'])}" for a in e["arms"])
        return f"(match {rend(e['e'])} {{ {arms} }})"
    raise ValueError(f"term {e}")


def show_code(t, x):
    """an expression of type Str that renders the value of `x` (type t) the way Show of TypeRules.tla does"""
    k = t["k"]
    if k == "prim":
        return f"Str.fromInt({x})" if t["n"] == "int" else f'(if {x} {{ "true" }} else {{ "false" }})'
    if k == "fn":
        return '"<fn>"'
    if t["c"] == "Str":
        return x
    if t["c"] == "Opt":
        return f'(match {x} {{ None -> "None", Some(q) -> (("Some(" :: Str.fromInt(q)) :: ")") }})'
    if t["c"] == "P":
        return f'(((("P(" :: {show_code({"k": "prim", "n": "int"}, x + ".a")}) :: ",") :: {show_code({"k": "prim", "n": "bool"}, x + ".b")}) :: ")")'
    if t["c"] == "Pair":
        return f'(((("(" :: {show_code(t["ta"][0], x + ".e0")}) :: ",") :: {show_code(t["ta"][1], x + ".e1")}) :: ")")'
    raise ValueError(f"type {t}")


def program_of(case):
    ty = case["ty"]
    show = '"?"' if ty["k"] == "error" else show_code(ty, "v")
    return SKELETON % (rend(case["term"]), show)


def features(e, acc):
    k = e["k"]
    acc.add(k)
    if k == "let" and e["ann"]["k"] != "nohint":
        acc.add("let-annotated")
    if k == "lam" and e["ann"]["k"] != "nohint":
        acc.add("lam-annotated")
    if k == "if" and e.get("ei"):
        acc.add("else-if")
    if k == "fref" and e["ta"]:
        acc.add("fref-explicit-targs")
    for key in ("e", "a", "b", "c", "f"):
        if isinstance(e.get(key), dict) and "k" in e[key]:
            features(e[key], acc)
    for a in e.get("as", []):
        features(a, acc)
    for a in e.get("arms", []):
        features(a["b"], acc)
    return acc


# ------------------------------------------------------------------------------------------------ pass 1: TLC
def model_check(tier, stats):
    """every universe: the theorems on every term + one CASE line per term; the must-fail configuration; coverage"""
    jobs = [("mc", u, n, "TypeRulesMC.cfg", True) for (u, n, _) in UNIVERSES[tier]]
    jobs.append(("mustfail", MUST_FAIL[0], MUST_FAIL[1], MUST_FAIL[2], False))
    jobs.append(("coverage", COVERAGE_UNIVERSE[0], COVERAGE_UNIVERSE[1], "TypeRulesMC.cfg", False))

    def one(job):
        kind, u, n, cfg, emit = job
        return job, tlc("TypeRules", cfg, env={"TR_PROFILE": u, "TR_SIZE": n, "TR_EMIT": "1" if emit else "0"}, workers=4,
                        timeout=2400, coverage=(kind == "coverage"), tag=f"typerules-{kind}-{u}{n}", xmx="10g")

    with ThreadPoolExecutor(max_workers=PARALLEL_TLC) as ex:
        results = list(ex.map(one, jobs))
    cases, per = [], {}
    for (kind, u, n, cfg, _), r in results:
        if kind == "mustfail":
            if r.violated != MUST_FAIL[3]:
                log(r.out[-2000:])
                tool_failure(f"vacuity: {cfg} (an `if` that does not check its condition) did not violate {MUST_FAIL[3]}: "
                             f"{r.violated or r.error or 'passed'}")
            stats["must_fail"] = {"cfg": cfg, "violated": r.violated, "universe": f"{u}<={n}"}
            continue
        tlc_must_pass(r, f"TypeRules.tla {kind} universe {u} size {n}")
        if kind == "coverage":
            stats["coverage_run"] = rule_coverage(r)
            continue
        cs = behaviours_from(r, "CASE")
        if len(cs) != r.distinct:
            tool_failure(f"universe {u}: {len(cs)} cases emitted for {r.distinct} states")
        for c in cs:
            c["u"] = u
        cases += cs
        per[u] = {"size_bound": n, "terms": r.distinct, "tlc_s": round(r.wall, 1),
                  "well_typed": sum(1 for c in cs if c["ty"]["k"] != "error")}
        stats["states"] += r.distinct
        stats["transitions"] += r.generated
    return cases, per


def rule_coverage(r):
    """vacuity: how often every arm of the rule tables Chk (typing) and Ev (evaluation) was taken in the coverage run"""
    spec = open(os.path.join(SPEC, "TypeRules.tla")).read().split("\n")
    counts = {}
    for m in re.finditer(r"line (\d+), col (\d+) to line (\d+), col (\d+) of module TypeRules: (\d+)", r.out):
        key = (int(m.group(1)), int(m.group(2)))
        counts[key] = max(counts.get(key, 0), int(m.group(5)))
    out = {}
    for name in ("Chk(G, e, h, syn) ==", "Ev(env, e) =="):
        lo = next(i for i, l in enumerate(spec) if l.startswith(name))
        i = lo + 1
        while i < len(spec) and (spec[i].startswith(" ") or spec[i] == ""):
            m = re.match(r"^  (CASE|  \[\]) (e\.k [^>]*?) ->", spec[i])
            if m:
                col = spec[i].index(m.group(2)) + 1
                out[f"{name.split('(')[0]}:{m.group(2).strip()}"] = counts.get((i + 1, col), 0)
            i += 1
    # guard k of a CASE is evaluated iff guards 1..k-1 were false: taken_k = g_k - g_(k+1)
    keys = list(out)
    taken = {}
    for i, k in enumerate(keys):
        nxt = keys[i + 1] if i + 1 < len(keys) and keys[i + 1].split(":")[0] == k.split(":")[0] else None
        taken[k] = out[k] - (out[nxt] if nxt else 0)
    out = taken
    never = [k for k, v in out.items() if v <= 0]
    if len(out) < 20 or never:
        tool_failure(f"vacuity: rule arms never evaluated in the coverage run: {never} (found {len(out)} arms)")
    return {"universe": f"{COVERAGE_UNIVERSE[0]}<={COVERAGE_UNIVERSE[1]}", "states": r.distinct, "arms_taken": out}


# ------------------------------------------------------------------------------------------------ selection
def verdict_of(c):
    return c["ty"]["kind"] if c["ty"]["k"] == "error" else "well-typed"


def select(tier, cases, stats):
    """all terms up to the replay bound of their universe + a seeded stratified sample of the larger ones"""
    rng = random.Random(SEED)
    bound = {u: rb for (u, _, rb) in UNIVERSES[tier]}
    seen, low, high = set(), [], {}
    for c in cases:
        key = json.dumps(c["term"], sort_keys=True)
        if key in seen:                      # a macro leaf also arises from its parts
            continue
        seen.add(key)
        c["key"] = key
        if c["size"] <= bound[c["u"]] or verdict_of(c) == "well-typed":     # every well-typed term (capped below)
            low.append(c)
        else:
            high.setdefault((c["u"], verdict_of(c), c["term"]["k"]), []).append(c)
    picked = list(low)
    for stratum in sorted(high):
        cs = high[stratum]
        cs.sort(key=lambda c: c["key"])
        picked += rng.sample(cs, min(len(cs), SAMPLE_PER_STRATUM[tier]))
    # cap the well-typed ones per universe (they are the expensive ones), keeping those below the bound first
    out, dropped = [], 0
    for u in bound:
        mine = [c for c in picked if c["u"] == u]
        wt = [c for c in mine if verdict_of(c) == "well-typed"]
        if len(wt) > MAX_WELLTYPED[tier]:
            wt.sort(key=lambda c: (c["size"], c["key"]))
            small = [c for c in wt if c["size"] <= max(2, bound[u] - 1)]
            rest = [c for c in wt if c["size"] > max(2, bound[u] - 1)]
            keep = small[:MAX_WELLTYPED[tier]]
            keep += rng.sample(rest, min(len(rest), max(0, MAX_WELLTYPED[tier] - len(keep))))
            dropped += len(wt) - len(keep)
            keepset = {c["key"] for c in keep}
            mine = [c for c in mine if verdict_of(c) != "well-typed" or c["key"] in keepset]
        out += mine
    stats["distinct_terms_enumerated"] = len(seen)
    stats["well_typed_not_replayed_for_cost"] = dropped
    return out


# ------------------------------------------------------------------------------------------------ pass 2: the real code
_KINDS = [(r"Cannot resolve name", ["unresolved-name"]), (r"Cannot resolve class", ["unresolved-class"]),
          (r"Cannot resolve member", ["unresolved-member"]), (r"Cannot access member of", ["pattern-arity"]),
          (r"does not bind all fields", ["pattern-arity"]), (r"not exhaustive", ["non-exhaustive"]),
          (r"not an instance of an enum", ["not-an-enum"]), (r"Function parameter arity", ["arity"]),
          (r"Type argument arity", ["targ-arity"]), (r"not enough context", ["underconstrained"]),
          (r"collides with", ["name-collision"]),
          (r"is incompatible with `nominal type`", ["not-callable", "not-a-class"])]


def kinds_of(errors):
    ks = set()
    for _, text in errors:
        hit = False
        for pat, names in _KINDS:
            if re.search(pat, text):
                ks.update(names)
                hit = True
        if re.search(r"is incompatible with `(?!nominal type`)", text) or (not hit and "is incompatible with" in text):
            ks.add("type-mismatch")
        elif not hit:
            ks.add("other:" + text[:40])
    return sorted(ks)


def observe(rec):
    """the uniform observation record TypeRulesTrace.tla judges"""
    runs = []
    for b, v in sorted(rec.get("builds", {}).items()):
        for be in ("wasm", "ts"):
            r = {"b": b, "be": be, "st": "ok", "endk": "none", "msg": "", "out": []}
            if v.get("status") != "ok":
                r["st"], r["msg"] = "crashed", f"{v.get('stage')}: {v.get('message', '')}"[:300]
            elif be == "wasm" and v.get("wasm_valid") is False:
                r["st"], r["msg"] = "invalid", str(v.get("wasm_invalid_reason", ""))[:300]
            elif be in v:
                end = v[be]["end"]
                r["endk"] = end["k"]
                r["msg"] = end.get("msg", end.get("trap", "")) or ""
                r["out"] = v[be]["out"]
            else:
                r["st"], r["msg"] = "tool", str(v.get(be + "_tool_error", "no run recorded"))[:300]
            runs.append(r)
    errors = rec.get("errors", [])
    return {"front": rec.get("front", "crashed"), "mainerr": any(m == "Main" for m, _ in errors),
            "kinds": kinds_of(errors), "runs": runs}


def replay_terms(d, name, picked):
    progs = []
    for c in picked:
        srcs = {"Main": program_of(c)}
        if "pair" in features(c["term"], set()):         # (a, b) is std.tuples' Pair
            srcs["std.tuples"] = tuples_source()
        progs.append({"origin": f"typerules:{c['u']}", "entry": "Main", "with_std": False, "sources": srcs})
    recs = pc.run_programs(d, name, progs, BUILDS, jobs=8)
    if len(recs) != len(picked):
        tool_failure(f"run-programs returned {len(recs)} records for {len(picked)} programs")
    rows = []
    for c, rec in zip(picked, recs):
        o = observe(rec)
        if any(r["st"] == "tool" for r in o["runs"]):
            tool_failure(f"a back end could not be run: {[r for r in o['runs'] if r['st'] == 'tool'][:1]} on {rend(c['term'])}")
        rows.append({"case": c, "obs": o, "diagnostics": [t for _, t in rec.get("errors", [])][:4],
                     "crash": rec.get("crash"), "program": progs[rec["id"]]["sources"]["Main"]})
    return rows


def pid_of(inv, row):
    pid = VERDICTS[inv][0]
    if inv == "FrontDoesNotCrash" and row["case"]["ty"]["k"] != "error":
        pid = "C03"
    return pid


def judge_chunk(d, rows, tag, only=None):
    """TLC pass 2 on one chunk.  Returns (violations [(invariant, row)], drift [(class, row)], records judged).
    Each violation costs one TLC run: at most MAX_REPORTS of the caller's properties, 4 * MAX_REPORTS in all."""
    viols, drift, judged = [], [], 0
    rows = list(rows)
    while rows:
        tr = os.path.join(d, f"typerules-trace-{tag}.ndjson")
        write_ndjson(tr, [{"term": r["case"]["term"], "obs": r["obs"]} for r in rows])
        v = tlc("TypeRulesTrace", "TypeRulesTrace.cfg", env={"TRACE": tr}, workers=4, timeout=2400, tag=f"typerules-tr-{tag}", xmx="8g")
        if v.violated in VERDICTS:
            l = v.last_l()
            if not l or l > len(rows):
                tool_failure(f"TypeRulesTrace: cannot locate the violating record ({v.violated})")
            viols.append((v.violated, rows[l - 1]))
            judged += v.distinct
            mine = [x for x in viols if only is None or pid_of(*x) in only]
            if len(mine) >= MAX_REPORTS or len(viols) >= 4 * MAX_REPORTS:
                break
            rows = rows[:l - 1] + rows[l:]          # judge the remaining records as well
            continue
        if not v.ok or v.violated:
            log(v.out[-3000:])
            tool_failure(f"TypeRulesTrace run failed on {tr}: {v.violated or v.error}")
        if v.distinct != len(rows):
            tool_failure(f"TypeRulesTrace judged {v.distinct} of {len(rows)} records")
        judged += v.distinct
        for tagp, rest in v.printed:
            if tagp == "DRIFT":
                m = re.match(r'(\d+), "([\w-]+)"', rest)
                drift.append((m.group(2), rows[int(m.group(1)) - 1]))
        break
    return viols, drift, judged


def python_expectation_disagrees(r):
    """cross-check only (never a verdict): the verdict printed by pass 1 against the observation"""
    c, o = r["case"], r["obs"]
    if c["ty"]["k"] == "error":
        return c["ty"]["kind"] in HARD and o["front"] != "rejected"
    if o["front"] != "accepted":
        return False
    if any(x["st"] != "ok" for x in o["runs"]):
        return True
    if c["out"]["end"] == "value":
        return any(x["endk"] != "return" or x["out"] != [c["out"]["text"]] for x in o["runs"])
    if c["out"]["end"] == "panic":
        return any(x["endk"] != "panic" or x["msg"] != c["out"]["text"] for x in o["runs"])
    return False


def report(viols, only=None):
    fails = {}
    # the most specific first; at most MAX_REPORTS reports in all
    for inv, r in viols:
        if only is not None and pid_of(inv, r) not in only:
            log(f"(a violation of {pid_of(inv, r)} on `{rend(r['case']['term'])}` is left to ./check {pid_of(inv, r)})")
    viols = [v for v in viols if only is None or pid_of(*v) in only]
    viols = sorted(viols, key=lambda v: (list(VERDICTS).index(v[0]), v[1]["case"]["size"], v[1]["case"]["key"]))[:MAX_REPORTS]
    for inv, r in viols:
        c, o = r["case"], r["obs"]
        pid, expected = pid_of(inv, r), VERDICTS[inv][1]
        case = {"term": c["term"], "term_text": rend(c["term"]), "universe": c["u"], "program": r["program"],
                "spec_verdict": c["ty"], "spec_outcome": c["out"], "builds": [f"opt:{b}" for b in BUILDS]}
        known = [k for k in known_findings(pid) if isinstance(k.get("witness"), dict) and k["witness"].get("term_text") == case["term_text"]]
        if known:
            report_known(pid, known[0]["what"])
            continue
        observed = {"violated": f"{inv} of spec/TypeRulesTrace.tla", "front": o["front"], "diagnostics": r["diagnostics"],
                    "front_crash": r["crash"], "runs": [x for x in o["runs"]][:4]}
        path = save_replay(pid, "typerules-term", case, expected, observed,
                           how=f"python3 checks/typerules.py replay <this file>  (module Main = case.program, builds opt:0 and opt:31)")
        log(f"violation ({inv}): `{case['term_text']}`: specification says {verdict_of(c)}"
            f"{'' if c['ty']['k'] == 'error' else ' / ' + json.dumps(c['out'])}; observed front={o['front']} "
            f"{r['diagnostics'][:1]} {[(x['b'], x['be'], x['st'], x['endk'], x['msg'][:60], x['out'][:2]) for x in o['runs'][:2]]}")
        report_violation(pid, path)
        fails[pid] = fails.get(pid, 0) + 1
    return fails


def run_typerules(tier, d, stats, only=None):
    """returns (number of violations, coverage dict); `only`: the property ids this caller reports (None = all)"""
    t0 = time.time()
    build_harness()
    stats.update({"states": 0, "transitions": 0})
    cases, per = model_check(tier, stats)
    t_mc = time.time() - t0
    picked = select(tier, cases, stats)
    # vacuity: every construct and every error kind occurs among the replayed terms
    feats, kinds = set(), {}
    for c in picked:
        features(c["term"], feats)
        kinds[verdict_of(c)] = kinds.get(verdict_of(c), 0) + 1
    missing = [x for x in CONSTRUCTS if x not in feats] + [k for k in HARD + SOFT + ["well-typed"] if not kinds.get(k)]
    if missing:
        tool_failure(f"vacuity: not among the replayed terms: {missing}")
    t1 = time.time()
    rows = replay_terms(d, "typerules", picked)
    t_run = time.time() - t1
    t2 = time.time()
    chunks = [(i // CHUNK, rows[i:i + CHUNK]) for i in range(0, len(rows), CHUNK)]
    with ThreadPoolExecutor(max_workers=PARALLEL_TLC) as ex:
        results = list(ex.map(lambda c: judge_chunk(d, c[1], str(c[0]), only), chunks))
    viols = [v for r in results for v in r[0]]
    drift = [x for r in results for x in r[1]]
    judged = sum(r[2] for r in results)
    t_judge = time.time() - t2
    pyd = [r for r in rows if python_expectation_disagrees(r)]
    if bool(pyd) != bool([v for v in viols if v[0] != "SoundHere"]):
        tool_failure(f"pass-1 expectations and pass-2 verdict are inconsistent ({len(pyd)} mismatches vs {len(viols)} violations); "
                     f"first: {[(rend(r['case']['term']), r['case']['ty'], r['obs']['front']) for r in pyd[:1]]}")
    fails = report(viols, only)
    drift_classes = {}
    for cls, r in drift:
        key = cls if cls != "over-rejection" else cls
        e = drift_classes.setdefault(key, {"count": 0, "examples": []})
        e["count"] += 1
        if len(e["examples"]) < 4:
            e["examples"].append({"term": rend(r["case"]["term"]), "spec": verdict_of(r["case"]), "front": r["obs"]["front"],
                                  "diagnostics": r["diagnostics"][:2]})
    for cls, e in sorted(drift_classes.items()):
        for x in e["examples"][:3]:
            log(f"MODEL-DRIFT: {cls}: `{x['term']}`: specification says {x['spec']}, front end {x['front']} {x['diagnostics']}")
    accepted = [r for r in rows if r["obs"]["front"] == "accepted"]
    samples = []
    for want in ("well-typed", "type-mismatch", "underconstrained", "non-exhaustive"):
        r = next((r for r in rows if verdict_of(r["case"]) == want and r["case"]["size"] >= 3), None)
        if r:
            samples.append({"term": rend(r["case"]["term"]), "spec": verdict_of(r["case"]), "spec_outcome": r["case"]["out"],
                            "front": r["obs"]["front"], "diagnostics": r["diagnostics"][:1],
                            "printed": [x["out"] for x in r["obs"]["runs"][:1]]})
    cov = {"typerules_states": stats["states"], "typerules_transitions": stats["transitions"],
           "typerules_terms_model_checked": stats["states"], "typerules_universes": per,
           "typerules_theorems": ["Sound", "GroundResult", "ErrorKindKnown", "Deterministic", "AnnotateLetStable"],
           "typerules_must_fail": stats.get("must_fail"), "typerules_rule_coverage": stats.get("coverage_run"),
           "typerules_terms_replayed": len(rows), "typerules_records_judged_by_tlc": judged,
           "typerules_replayed_by_spec_verdict": kinds, "typerules_constructs_replayed": sorted(feats),
           "typerules_accepted_programs_compiled_and_run": len(accepted),
           "typerules_runs_judged": sum(len(r["obs"]["runs"]) for r in accepted),
           "typerules_well_typed_not_replayed_for_cost": stats.get("well_typed_not_replayed_for_cost", 0),
           "typerules_model_drift": {k: v["count"] for k, v in drift_classes.items()},
           "typerules_model_drift_examples": {k: v["examples"] for k, v in drift_classes.items()},
           "typerules_violations_by_property": fails, "typerules_samples": samples,
           "typerules_wall_s": {"model_checking": round(t_mc, 1), "compile_and_run": round(t_run, 1), "judging": round(t_judge, 1),
                                "total": round(time.time() - t0, 1)}}
    return sum(fails.values()), cov


def replay(path):
    """re-judges the term of a replay file against the current tree"""
    build_harness()
    case = json.load(open(path))["case"]
    d = outdir("typerules")
    c = {"term": case["term"], "ty": case["spec_verdict"], "out": case["spec_outcome"], "u": case.get("universe", "?"), "size": 0}
    rows = replay_terms(d, "typerules-replay", [c])
    viols, drift, _ = judge_chunk(d, rows, "replay")
    for inv, r in viols:
        log(f"violation ({inv}): `{rend(c['term'])}` front={r['obs']['front']} {r['diagnostics'][:1]} {r['obs']['runs'][:2]}")
        report_violation(VERDICTS[inv][0], path)
    return 1 if viols else 0


if __name__ == "__main__":
    arg = sys.argv[1] if len(sys.argv) > 1 else "quick"
    if arg == "replay":
        sys.exit(replay(sys.argv[2]))
    t = time.time()
    st = {}
    fails, cov = run_typerules(arg, outdir("typerules"), st)
    with open(os.path.join(outdir("typerules"), f"evidence-{arg}.json"), "w") as f:
        json.dump({"tier": arg, "seed": SEED, "level": "model_checking", "violations": fails, "coverage": cov}, f, indent=1, ensure_ascii=False)
    brief = {k: v for k, v in cov.items() if k not in ("typerules_rule_coverage", "typerules_model_drift_examples", "typerules_samples")}
    print(json.dumps(brief, indent=1)[:5000])
    log(f"[typerules] {arg}: {fails} violation(s), {time.time() - t:.1f}s")
    sys.exit(1 if fails else 0)
