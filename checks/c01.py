"""C01 — compiled WebAssembly behaves exactly as the source program's semantics prescribe.
Decided by spec/Semantics.tla (the language's evaluation rules as an executable big-step evaluator over
the typed source AST) and spec/SemTrace.tla (the acceptor: TLC evaluates Run(program) and accepts the
recorded WebAssembly runs of the unoptimised and the fully optimised build iff they print exactly the
specified lines and end in the specified way, or the specified run is implementation-defined).
Programs: the hand-written feature corpus corpus/c01/*.sam, generated programs (vh gen-programs) and
the repository's test programs (one wrapper per test class, evaluated under a node budget)."""
import glob, json, os, subprocess, sys, time
from concurrent.futures import ThreadPoolExecutor
from vlib import *
import progcommon as pc

PID = "C01"
CORPUS = os.path.join(VERIF, "corpus", "c01")
BUILDS = [0, 31]


def known():
    """open known findings of C01 (VERIF_KF overrides the file, for testing proposals)"""
    p = os.environ.get("VERIF_KF")
    if p:
        return [k for k in json.load(open(p)) if k.get("property") == PID and k.get("status") == "open"]
    return known_findings(PID)


def program_from_path(p):
    """FILE.sam is module Main; a directory holds one module per file (a/b/C.sam is module a.b.C), entry Main"""
    name = os.path.basename(p.rstrip("/"))
    if os.path.isdir(p):
        srcs = {}
        for root, _, files in os.walk(p):
            for f in sorted(files):
                if f.endswith(".sam"):
                    rel = os.path.relpath(os.path.join(root, f), p)[:-4]
                    srcs[rel.replace(os.sep, ".")] = open(os.path.join(root, f)).read()
        return {"origin": f"corpus:{name}", "entry": "Main", "sources": srcs}
    return {"origin": f"corpus:{name[:-4]}", "entry": "Main", "sources": {"Main": open(p).read()}}


def corpus_programs():
    return [program_from_path(p) for p in sorted(glob.glob(os.path.join(CORPUS, "*")))
            if p.endswith(".sam") or os.path.isdir(p)]


def have_generator():
    out, rc = vh(["gen-programs", "--seed", 1, "--n", 1, "--out", os.path.join(outdir(PID), "gen-probe.ndjson"),
                  "--profile", "mixed"], check=False)
    return rc == 0


def generated(d, n, profiles):
    progs = []
    share = max(1, n // len(profiles))
    for prof in profiles:
        try:
            progs += pc.generated_programs(d, share, SEED, prof)
        except SystemExit:
            raise
    return progs


def ast_dump(d, name, programs, jobs=8):
    """vh ast-dump in parallel chunks; returns (rows without sources, lib)"""
    chunks = [programs[i::jobs] for i in range(jobs)]
    chunks = [c for c in chunks if c]

    def work(ci):
        inp = os.path.join(d, f"{name}-astin-{ci}.ndjson")
        outp = os.path.join(d, f"{name}-ast-{ci}.ndjson")
        libp = os.path.join(d, f"{name}-lib-{ci}.json")
        if os.path.exists(libp):
            os.remove(libp)
        write_ndjson(inp, chunks[ci])
        vh(["ast-dump", "--in", inp, "--out", outp, "--lib", libp], timeout=3000)
        return read_ndjson(outp), json.load(open(libp))

    with ThreadPoolExecutor(max_workers=jobs) as ex:
        parts = list(ex.map(work, range(len(chunks))))
    rows, lib = [], {}
    for r, l in parts:
        rows += r
        lib.update(l)
    rows.sort(key=lambda r: r["id"])
    return rows, lib


def observe(d, name, programs, builds=BUILDS, jobs=8):
    """compile + run (both back ends) and dump the typed AST of every program; returns trace rows and lib"""
    recs = pc.run_programs(d, name, programs, builds, jobs=jobs)     # assigns ids
    asts, lib = ast_dump(d, name, programs, jobs=jobs)
    by_id = {r["id"]: r for r in recs}
    rows = []
    for a in asts:
        r = by_id[a["id"]]
        if a.get("front") != r.get("front"):
            tool_failure(f"ast-dump and run-programs disagree on acceptance of {a.get('origin')}: {a.get('front')} vs {r.get('front')}")
        row = {"id": a["id"], "origin": a["origin"], "entry": a["entry"], "front": a["front"],
               "mods": a.get("mods", {}), "builds": {}}
        for b, v in r.get("builds", {}).items():
            nb = {"status": v.get("status", "?")}
            for k in ("wasm", "ts"):
                if k in v:
                    nb[k] = {"out": v[k]["out"], "end": v[k]["end"]}
            row["builds"][b] = nb
        rows.append(row)
    return rows, lib, recs


def judge(d, name, rows, lib, budget, workers=8, timeout=2400, coverage=False):
    """TLC on SemTrace.tla; returns ({id: verdict record}, TlcResult)"""
    tr = os.path.join(d, f"{name}-trace.ndjson")
    lp = os.path.join(d, f"{name}-lib.json")
    write_ndjson(tr, rows)
    with open(lp, "w") as f:
        json.dump(lib, f)
    kn = ",".join(sorted(k.get("region", "") for k in known() if k.get("region")))
    res = tlc("SemTrace", "SemTrace.cfg", env={"TRACE": tr, "LIB": lp, "BUDGET": budget, "KNOWN": kn},
              workers=workers, timeout=timeout, tag=f"c01-{name}", extra=["-continue"], coverage=coverage, xmx="12g")
    verdicts = {}
    for v in behaviours_from(res, "RESULT"):
        verdicts[v["id"]] = v
    return verdicts, res


def main_dev():
    """python3 checks/c01.py FILE.sam... : evaluate single programs, print spec vs observed (development aid)"""
    d = outdir(PID)
    progs = []
    for p in sys.argv[1:]:
        progs.append(program_from_path(p))
    rows, lib, recs = observe(d, "dev", progs)
    verdicts, res = judge(d, "dev", rows, lib, int(os.environ.get("BUDGET", "300000")))
    for r in rows:
        print(r["origin"], r["front"], verdicts.get(r["id"]))
        if r["front"] != "accepted":
            print("\n".join((recs[r["id"]].get("rendered") or "").split("\n")[:int(os.environ.get("ERRLINES", "14"))]))
    print(f"tlc wall {res.wall:.1f}s, nodes {sum(v['n'] for v in verdicts.values())}")
    if not verdicts or os.environ.get("SHOW"):
        print(res.out[-3000:])


if __name__ == "__main__":
    sys.path.insert(0, os.path.join(VERIF, "lib"))
    main_dev()
