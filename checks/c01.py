"""C01 — compiled WebAssembly behaves exactly as the source program's semantics prescribe.
Decided by spec/Semantics.tla (the language's evaluation rules as an executable big-step evaluator over
the typed source AST) and spec/SemTrace.tla (the acceptor: TLC evaluates Run(program) and accepts the
recorded WebAssembly runs of the unoptimised and the fully optimised build iff they print exactly the
specified lines and end in the specified way, or the specified run is implementation-defined).
Programs: the hand-written feature corpus corpus/c01/*.sam, generated programs (vh gen-programs) and
the repository's test programs (one wrapper per test class, evaluated under a node budget)."""
import glob, json, os, subprocess, sys, time
from concurrent.futures import ThreadPoolExecutor
from vlib import *
import progcommon as pc
import enumlayout

PID = "C01"
CORPUS = os.path.join(VERIF, "corpus", "c01")
BUILDS = [0, 31]


def known():
    """open known findings of C01 (VERIF_KF overrides the file, for testing proposals)"""
    p = os.environ.get("VERIF_KF")
    if p:
        return [k for k in json.load(open(p)) if k.get("property") == PID and k.get("status") == "open"]
    return known_findings(PID)


def program_from_path(p):
    """FILE.sam is module Main; a directory holds one module per file (a/b/C.sam is module a.b.C), entry Main"""
    name = os.path.basename(p.rstrip("/"))
    if os.path.isdir(p):
        srcs = {}
        for root, _, files in os.walk(p):
            for f in sorted(files):
                if f.endswith(".sam"):
                    rel = os.path.relpath(os.path.join(root, f), p)[:-4]
                    srcs[rel.replace(os.sep, ".")] = open(os.path.join(root, f)).read()
        return {"origin": f"corpus:{name}", "entry": "Main", "sources": srcs}
    return {"origin": f"corpus:{name[:-4]}", "entry": "Main", "sources": {"Main": open(p).read()}}


def corpus_programs():
    return [program_from_path(p) for p in sorted(glob.glob(os.path.join(CORPUS, "*")))
            if p.endswith(".sam") or os.path.isdir(p)]


def have_generator():
    out, rc = vh(["gen-programs", "--seed", 1, "--n", 1, "--out", os.path.join(outdir(PID), "gen-probe.ndjson"),
                  "--profile", "mixed"], check=False)
    return rc == 0


def generated(d, n, profiles):
    progs = []
    share = max(1, n // len(profiles))
    for prof in profiles:
        try:
            progs += pc.generated_programs(d, share, SEED, prof)
        except SystemExit:
            raise
    return progs


def ast_dump(d, name, programs, jobs=8):
    """vh ast-dump in parallel chunks; returns (rows without sources, lib)"""
    chunks = [programs[i::jobs] for i in range(jobs)]
    chunks = [c for c in chunks if c]

    def work(ci):
        inp = os.path.join(d, f"{name}-astin-{ci}.ndjson")
        outp = os.path.join(d, f"{name}-ast-{ci}.ndjson")
        libp = os.path.join(d, f"{name}-lib-{ci}.json")
        if os.path.exists(libp):
            os.remove(libp)
        write_ndjson(inp, chunks[ci])
        vh(["ast-dump", "--in", inp, "--out", outp, "--lib", libp], timeout=3000)
        return read_ndjson(outp), json.load(open(libp))

    with ThreadPoolExecutor(max_workers=jobs) as ex:
        parts = list(ex.map(work, range(len(chunks))))
    rows, lib = [], {}
    for r, l in parts:
        rows += r
        lib.update(l)
    rows.sort(key=lambda r: r["id"])
    return rows, lib


def observe(d, name, programs, builds=BUILDS, jobs=8):
    """compile + run (both back ends) and dump the typed AST of every program; returns trace rows and lib"""
    recs = pc.run_programs(d, name, programs, builds, jobs=jobs)     # assigns ids
    asts, lib = ast_dump(d, name, programs, jobs=jobs)
    by_id = {r["id"]: r for r in recs}
    rows = []
    for a in asts:
        r = by_id[a["id"]]
        if a.get("front") != r.get("front"):
            tool_failure(f"ast-dump and run-programs disagree on acceptance of {a.get('origin')}: {a.get('front')} vs {r.get('front')}")
        row = {"id": a["id"], "origin": a["origin"], "entry": a["entry"], "front": a["front"],
               "mods": a.get("mods", {}), "regions": a.get("regions", []), "builds": {}}
        for b, v in r.get("builds", {}).items():
            nb = {"status": v.get("status", "?")}
            for k in ("wasm", "ts"):
                if k in v:
                    nb[k] = {"out": v[k]["out"], "end": v[k]["end"]}
            row["builds"][b] = nb
        rows.append(row)
    return rows, lib, recs


def judge(d, name, rows, lib, budget, workers=8, timeout=2400, profile=False):
    """TLC on SemTrace.tla; returns ({id: verdict record}, TlcResult)"""
    tr = os.path.join(d, f"{name}-trace.ndjson")
    lp = os.path.join(d, f"{name}-lib.json")
    write_ndjson(tr, rows)
    with open(lp, "w") as f:
        json.dump(lib, f)
    kn = "," + ",".join(sorted(k.get("region", "") for k in known() if k.get("region"))) + ","
    res = tlc("SemTrace", "SemTrace.cfg", env={"TRACE": tr, "LIB": lp, "BUDGET": budget, "KNOWN": kn, "PROFILE": "1" if profile else "0"},
              workers=workers, timeout=timeout, tag=f"c01-{name}", extra=["-continue"], xmx="12g")
    verdicts = {}
    try:
        for v in behaviours_from(res, "RESULT"):
            verdicts[v["id"]] = v
    except (ValueError, KeyError) as e:
        log(res.out[-2000:])
        tool_failure(f"cannot read the verdicts printed by SemTrace.tla: {e}")
    return verdicts, res


REQUIRED_RULES = {
    # expression forms
    "I", "B", "S", "Unit", "V", "T", "F", "M", "U", "Call", "Bin", "If", "IfLet", "Match", "Lam", "Blk",
    # calls, references, dispatch
    "call:builtin", "call:closure", "call:method", "call:new", "call:static", "call:variant",
    "ref:method", "ref:new", "ref:static", "ref:variant", "dispatch:o", "dispatch:e",
    # operators
    "op:!", "op:-", "op:AND", "op:OR", "op:CONCAT", "op:PLUS", "op:MINUS", "op:MUL", "op:DIV", "op:MOD",
    "op:LT", "op:LE", "op:GT", "op:GE", "op:EQ", "op:NE",
    # patterns
    "PI", "PW", "PT", "PO", "PV", "POr",
    # builtins
    "Process.println", "Process.panic", "Str.fromInt", "Str.toInt", "Vec.empty", "Vec.of", "Vec.withCapacity",
    "Vec.length", "Vec.push", "Vec.pop", "Vec.get", "Vec.set", "Vec.reserve", "Vec.capacity", "Vec.eq",
    # endings
    "end:ok", "end:panic", "end:vecbounds", "end:impl",
}


class Tally:
    def __init__(self):
        self.programs = 0          # offered
        self.accepted = 0
        self.judged = 0            # verdict ok / violation / known: runs compared with the specified run
        self.ok = 0
        self.runs_compared = 0
        self.nodes = 0
        self.excluded = {}
        self.tool = {}
        self.known = {}
        self.violations = []       # (row, verdict, rec)
        self.ts_differs = 0
        self.by_source = {}
        self.samples = []
        self.tlc_wall = 0.0
        self.tlc_states = 0
        self.rules = set()

    def add(self, source, rows, recs, verdicts, res):
        self.tlc_wall += res.wall
        self.tlc_states += res.distinct
        src = self.by_source.setdefault(source, {"programs": 0, "ok": 0, "excluded": 0, "tool": 0, "violation": 0, "known": 0, "skipped": 0, "nodes": 0})
        by_id = {r["id"]: r for r in recs}
        for row in rows:
            v = verdicts[row["id"]]
            self.programs += 1
            src["programs"] += 1
            src["nodes"] += v["n"]
            self.nodes += v["n"]
            self.rules |= set(v.get("seen", []))
            kind = v["verdict"]
            src[kind] = src.get(kind, 0) + 1
            if kind != "skipped":
                self.accepted += 1
            nruns = sum(1 for b in row["builds"].values() if "wasm" in b)
            if kind == "ok":
                self.ok += 1
                self.judged += 1
                self.runs_compared += nruns
                if v["why"] == "ts-differs":
                    self.ts_differs += 1
                if len(self.samples) < 6 and src["ok"] == 1:      # the first accepted run of every source
                    w = next((b["wasm"] for b in row["builds"].values() if "wasm" in b), None)
                    self.samples.append({"origin": row["origin"], "nodes": v["n"], "lines": len(w["out"]) if w else 0,
                                         "first_lines": (w["out"][:3] if w else []), "end": w["end"] if w else None})
            elif kind == "excluded":
                self.excluded[v["why"]] = self.excluded.get(v["why"], 0) + 1
            elif kind == "tool":
                self.tool[v["why"].split(":")[0]] = self.tool.get(v["why"].split(":")[0], 0) + 1
                if not v["why"].startswith("no-artefact"):
                    log(f"[c01] evaluator could not decide {row['origin']}: {v['why']}")
            elif kind == "known":
                self.judged += 1
                self.runs_compared += nruns
                self.known.setdefault(v["why"], []).append(row["origin"])
            elif kind == "violation":
                self.judged += 1
                self.runs_compared += nruns
                self.violations.append((row, v, by_id[row["id"]]))


def check_group(tally, d, source, name, programs, budget, builds=BUILDS, profile=False, workers=8):
    if not programs:
        return
    t = time.time()
    rows, lib, recs = observe(d, name, programs, builds)
    t1 = time.time()
    verdicts, res = judge(d, name, rows, lib, budget, workers=workers, profile=profile)
    if len(verdicts) != len(rows):
        log(res.out[-4000:])
        tool_failure(f"SemTrace.tla judged {len(verdicts)} of {len(rows)} programs of group {name}: {res.error or res.violated}")
    # localisation of a deviation to the loop optimisations: observe the deviating programs again with the
    # build that has every optimisation but those (opt:27) and let the acceptor judge them with that run
    again = [r["id"] for r in rows if verdicts[r["id"]]["verdict"] == "violation" and verdicts[r["id"]]["why"] == "run differs"]
    if again and 27 not in builds and len(again) <= 40:
        sub = [dict(p) for p in programs if p["id"] in again]
        rows2, lib2, recs2 = observe(d, name + "-loc", sub, sorted(set(builds) | {27}))
        verdicts2, res2 = judge(d, name + "-loc", rows2, lib2, budget, workers=workers, profile=profile)
        if len(verdicts2) == len(rows2):
            for old_id, r2, rec2 in zip(again, rows2, recs2):
                v2 = dict(verdicts2[r2["id"]])
                v2["id"] = old_id
                verdicts[old_id] = v2
                for i, r in enumerate(rows):
                    if r["id"] == old_id:
                        rows[i] = dict(r2, id=old_id)
                        recs[i] = dict(rec2, id=old_id)
    tally.add(source, rows, recs, verdicts, res)
    log(f"[c01] {name}: {len(rows)} programs, observe {t1 - t:.0f}s, TLC {res.wall:.0f}s, "
        f"{sum(v['n'] for v in verdicts.values())} nodes")


def report(tally):
    """prints VIOLATION / KNOWN-FINDING lines; returns number of violations"""
    kf = {k.get("region"): k for k in known()}
    for region, origins in tally.known.items():
        k = kf.get(region, {})
        report_known(PID, f"{k.get('what', region)} ({len(origins)} program(s), e.g. {origins[0]})")
    n = 0
    for row, v, rec in tally.violations[:8]:
        det = v.get("detail", {})
        bad = det.get("build")
        obs = rec.get("builds", {}).get(bad, {}).get("wasm")
        case = {"source": row["origin"], "program": {k: rec[k] for k in ("origin", "entry", "sources") if k in rec},
                "with_std": rec.get("with_std", True)}
        path = save_replay(PID, "program", case,
                           {"decided_by": "SemTrace.tla invariant C01 (Semantics!Run)", "why": v["why"], "first_differing_line": det.get("line"),
                            "specified_lines": det.get("specLines"), "specified_end": det.get("specEnd"),
                            "typescript_back_end_agrees_with_specification": det.get("ts")},
                           {"build": bad, "wasm": obs})
        report_violation(PID, path)
        n += 1
    return len(tally.violations)


def witness_known(tally, d):
    """the witnesses of open known findings must still fail as recorded (else the entry is stale)"""
    progs = []
    for k in known():
        w = k.get("witness")
        if w and os.path.exists(os.path.join(VERIF, w)):
            p = program_from_path(os.path.join(VERIF, w))
            p["origin"] = f"witness:{k.get('region')}"
            progs.append(p)
    if progs:
        check_group(tally, d, "known-finding witnesses", "witness", progs, 300000)


def run(tier):
    try:
        return run_checked(tier)
    except SystemExit:
        raise
    except Exception:
        import traceback
        log(traceback.format_exc())
        tool_failure("c01.py failed")


def run_checked(tier):
    t0 = time.time()
    d = outdir(PID)
    build_harness()
    tally = Tally()
    quick = tier == "quick"
    # 1. the hand-written feature corpus (every rule of the evaluator must be exercised here)
    corpus = corpus_programs()
    if len(corpus) < 20:
        tool_failure(f"feature corpus missing ({len(corpus)} programs in {CORPUS})")
    check_group(tally, d, "corpus", "corpus", corpus, 3_000_000, profile=True)
    missing = sorted(REQUIRED_RULES - tally.rules)
    rules = sorted(tally.rules)
    witness_known(tally, d)
    # 2. the repository's test programs (one wrapper per test class; AllTests itself in the thorough tier)
    repo = pc.repo_programs()
    check_group(tally, d, "repo", "repo", repo[1:] if quick else repo, 2_000_000 if quick else 30_000_000)
    # 3. generated programs
    gen_note = None
    n_gen = 150 if quick else 10000
    profiles = ["mixed", "loops", "enums", "closures", "strings"]
    if have_generator():
        per = n_gen // len(profiles)
        for prof in profiles:
            # callee-order (callee / receiver with effects next to effectful arguments) is allowed: fixed in 088cd38
            progs = pc.generated_programs(d, per, SEED, prof, allow=["callee-order"])
            for i in range(0, len(progs), 400):
                check_group(tally, d, f"gen:{prof}", f"gen-{prof}-{i}", progs[i:i + 400], 2_000_000)
    else:
        gen_note = "vh gen-programs is not available: no generated programs in this run"
        log("[c01] " + gen_note)
    fails = report(tally)
    # 4. the rule-level half: spec/EnumLayout.tla (layout choice vs. representation semantics) replayed on the compiler
    lay_stats = {}
    lay_fails, lay_cov = enumlayout.run_layout(PID, tier, d, lay_stats)
    fails += lay_fails
    # 5. the same for the self-tail-recursion rewrite and the execution of loops: spec/TailRec.tla transcribes the rewrite
    #    next to the recursive semantics (TLC: every small body), every body is compiled and its printed lines are judged
    import tailrec
    tr_fails, tr_cov = tailrec.run_tailrec(PID, tier, outdir("tailrec"), lay_stats)
    fails += tr_fails
    lay_cov.update(tr_cov)
    repo_src = tally.by_source.get("repo", {})
    evaluator_undecided = sum(v for k, v in tally.tool.items() if k != "no-artefact")
    coverage = {
        "programs": tally.judged, "disagreements_checked": tally.runs_compared, "samples": tally.samples,
        "programs_offered": tally.programs, "accepted": tally.accepted,
        "evaluated_nodes": tally.nodes, "excluded_by_reason": tally.excluded,
        "unsupported_or_stuck": evaluator_undecided, "no_artefact_compiler_crashed": tally.tool.get("no-artefact", 0),
        "known_finding_programs": {k: len(v) for k, v in tally.known.items()},
        "typescript_run_differs_from_specification": tally.ts_differs,
        "by_source": tally.by_source,
        "repo_programs_finished_by_evaluator": repo_src.get("ok", 0) + repo_src.get("violation", 0) + repo_src.get("known", 0),
        "repo_programs_total": repo_src.get("programs", 0),
        "rules_exercised_by_corpus": rules,
        "tlc_states": tally.tlc_states, "tlc_wall_s": round(tally.tlc_wall, 1),
        "nodes_per_second_all_workers": int(tally.nodes / tally.tlc_wall) if tally.tlc_wall else 0,
        "generator": gen_note or "vh gen-programs profiles " + ",".join(profiles),
    }
    coverage.update(lay_cov)
    coverage["tlc_states"] += lay_stats.get("tlc_states", 0)
    write_evidence(PID, tier, "translation_validation", coverage,
                   ["spec/Semantics.tla is the reading of spec.md the verdicts rest on; it was validated by three-way agreement (specified run = WebAssembly run = TypeScript run) on the corpus and the repository's tests",
                    "wasm_interp (own WasmGC interpreter over the emitted bytes) observes the module faithfully; loader.js is transcribed, not executed",
                    "runs whose specified status is implementation-defined (overflow, division by zero, toInt outside -?[0-9]+, Vec.capacity, == on separately allocated equal class values, call depth > 10000, node budget) are excluded and counted",
                    "programs stay out of recorded regions: non-ASCII text, ints beyond 31 bits in Vec, \"\".toInt()",
                    "a program whose compilation crashes has no WebAssembly run to judge (counted as no_artefact; C03's subject)"],
                   time.time() - t0, fails)
    if missing and not fails:
        tool_failure(f"vacuity: evaluation rules never exercised by the corpus: {missing}")
    if evaluator_undecided > max(2, tally.accepted // 50):
        tool_failure(f"the evaluator could not decide {evaluator_undecided} programs (stuck / unsupported)")
    return 1 if fails else 0


def replay(path):
    case = json.load(open(path))
    d = outdir(PID)
    if case.get("kind") == "typerules-term":
        import typerules
        return typerules.replay(path)
    if case.get("kind") == "tailrec":           # a body of TailRec.tla: judged by the source semantics (Semantics.tla)
        prog = case["case"]["program"]
        p = {"origin": "tailrec", "entry": "Main", "sources": {"Main": prog} if isinstance(prog, str) else prog.get("sources", prog)}
    elif case.get("kind") == "enum-layout":       # a declaration set of EnumLayout.tla: the program prints every value
        p = {"origin": "layout:" + json.dumps(case["case"]["decl"], sort_keys=True), "entry": "Main",
             "sources": {"Main": case["case"]["program"]}}
    else:
        p = dict(case["case"]["program"])
        p["with_std"] = case["case"].get("with_std", True)
    tally = Tally()
    check_group(tally, d, "replay", "replay", [p], 30_000_000, workers=1)
    for source, s in tally.by_source.items():
        log(f"[c01] replay: {s}")
    return 1 if report(tally) else 0


def main_dev():
    """python3 checks/c01.py FILE.sam... : evaluate single programs, print spec vs observed (development aid)"""
    d = outdir(PID)
    progs = []
    for p in sys.argv[1:]:
        progs.append(program_from_path(p))
    rows, lib, recs = observe(d, "dev", progs)
    verdicts, res = judge(d, "dev", rows, lib, int(os.environ.get("BUDGET", "300000")))
    for r in rows:
        print(r["origin"], r["front"], verdicts.get(r["id"]))
        if r["front"] != "accepted":
            print("\n".join((recs[r["id"]].get("rendered") or "").split("\n")[:int(os.environ.get("ERRLINES", "14"))]))
    print(f"tlc wall {res.wall:.1f}s, nodes {sum(v['n'] for v in verdicts.values())}")
    if not verdicts or os.environ.get("SHOW"):
        print(res.out[-3000:])


if __name__ == "__main__":
    sys.path.insert(0, os.path.join(VERIF, "lib"))
    main_dev()
