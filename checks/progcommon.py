"""Shared by the translator properties: program corpora, parallel compile-and-run, judging
records with spec/Observations.tla."""
import glob, json, os, re, subprocess, time
from concurrent.futures import ThreadPoolExecutor
from vlib import *


def repo_sources():
    srcs = {}
    for d in ("tests", "std"):
        for p in sorted(glob.glob(f"/repo/{d}/*.sam")):
            srcs[f"{d}.{os.path.basename(p)[:-4]}"] = open(p).read()
    return srcs


def repo_programs():
    """tests.AllTests as one program, plus one wrapper program per test class it runs."""
    srcs = repo_sources()
    progs = [{"id": 0, "origin": "repo:tests.AllTests", "entry": "tests.AllTests", "sources": srcs, "with_std": False}]
    all_tests = srcs["tests.AllTests"]
    imports = dict((c, m) for c, m in re.findall(r"import \{ (\w+) \} from (tests\.\w+);", all_tests))
    k = 1
    for name, cls in re.findall(r'TestCase\.init\("(\w+)", (\w+)\.run\)', all_tests):
        if cls not in imports:
            continue
        s = dict(srcs)
        s["tests.VerifMain"] = f"import {{ {cls} }} from {imports[cls]};\nclass Main {{ function main(): unit = {cls}.run() }}\n"
        progs.append({"id": k, "origin": f"repo:{imports[cls]}", "entry": "tests.VerifMain", "sources": s, "with_std": False})
        k += 1
    return progs


def generated_programs(d, n, seed, profile="mixed", allow=None):
    """Programs from the seeded type-directed generator (harness/src/progs_gen.rs)."""
    out = os.path.join(d, f"gen-{profile}-{seed}.ndjson")
    args = ["gen-programs", "--seed", seed, "--n", n, "--out", out, "--profile", profile]
    for a in allow or []:
        args += ["--allow", a]
    vh(args)
    return read_ndjson(out)


def run_programs(d, name, programs, builds, backends="wasm,ts", jobs=8, fuel=50_000_000, env=None, ts_syntax=False):
    """Splits `programs` into chunks, runs `vh run-programs` on them in parallel, returns the records."""
    build_harness()
    for i, p in enumerate(programs):
        p["id"] = i
    chunks = [programs[i::jobs] for i in range(jobs)]
    chunks = [c for c in chunks if c]

    def work(ci):
        inp = os.path.join(d, f"{name}-in-{ci}.ndjson")
        outp = os.path.join(d, f"{name}-rec-{ci}.ndjson")
        write_ndjson(inp, chunks[ci])
        vh(["run-programs", "--in", inp, "--out", outp, "--builds", ",".join(map(str, builds)),
            "--backends", backends, "--fuel", fuel] + (["--ts-syntax"] if ts_syntax else []), timeout=3000, env=env)
        return read_ndjson(outp)

    with ThreadPoolExecutor(max_workers=jobs) as ex:
        parts = list(ex.map(work, range(len(chunks))))
    recs = [r for part in parts for r in part]
    recs.sort(key=lambda r: r["id"])
    return recs


def slim(rec):
    """A record without the (large) sources, for TLC."""
    r = {k: v for k, v in rec.items() if k not in ("sources", "rendered", "with_std")}
    return r


def judge_obs(pid, cfg, recs, tag, source, stats, d):
    """Runs Observations.tla with config `cfg` over the records; returns number of violations reported.
    After a violation the offending record is dropped and the rest is re-judged (so one bad program
    does not hide others), up to 5 reports."""
    fails = 0
    remaining = list(recs)
    while remaining and fails < 5:
        tr = os.path.join(d, f"obs-{tag}.ndjson")
        write_ndjson(tr, [slim(r) for r in remaining])
        v = tlc("Observations", cfg, env={"TRACE": tr}, deque=True, tag=f"{pid}obs-{tag}", timeout=3000, xmx="8g")
        stats["tlc_states"] = stats.get("tlc_states", 0) + v.generated
        if v.violated:
            l = (v.last_l() or 2) - 1
            bad = remaining[l - 1]
            path = save_replay(pid, "program", {"source": source, "program": {k: bad[k] for k in ("origin", "entry", "sources") if k in bad},
                                                "with_std": bad.get("with_std", True), "builds": sorted(bad.get("builds", {}).keys())},
                               f"{v.violated} of Observations.tla", {"front": bad.get("front"), "crash": bad.get("crash"), "builds": bad.get("builds")})
            report_violation(pid, path)
            fails += 1
            remaining = remaining[:l - 1] + remaining[l:]
            continue
        if not v.ok:
            log(v.out[-3000:])
            tool_failure(f"Observations.tla run failed ({cfg}): {v.error}")
        break
    return fails


def census(recs):
    c = {"programs": len(recs), "accepted": 0, "rejected": 0, "front_crashed": 0, "impl_defined_or_budget": 0,
         "return": 0, "panic": 0, "trap": 0, "output_lines": 0}
    for r in recs:
        f = r.get("front")
        if f == "accepted":
            c["accepted"] += 1
        elif f == "rejected":
            c["rejected"] += 1
        else:
            c["front_crashed"] += 1
        b = r.get("builds", {}).get("opt:0") or next(iter(r.get("builds", {}).values()), None)
        if b and "wasm" in b:
            w = b["wasm"]
            c["output_lines"] += len(w["out"])
            k = w["end"]["k"]
            if w.get("overflow") or k == "budget":
                c["impl_defined_or_budget"] += 1
            if k in c:
                c[k] += 1
    return c


def replay_known_findings(pid, cfg, d, builds):
    """Every open known finding of `pid` whose witness is a .sam program is replayed; a KNOWN-FINDING line is
    printed while the witness still violates the property (it never hides any other program)."""
    for k in known_findings(pid):
        w = k.get("witness", "")
        if not w.endswith(".sam"):
            continue
        path = os.path.join(VERIF, w)
        if not os.path.exists(path):
            continue
        prog = {"origin": "witness:" + w, "entry": "Main", "sources": {"Main": open(path).read()}}
        recs = run_programs(d, "witness", [prog], builds, jobs=1)
        tr = os.path.join(d, "obs-witness.ndjson")
        write_ndjson(tr, [slim(r) for r in recs])
        v = tlc("Observations", cfg, env={"TRACE": tr}, deque=True, tag=f"{pid}obs-witness", timeout=600)
        if v.violated:
            report_known(pid, f"{k['what']} [witness {w} still fails]")
        else:
            log(f"[{pid}] known finding '{k.get('region')}' no longer reproduces on its witness {w}")


_MUT_RULES = [
    (r"(?<![\w.])(\d+)(?![\w.])", lambda m, rng: str(rng.choice([0, 1, 2, 7, 1000, 2147483647, int(m.group(1)) + 1]))),
    (r" \+ ", lambda m, rng: " - "), (r" - ", lambda m, rng: " + "), (r" \* ", lambda m, rng: " + "),
    (r" < ", lambda m, rng: " <= "), (r" <= ", lambda m, rng: " < "), (r" > ", lambda m, rng: " >= "), (r" >= ", lambda m, rng: " > "),
    (r" == ", lambda m, rng: " != "), (r" != ", lambda m, rng: " == "),
    (r"\btrue\b", lambda m, rng: "false"), (r"\bfalse\b", lambda m, rng: "true"),
    (r" && ", lambda m, rng: " || "), (r" \|\| ", lambda m, rng: " && "),
]


def token_mutants(n, seed):
    """Behaviour-changing, mostly type-preserving single-token mutants of the repository's sample programs and
    std (one token of one file changed; the program is the test's wrapper). Mutants the checker rejects simply
    do not satisfy C03's premise; accepted ones must still never go wrong."""
    import random
    rng = random.Random(seed)
    base = repo_programs()[1:]
    out = []
    tries = 0
    while len(out) < n and tries < n * 20:
        tries += 1
        p = rng.choice(base)
        srcs = dict(p["sources"])
        # mutate the tested module itself or a std module
        target = rng.choice([m for m in srcs if m != p["entry"] and (m.startswith("std.") or m in p["sources"][p["entry"]])] or list(srcs))
        pat, rep = rng.choice(_MUT_RULES)
        ms = [m for m in re.finditer(pat, srcs[target]) if "//" not in srcs[target][srcs[target].rfind("\n", 0, m.start()) + 1:m.start()]]
        if not ms:
            continue
        m = rng.choice(ms)
        new = rep(m, rng)
        if new == m.group(0):
            continue
        srcs[target] = srcs[target][:m.start()] + new + srcs[target][m.end():]
        out.append({"origin": f"mutant:{p['origin']}:{target}:{m.start()}:{m.group(0).strip()}->{new.strip()}",
                    "entry": p["entry"], "sources": srcs, "with_std": False})
    return out


def corpus_dir_programs(sub):
    """single-file programs of /verif/corpus/<sub> (entry class Main)"""
    out = []
    base = os.path.join(VERIF, "corpus", sub)
    for name in sorted(os.listdir(base)):
        pth = os.path.join(base, name)
        if name.endswith(".sam") and os.path.isfile(pth):
            out.append({"origin": f"corpus:{sub}/{name[:-4]}", "entry": "Main", "sources": {"Main": open(pth).read()}})
    return out


def near_miss_programs():
    """corpus/c06/ill_typed (single files) and corpus/c06/ill_typed_modules (one directory per program)"""
    out = []
    base = os.path.join(VERIF, "corpus", "c06")
    for name in sorted(os.listdir(os.path.join(base, "ill_typed"))):
        if name.endswith(".sam"):
            out.append({"origin": f"corpus:c06/ill_typed/{name[:-4]}", "entry": "Main",
                        "sources": {"Main": open(os.path.join(base, "ill_typed", name)).read()}})
    for name in sorted(os.listdir(os.path.join(base, "ill_typed_modules"))):
        pth = os.path.join(base, "ill_typed_modules", name)
        out.append({"origin": f"corpus:c06/ill_typed_modules/{name}", "entry": "Main",
                    "sources": {f[:-4]: open(os.path.join(pth, f)).read() for f in sorted(os.listdir(pth)) if f.endswith(".sam")}})
    return out


def arm_drop_mutants(d, name, programs, per_program, seed):
    """One arm of one `match` deleted (harness/src/faults.rs, --arm-drop): the checker must reject the mutant
    or the remaining arms must cover every value that reaches the match when the mutant runs."""
    for i, p in enumerate(programs):
        p["id"] = i
    inp = os.path.join(d, f"{name}-armdrop-in.ndjson")
    outp = os.path.join(d, f"{name}-armdrop.ndjson")
    write_ndjson(inp, programs)
    vh(["mutate", "--in", inp, "--out", outp, "--arm-drop", "--only", "arm-drop", "--per-program", per_program,
        "--full", "--seed", seed], timeout=3000)
    return read_ndjson(outp)
