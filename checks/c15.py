"""C15 — navigation and rename agree with the language's scoping rules.
Decided by spec/Scope.tla (+ ScopeGen.tla, ScopeTrace.tla):
(1) [RT] Scope.tla states lexical scoping on binder structures (parameters, let, tuple / struct
    patterns, match arms, or-patterns -- also nested in a later alternative --, if-let, lambdas,
    nested blocks, uses) as scope intervals over the identifier occurrences, and transcribes the
    checker's stack-of-maps walk (ssa_analysis.rs); TLC enumerates every structure of the bounded
    space, well-scoped or not, and checks that the walk accepts exactly the well-scoped ones with
    exactly the specified use->binding map (ScopeGen.tla, invariant RT);
(2) [BR] TLC enumerates the well-scoped structures, one per class of structures equal up to a permutation
    of the names (directed canonical generation; their number, weighted by the class sizes, is compared
    with the well-scoped ones of the free space), with the places where the surface syntax can vary
    (Scope.tla, SURFACE FORMS: annotated / un-annotated / mixed lambda parameter lists, the lambda called
    directly or passed to a function, a pattern variable carried by struct patterns in shorthand and
    `as` form, tuple and variant patterns, nested, in let / match arms / every alternative of an
    or-pattern / if-let).  Every structure up to `full_cost` is rendered under form vectors that put every
    place in every spelling it admits, the larger ones under seeded random form vectors; vh scope-run
    renders each as a function, asks the real
    language services at every identifier occurrence (definition_location, all_references, rename),
    re-checks / compiles / runs every renamed document and renames back; ScopeTrace.tla judges each
    record against Def / Refs of Scope.tla -- the same for every spelling -- and the rename clauses of the
    property.  A sample of
    ill-scoped structures checks that the real checker rejects what the specification calls ill-scoped;
(3) the same observations at every local-variable occurrence (also inside closure bodies) of /repo/tests,
    of generated programs (when the generator is available) and of the hand-written corpus/c15 (closures in
    every parameter-list form with captured variables, struct patterns in both forms in every pattern
    position; every binding renamed and run), judged by the consistency invariants of ScopeTrace.tla
    (Real*): no specified relation is needed for them.  Behaviour of the AllTests corpus under a
    sample of renames is run through progcommon.run_programs.
The verdict is TLC's on the recorded observations; Python only orchestrates."""
import json, os, random, re, time
from concurrent.futures import ThreadPoolExecutor
from vlib import *
import progcommon

PID = "C15"
KF_NESTED_OR = "nested-or-pattern"
MAX_REPORTS = 5
CORPUS_RENAMES = 1000    # more than the bindings of a module of corpus/c15: all are renamed
WITNESS_NESTED_OR = {"params": ["a"], "body": {"k": "blk", "items": [], "fin": {
    "k": "mor3", "scrut": {"k": "use", "x": "a"}, "x": "b", "body": {"k": "use", "x": "b"}}}}

TIERS = {
    # mc: free space (RT on ill-scoped structures too); gen: directed canonical spaces replayed on the real code:
    #   names, cost; full_cost: structures up to this cost are rendered with every place in every spelling;
    #   larger: how many of the larger structures are replayed (None = all), reps: random form vectors for each;
    # behaviour: fraction of replayed renderings compiled and run
    "quick": dict(mc=[(("a", "b"), 3)],
                  gen=[dict(names=("a", "b", "c"), cost=3, full_cost=2, larger=18000, reps=1)],
                  run_every=14, builds="31", ill=300, real_renames=2, real_runs=4, gen_programs=12, chunk=7000),
    "thorough": dict(mc=[(("a", "b"), 3), (("a", "b", "c"), 3), (("a", "b"), 4)],
                     gen=[dict(names=("a", "b", "c"), cost=3, full_cost=2, larger=None, reps=2),
                          dict(names=("a", "b"), cost=4, full_cost=0, larger=60000, reps=1)],
                     run_every=8, builds="0,31", ill=3000, real_renames=12, real_runs=24, gen_programs=150, chunk=8000),
}


def open_findings():
    """Open findings of C15; VERIF_KF=<file> overrides the path of known-findings.json (development aid)."""
    p = os.environ.get("VERIF_KF")
    if p:
        return [k for k in json.load(open(p)) if k.get("property") == PID and k.get("status") == "open"]
    return known_findings(PID)


def write_cfg(d, name, names, cost, directed, fixed, invariants, canonical=False):
    p = os.path.join(d, name)
    with open(p, "w") as f:
        f.write("INIT Init\nNEXT Next\nCONSTANTS\n")
        f.write("  Names = {%s}\n" % ", ".join('"%s"' % n for n in names))
        f.write(f"  MaxCost = {cost}\n  Directed = {'TRUE' if directed else 'FALSE'}\n")
        f.write(f"  Canonical = {'TRUE' if canonical else 'FALSE'}\n")
        f.write(f"  NestedOrFixed = {'TRUE' if fixed else 'FALSE'}\n")
        f.write("INVARIANTS " + " ".join(invariants) + "\nCHECK_DEADLOCK FALSE\n")
    return p


def printed(res, tag):
    return [p[1] for p in res.printed if p[0] == tag]


def census_of(res):
    c = {"structures": 0, "well_scoped": 0, "ill_scoped": 0, "sibling_reuse": 0, "or_pattern": 0, "occurrences": 0}
    for line in printed(res, "CENSUS"):
        ws, reuse, alt, n = [int(x) for x in line.split(",")]
        c["structures"] += 1
        c["well_scoped"] += ws
        c["ill_scoped"] += 1 - ws
        c["sibling_reuse"] += reuse
        c["or_pattern"] += alt
        c["occurrences"] += n
    return c


def coverage_counts(out):
    c = {}
    for m in re.finditer(r"^<(\w+) line .*?>: (\d+):(\d+)", out, re.M):
        c[m.group(1)] = c.get(m.group(1), 0) + int(m.group(3))
    return c


def harness_run(d, name, lines, builds, jobs=8, full=False):
    """vh scope-run over `lines` ({"id","t","run"}) in parallel chunks; returns the records in input order."""
    chunks = [lines[i::jobs] for i in range(jobs)]
    chunks = [c for c in chunks if c]

    def work(ci):
        inp = os.path.join(d, f"{name}-in-{ci}.ndjson")
        outp = os.path.join(d, f"{name}-rec-{ci}.ndjson")
        write_ndjson(inp, chunks[ci])
        # the workspaces are tiny: the checker's thread pool only costs (several vh processes run side by side)
        vh(["scope-run", "--in", inp, "--out", outp, "--builds", builds] + (["--full"] if full else []), timeout=3300,
           env={"RAYON_NUM_THREADS": "1"})
        return read_ndjson(outp)

    with ThreadPoolExecutor(max_workers=jobs) as ex:
        parts = list(ex.map(work, range(len(chunks))))
    recs = [r for part in parts for r in part]
    recs.sort(key=lambda r: r["id"])
    return recs


def slim(rec):
    return {k: v for k, v in rec.items() if k not in ("text", "fmt_text")}


def names_of(t):
    """The names a structure mentions (binders and uses)."""
    out = set()

    def w(v):
        if isinstance(v, dict):
            for k, x in v.items():
                if k in ("x", "y") and isinstance(x, str):
                    if x != "_":
                        out.add(x)
                else:
                    w(x)
        elif isinstance(v, list):
            for x in v:
                if isinstance(x, str):
                    out.add(x)
                else:
                    w(x)
    w(t)
    return out


def falling(m, k):
    """Number of injections of k names into m names: the size of the class of a canonical structure."""
    r = 1
    for i in range(k):
        r *= m - i
    return r


def form_vectors(slots, table, rng, every, reps):
    """Form vectors of a structure with the given places.  every: as many as the widest place has spellings,
    place s taking its spellings in turn from a random start (every place in every spelling);
    otherwise `reps` random vectors."""
    if not slots:
        return [[]]
    ns = [len(table[k]) for k in slots]
    if every:
        offs = [rng.randrange(n) for n in ns]
        return [[table[k][(r + o) % n] for k, o, n in zip(slots, offs, ns)] for r in range(max(ns))]
    seen = []
    for _ in range(reps):
        v = [rng.choice(table[k]) for k in slots]
        if v not in seen:
            seen.append(v)
    return seen


def has_mor3(t):
    if isinstance(t, dict):
        return t.get("k") == "mor3" or any(has_mor3(v) for v in t.values())
    if isinstance(t, list):
        return any(has_mor3(v) for v in t)
    return False


def judge(d, recs, cfg, tag, known, stats, describe, workers=8):
    """Runs ScopeTrace.tla (cfg) over recs; VIOLATION per offending record (dropped, rest re-judged).
    Returns the number of violations reported."""
    fails = 0
    remaining = list(recs)
    while remaining:
        tr = os.path.join(d, f"trace-{tag}.ndjson")
        write_ndjson(tr, remaining)
        v = tlc("ScopeTrace", cfg, env={"TRACE": tr, "SCOPE_KNOWN": known}, workers=workers, tag=f"{PID}t-{tag}",
                timeout=3000, xmx="12g")
        stats["tlc_states"] += v.generated
        stats["drift"] += len(printed(v, "DRIFT"))
        for line in printed(v, "DRIFT")[:3]:
            log(f"MODEL-DRIFT: record not judged (id, aligned, accepted, well-scoped) = {line}")
        for line in printed(v, "RAN"):
            ran, judged = [int(x) for x in line.split(",")]
            stats["ran"] += ran * judged
        stats["known_seen"] += sum(int(x) for x in printed(v, "KNOWNSEEN"))
        for m in printed(v, "FORMATTER"):
            if m not in stats["formatter_modules"]:
                stats["formatter_modules"].append(m)
                log(f"[formatter] re-printing alone changes the diagnostics or behaviour of module {m} "
                    f"(property C08's concern): its renamed documents are not judged for that")
        if v.violated:
            ls = re.findall(r"^l = (\d+)", v.out, re.M)
            l = int(ls[-1]) if ls else 1
            bad = remaining[l - 1]
            path = describe(bad, v.violated)
            report_violation(PID, path)
            fails += 1
            stats["violating_records"] += 1
            remaining = remaining[:l - 1] + remaining[l:]
            if fails >= MAX_REPORTS:
                log(f"[{tag}] more than {MAX_REPORTS} violating records; not looking further")
                break
            continue
        if not v.ok:
            log(v.out[-3000:])
            tool_failure(f"ScopeTrace run failed ({cfg}, {tag}): {v.error}")
        break
    return fails


def describe_structure(d, builds):
    def f(bad, invariant):
        full = harness_run(d, f"viol{bad['id']}", [{"id": bad["id"], "t": bad["t"], "forms": bad.get("forms", []), "run": True}],
                           builds, jobs=1, full=True)[0]
        wrong = []
        for j, o in enumerate(full.get("occ", [])):
            wrong.append({"occurrence": j + 1, "name": o["n"], "at": o["loc"], "definition": o["def"],
                          "references": o["refs"], "rename_document": o["ren"]})
        return save_replay(PID, "structure", {"t": bad["t"], "forms": bad.get("forms", []), "builds": builds, "text": full.get("text")},
                           f"{invariant} of ScopeTrace.tla (answers = Def/Refs of Scope.tla on this structure)",
                           {"violated": invariant, "answers": wrong, "renamed_documents": full.get("ren"),
                            "diag": full.get("diag"), "run": full.get("run"), "panics": full.get("panics")})
    return f


def describe_module(seed, max_renames, programs=None):
    def f(bad, invariant):
        bad = dict(bad, program=(programs or {}).get(bad["origin"]))
        occ = bad.get("occ", [])
        suspicious = [dict(o, index=j + 1) for j, o in enumerate(occ)
                      if o["d"] == 0 or o["ru"] or sorted(q + 1 for q, x in enumerate(occ) if x["d"] == o["d"]) != o["r"]][:10]
        return save_replay(PID, "module", {"origin": bad["origin"], "module": bad["module"], "seed": seed,
                                           "max_renames": max_renames, "program": bad.get("program")},
                           f"{invariant} of ScopeTrace.tla",
                           {"violated": invariant, "suspicious_occurrences": suspicious,
                            "renames": [{k: v for k, v in r.items() if k != "text"} for r in bad.get("ren", [])],
                            "panics": bad.get("panics")})
    return f


def probe_nested_or(d, builds):
    """Is the or-pattern defect present in the code under test?  The witness is judged by the specification."""
    rec = harness_run(d, "probe", [{"id": 1, "t": WITNESS_NESTED_OR, "run": True}], builds, jobs=1)[0]
    tr = os.path.join(d, "trace-probe.ndjson")
    write_ndjson(tr, [slim(rec)])
    v = tlc("ScopeTrace", "ScopeTrace.cfg", env={"TRACE": tr, "SCOPE_KNOWN": "none"}, workers=1, tag=f"{PID}probe", timeout=600)
    if not v.ok and not v.violated:
        log(v.out[-3000:])
        tool_failure(f"probe of the nested or-pattern witness failed: {v.error}")
    return bool(v.violated), v.violated


def run(tier):
    t0 = time.time()
    d = outdir(PID)
    cfgd = os.path.join(d, "cfg")
    os.makedirs(cfgd, exist_ok=True)
    build_harness()
    T = TIERS[tier]
    rng = random.Random(SEED)
    stats = {"tlc_states": 0, "drift": 0, "ran": 0, "known_seen": 0, "violating_records": 0, "formatter_modules": []}
    fails = 0
    samples = []

    # 0. which revision of the scope analysis is under test?  (decides the constant of the transcription)
    present, clause = probe_nested_or(d, T["builds"])
    kfs = {k.get("id"): k for k in open_findings()}
    known = "none"
    if present and KF_NESTED_OR in kfs:
        known = "nestedor"
        report_known(PID, f"{KF_NESTED_OR}: {kfs[KF_NESTED_OR]['what']} (witness {kfs[KF_NESTED_OR].get('witness')}: {clause})")
    elif not present and KF_NESTED_OR in kfs:
        log(f"[known-finding] {KF_NESTED_OR} is listed as open but its witness is no longer violated")
    fixed = not present

    # 1. [RT] the free space: Alg = Sem on every structure, well-scoped or not
    mc_states = mc_trans = 0
    mc_info = []
    ill_trees = []
    census_by_space = {}
    # vacuity: TLC's coverage of the smallest space (every action and invariant branch is evaluated)
    cfg = write_cfg(cfgd, "cov.cfg", ("a", "b"), 2, False, fixed, ["RT", "GenSound"])
    cv = tlc("ScopeGen", cfg, workers=4, timeout=600, tag=f"{PID}cov", coverage=True)
    tlc_must_pass(cv, "Scope.tla coverage run")
    cov = coverage_counts(cv.out)
    never = [a for a in ("Init", "Next") if cov.get(a, 0) == 0]
    rt_evals = re.search(r"^<RT line .*\n\s+line .*: (\d+)$", cv.out, re.M)
    zero = [l.strip() for l in cv.out.splitlines() if re.search(r"of module Scope\w*: 0$", l)]
    if never or not rt_evals or int(rt_evals.group(1)) == 0:
        tool_failure(f"vacuity: never evaluated: {never or 'RT'}")
    for names, cost in T["mc"]:
        first = not mc_info
        # the ill-scoped structures of the first (smallest) space are printed for the acceptance replay
        cfg = write_cfg(cfgd, f"mc-{''.join(names)}-{cost}.cfg", names, cost, False, fixed,
                        ["RT", "Census", "KnownRegion"] + (["EmitIll"] if first else []))
        mc = tlc("ScopeGen", cfg, workers=8, timeout=3000, xmx="16g", tag=f"{PID}mc{len(mc_info)}")
        tlc_must_pass(mc, f"Scope.tla model checking (free space, {names}, cost <= {cost})")
        c = census_of(mc)
        region = printed(mc, "REGION")
        c["known_region"] = len(region)
        c["known_region_where_walk_differs"] = sum(1 for x in region if x.strip() == "0")
        census_by_space[(names, cost)] = c
        if not (c["ill_scoped"] and c["sibling_reuse"] and c["or_pattern"] and c["well_scoped"]):
            tool_failure(f"vacuity: the bounded space lacks a class of structures: {c}")
        mc_states += mc.distinct
        mc_trans += mc.generated
        mc_info.append({"names": list(names), "max_cost": cost, "states": mc.distinct, "wall_s": round(mc.wall, 1), **c})
        if first:
            ill_trees = behaviours_from(mc, "ILL")
            rng.shuffle(ill_trees)
            ill_trees = ill_trees[:T["ill"]]
        mc.out = ""
        mc.printed = []
        log(f"[mc] {names} cost<={cost}: {mc.distinct} states, {c['structures']} structures "
            f"({c['ill_scoped']} ill-scoped) in {mc.wall:.0f}s")

    # 2. [BR] the well-scoped structures (one per class up to a permutation of the names), in the spellings their
    #    places admit, replayed on the real language services
    lines = []
    gen_info = []
    table = None
    for gi, G in enumerate(T["gen"]):
        names, cost = G["names"], G["cost"]
        cfg = write_cfg(cfgd, f"gen-{''.join(names)}-{cost}.cfg", names, cost, True, fixed,
                        ["RT", "GenSound", "Emit", "EmitForms"], canonical=True)
        g = tlc("ScopeGen", cfg, workers=8, timeout=3000, xmx="16g", tag=f"{PID}gen{gi}")
        tlc_must_pass(g, f"ScopeGen directed canonical enumeration ({names}, cost <= {cost})")
        structs = behaviours_from(g)
        ft = behaviours_from(g, "FORMS")
        g.out = ""
        g.printed = []
        if not structs or not ft:
            tool_failure("ScopeGen produced no structures or no table of spellings")
        table = ft[0]
        # the canonical structures stand for their classes: weighted by the class sizes they are the
        # well-scoped part of every free space over fewer or as many names with the same bound
        compared = []
        for (fnames, fcost), free in census_by_space.items():
            if fcost == cost and set(fnames) <= set(names):
                m = len(fnames)
                weighted = sum(falling(m, k) for k in (len(names_of(b["t"])) for b in structs) if k <= m)
                if weighted != free["well_scoped"]:
                    tool_failure(f"directed canonical generation is not the well-scoped part of the free space {fnames}: "
                                 f"{weighted} vs {free['well_scoped']}")
                compared.append("".join(fnames))
        mc_states += g.distinct
        mc_trans += g.generated
        small = [b for b in structs if b["cost"] <= G["full_cost"]]
        large = [b for b in structs if b["cost"] > G["full_cost"]]
        n_large = len(large)
        if G["larger"] is not None and n_large > G["larger"]:
            rng.shuffle(large)
            large = large[:G["larger"]]
        n0 = len(lines)
        for b in small:
            for fv in form_vectors(b["slots"], table, rng, True, 0):
                lines.append({"id": len(lines) + 1, "t": b["t"], "forms": fv, "run": False})
        n1 = len(lines)
        for b in large:
            for fv in form_vectors(b["slots"], table, rng, False, G["reps"]):
                lines.append({"id": len(lines) + 1, "t": b["t"], "forms": fv, "run": False})
        gen_info.append({"names": list(names), "max_cost": cost, "well_scoped_structures_up_to_renaming": len(structs),
                         "compared_with_free_spaces": compared,
                         "structures_rendered_in_every_spelling_of_every_place": len(small),
                         "renderings_of_those": n1 - n0, "larger_structures": n_large, "larger_structures_replayed": len(large),
                         "renderings_of_the_larger": len(lines) - n1,
                         "states": g.distinct, "wall_s": round(g.wall, 1)})
        log(f"[gen] {names} cost<={cost}: {len(structs)} well-scoped structures up to renaming in {g.wall:.0f}s; "
            f"{len(small)} in every spelling ({n1 - n0} renderings), {len(large)} of {n_large} larger ones "
            f"({len(lines) - n1} renderings)")
        del structs, small, large
    for i in rng.sample(range(len(lines)), max(1, len(lines) // T["run_every"])):
        lines[i]["run"] = True
    # more of the structures with the nested or-pattern are run (the finding lives there)
    for ln in lines:
        if has_mor3(ln["t"]) and rng.random() < 0.2:
            ln["run"] = True
    n_wellscoped = len(lines)
    for t in ill_trees:
        lines.append({"id": len(lines) + 1, "t": t["t"], "forms": [], "run": False})
    # observed and judged in batches (the records of a thorough run do not fit in memory at once)
    desc = describe_structure(d, T["builds"])
    n_recs = occs = rens = accepted = 0
    spelled = {}
    t_h = t_j = 0.0
    BATCH = 42000
    for b0 in range(0, len(lines), BATCH):
        th = time.time()
        recs = harness_run(d, "trees", lines[b0:b0 + BATCH], T["builds"])
        t_h += time.time() - th
        n_recs += len(recs)
        occs += sum(len(r["occ"]) for r in recs)
        rens += sum(len(r["ren"]) for r in recs)
        accepted += sum(1 for r in recs if r["accepted"])
        for r in recs:
            if r["accepted"]:
                for k, fm in zip(r.get("slots", []), r.get("forms", [])):
                    spelled.setdefault(k, {})
                    spelled[k][fm] = spelled[k].get(fm, 0) + 1
        if b0 == 0:
            k = min(200, len(recs) - 1)
            samples.append({"structure": recs[k]["t"], "forms": recs[k].get("forms"),
                            "answers": [{f: o[f] for f in ("n", "loc", "def", "refs")} for o in recs[k]["occ"]][:4]})
        tj = time.time()
        parts = [recs[k:k + T["chunk"]] for k in range(0, len(recs), T["chunk"])]
        with ThreadPoolExecutor(max_workers=3) as ex:
            fails += sum(ex.map(lambda kp: judge(d, kp[1], "ScopeTrace.cfg", f"s{kp[0]}", known, stats, desc, workers=5),
                                enumerate(parts)))
        t_j += time.time() - tj
        del recs, parts
        if fails >= MAX_REPORTS:
            break
    log(f"[harness] {n_recs} renderings observed in {t_h:.0f}s; judged by ScopeTrace.tla in {t_j:.0f}s")
    # vacuity: every spelling of every kind of place was rendered, accepted and judged
    missing = [f"{k}:{fm}" for k in (table or {}) for fm in table[k] if not spelled.get(k, {}).get(fm)]
    if missing and fails == 0:
        tool_failure(f"vacuity: spellings never rendered in an accepted program: {missing}")
    if known == "nestedor" and stats["known_seen"] == 0:
        log("[known-finding] the witness reproduces but no enumerated structure shows the finding")

    # 3. real programs: /repo/tests (behaviour through progcommon), generated programs when available
    real_seed = SEED % 1000003
    tr = time.time()
    real_path = os.path.join(d, "real.ndjson")
    out, _ = vh(["scope-real", "--out", real_path, "--max-renames", T["real_renames"], "--seed", real_seed])
    real_info = json.loads(out)
    real = read_ndjson(real_path)
    # behaviour of the AllTests corpus under a sample of the renames
    srcs = progcommon.repo_sources()
    cand = [(ri, k) for ri, r in enumerate(real) for k, x in enumerate(r["ren"]) if x.get("ok") and x.get("text")]
    rng.shuffle(cand)
    cand = cand[:T["real_runs"]]
    progs = [{"origin": "repo:tests.AllTests", "entry": "tests.AllTests", "sources": srcs, "with_std": False}]
    for ri, k in cand:
        s = dict(srcs)
        s[real[ri]["module"]] = real[ri]["ren"][k]["text"]
        progs.append({"origin": f"rename:{real[ri]['module']}:{real[ri]['ren'][k]['n']}", "entry": "tests.AllTests",
                      "sources": s, "with_std": False})
    runs = progcommon.run_programs(d, "alltests", progs, [31], backends="wasm", jobs=8)

    def obs(r):
        b = r.get("builds", {}).get("opt:31", {})
        w = b.get("wasm", {})
        return {"opt31": {"status": r.get("front", "?") + "/" + b.get("status", "?"), "out": w.get("out", []),
                          "end": json.dumps(w.get("end", {}), sort_keys=True)}}
    base = obs(runs[0])
    if runs[0].get("front") != "accepted" or not base["opt31"]["out"]:
        tool_failure(f"the AllTests corpus did not run: {runs[0].get('front')} {str(runs[0].get('builds'))[:300]}")
    for (ri, k), r in zip(cand, runs[1:]):
        real[ri]["ren"][k]["b"] = base
        real[ri]["ren"][k]["j"]["run"] = obs(r)
        if obs(r) != base and real[ri]["run"] == {}:
            # is it the re-printing alone?  observe the formatted original of that module too
            fp = os.path.join(d, "real-fmt.ndjson")
            vh(["scope-real", "--out", fp, "--max-renames", 0, "--modules", real[ri]["module"], "--full"])
            ft = read_ndjson(fp)[0].get("fmt_text")
            if ft:
                s = dict(srcs)
                s[real[ri]["module"]] = ft
                fr = progcommon.run_programs(d, "alltests-fmt", [{"origin": "formatted", "entry": "tests.AllTests", "sources": s,
                                                                   "with_std": False}], [31], backends="wasm", jobs=1)
                real[ri]["run"] = base
                real[ri]["fmt_run"] = obs(fr[0])
    real_for_tlc = [dict({k: v for k, v in r.items() if k != "fmt_text"}, ren=[{k: v for k, v in x.items() if k != "text"} for x in r["ren"]]) for r in real]
    fails += judge(d, real_for_tlc, "ScopeTraceReal.cfg", "real", known, stats, describe_module(real_seed, T["real_renames"]))
    log(f"[real] {real_info} + {len(cand)} AllTests behaviour runs in {time.time()-tr:.0f}s")
    samples.append({"module": real[0]["module"], "occurrence": real[0]["occ"][:2] if real[0]["occ"] else []})
    gen_info_real = {"available": False}
    try:
        gp = os.path.join(d, f"genprogs-{SEED}.ndjson")
        out, rc = vh(["gen-programs", "--seed", SEED, "--n", T["gen_programs"], "--out", gp, "--profile", "mixed"], check=False)
        if rc == 0 and os.path.exists(gp) and os.path.getsize(gp) > 0:
            gpath = os.path.join(d, "real-gen.ndjson")
            out, _ = vh(["scope-real", "--no-repo", "--gen", gp, "--out", gpath, "--max-renames", max(2, T["real_renames"] // 2),
                         "--seed", real_seed, "--builds", "31"], timeout=3000)
            gen_info_real = dict(json.loads(out), available=True)
            grecs = read_ndjson(gpath)
            programs = {"gen:" + str(p.get("origin", "?")): {k: p[k] for k in ("origin", "sources", "entry", "with_std") if k in p}
                        for p in read_ndjson(gp)}
            grecs_t = [dict(r, ren=[{k: v for k, v in x.items() if k != "text"} for x in r["ren"]]) for r in grecs]
            fails += judge(d, grecs_t, "ScopeTraceReal.cfg", "realgen", known, stats,
                           describe_module(real_seed, max(2, T["real_renames"] // 2), programs))
        else:
            log("[real] vh gen-programs is not available: generated programs skipped")
    except SystemExit:
        raise
    log(f"[real] generated programs: {gen_info_real}")
    # the hand-written corpus (corpus/c15/*.sam: closures in every parameter-list form with captured variables,
    # struct patterns in both forms in every pattern position): every occurrence, every binding renamed, run
    corpus_info = {"programs": 0}
    cdir = os.path.join(VERIF, "corpus", "c15")
    cfiles = sorted(f for f in os.listdir(cdir) if f.endswith(".sam")) if os.path.isdir(cdir) else []
    if cfiles:
        cp = os.path.join(d, "corpus-progs.ndjson")
        cprogs = [{"origin": f"corpus/c15/{f}", "sources": {f[:-4]: open(os.path.join(cdir, f)).read()}, "entry": f[:-4],
                   "with_std": True} for f in cfiles]
        write_ndjson(cp, cprogs)
        cpath = os.path.join(d, "real-corpus.ndjson")
        out, _ = vh(["scope-real", "--no-repo", "--gen", cp, "--out", cpath, "--max-renames", CORPUS_RENAMES, "--seed", real_seed,
                     "--builds", "31"], timeout=3000)
        corpus_info = dict(json.loads(out), programs=len(cprogs))
        if corpus_info.get("programs_not_accepted"):
            tool_failure(f"a program of corpus/c15 is not accepted by the compiler under test: {corpus_info}")
        crecs = read_ndjson(cpath)
        programs = {"gen:" + p["origin"]: p for p in cprogs}
        crecs_t = [dict(r, ren=[{k: v for k, v in x.items() if k != "text"} for x in r["ren"]]) for r in crecs]
        fails += judge(d, crecs_t, "ScopeTraceReal.cfg", "corpus", known, stats, describe_module(real_seed, CORPUS_RENAMES, programs))
        log(f"[real] corpus/c15: {corpus_info}")
    coverage = {
        "states": mc_states, "transitions": mc_trans,
        "traces_validated_against_impl": n_recs + len(real) + gen_info_real.get("modules", 0) + corpus_info.get("modules", 0),
        "samples": samples,
        "free_spaces_model_checked": mc_info,
        "well_scoped_spaces_replayed": gen_info,
        "spellings": table,
        "renderings_replayed": n_wellscoped,
        "renderings_per_spelling": spelled,
        "ill_scoped_structures_replayed": len(lines) - n_wellscoped,
        "structures_accepted_by_the_checker": accepted,
        "identifier_occurrences_queried": occs,
        "queries_per_occurrence": "definition x2, references x2, rename x1",
        "renamed_documents_rechecked_and_renamed_back": rens,
        "structures_compiled_and_run_with_all_renamed_documents": stats["ran"],
        "real_programs": dict(real_info, alltests_behaviour_runs=len(cand)),
        "generated_programs": gen_info_real,
        "corpus_programs": corpus_info,
        "nested_or_defect_present": present,
        "records_showing_the_known_finding": stats["known_seen"],
        "trace_states_checked_by_tlc": stats["tlc_states"],
        "model_drift_records": stats["drift"],
        "modules_where_the_formatter_alone_changes_the_program": stats["formatter_modules"],
        "coverage_run": {"Init": cov.get("Init"), "Next": cov.get("Next"), "RT_evaluations": int(rt_evals.group(1)),
                         "expressions_never_evaluated": zero[:20]},
        "violating_records": stats["violating_records"],
        "exhaustive": False,
    }
    write_evidence(PID, tier, "model_checking", coverage,
                   ["the harness's rendering of a structure under a form vector (harness/src/scope.rs) is the concrete syntax "
                    "Scope.tla describes; ScopeTrace.tla checks the places, their spellings, and the number, order and names of "
                    "the identifier occurrences of every record",
                    "of the structures that differ only by a permutation of the names, the canonical one is replayed",
                    "identifiers are queried at their first and last character",
                    "behaviour is observed on the WebAssembly back end through the harness interpreter, for Main.main calling the function with 4 argument tuples",
                    "texts are compared through 64-bit FNV digests",
                    "real programs: only consistency of the answers among themselves is judged (no specified relation)",
                    "TLC 1.8.0 and the CommunityModules Json/IOUtils overrides are correct"],
                   time.time() - t0, fails)
    return 1 if fails else 0


def replay(path):
    d = outdir(PID)
    build_harness()
    rp = json.load(open(path))
    case = rp["case"]
    stats = {"tlc_states": 0, "drift": 0, "ran": 0, "known_seen": 0, "violating_records": 0, "formatter_modules": []}
    present, _ = probe_nested_or(d, "31")
    known = "nestedor" if present and any(k.get("id") == KF_NESTED_OR for k in open_findings()) else "none"
    if rp["kind"] == "structure":
        builds = case.get("builds", "31")
        recs = harness_run(d, "replay", [{"id": 1, "t": case["t"], "forms": case.get("forms", []), "run": True}], builds, jobs=1)
        n = judge(d, [slim(r) for r in recs], "ScopeTrace.cfg", "replay", known, stats, describe_structure(d, builds))
        return 1 if n else 0
    out_p = os.path.join(d, "real-replay.ndjson")
    if case["origin"].startswith("repo:"):
        vh(["scope-real", "--out", out_p, "--max-renames", case["max_renames"], "--seed", case["seed"], "--modules", case["module"]])
    elif case.get("program"):
        gp = os.path.join(d, "replay-prog.ndjson")
        write_ndjson(gp, [case["program"]])
        vh(["scope-real", "--no-repo", "--gen", gp, "--out", out_p, "--max-renames", case["max_renames"], "--seed", case["seed"],
            "--builds", "31"])
    else:
        log("the replay file carries no program")
        return 2
    recs = [dict(r, ren=[{k: v for k, v in x.items() if k != "text"} for x in r["ren"]]) for r in read_ndjson(out_p) if r["module"] == case["module"]]
    n = judge(d, recs, "ScopeTraceReal.cfg", "replay", known, stats, describe_module(case["seed"], case["max_renames"]))
    return 1 if n else 0
