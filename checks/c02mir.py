"""C02, the absolute half: optimisation never changes behaviour, decided on the compiler's own mid-level IR.
spec/MIR.tla is an executable semantics of `mir::Sources` (values, frames, calls through closure objects,
IfElse with final assignments, While with parallel loop-variable update and break collector, enum
representations, the runtime functions); spec/MIRTrace.tla evaluates, for every program, the MIR of the
un-optimised build ("raw"), of every single pass in the normal form the pipeline guarantees it, and of whole
optimiser configurations (`vh mir-json` dumps them; harness/src/mirdump.rs), and accepts the program iff every
optimised build prints the reference run's lines and ends the same way — unless the reference run is
implementation-defined (32-bit overflow, division by zero, toInt, budget / depth).  A violation names the first
build in pipeline order whose MIR means something else (stage localisation).  Nothing here goes through LIR,
WebAssembly or TypeScript.
Drift layer (MODEL-DRIFT, never a verdict): the reference run equals what the two back ends printed for the
raw build (`vh run-programs --builds raw`), which binds MIR.tla to the code's actual meaning.
Anything the evaluator cannot handle (unsupported runtime function, stuck, cut off) is a counted skip."""
import glob, json, os, sys, time
from concurrent.futures import ThreadPoolExecutor
from vlib import *
import progcommon as pc

PID = "C02"
# pipeline order: un-optimised, every pass alone (constant propagation first, as each round of the optimiser
# runs it first), the optimiser with every switch off, each switch alone, everything
PASSES = ["pass:ccp", "pass:ccp+scalar_replacement", "pass:ccp+loop", "pass:ccp+cse", "pass:ccp+lvn", "pass:dce",
          "pass:ccp+dce", "pass:inlining+ccp", "pass:unused_name_elimination"]
QUICK_BUILDS = ["raw"] + PASSES + ["opt:0", "opt:4", "opt:8", "opt:31"]
THOROUGH_BUILDS = ["raw"] + PASSES + ["opt:0", "opt:1", "opt:2", "opt:4", "opt:8", "opt:16", "opt:30", "opt:29", "opt:27", "opt:23", "opt:15", "opt:31"]

REQUIRED_RULES = {
    # statements
    "bin", "call", "if", "idx", "cast", "asg", "decl", "new", "clo", "isp", "not", "sif", "while", "brk",
    # calls through closure objects, runtime functions
    "call:closure", "__Process$println", "__Process$panic", "__Str$fromInt", "__Str$concat", "__Str$toInt",
    "__Vec$empty", "__Vec$of", "__Vec$push", "__Vec$get", "__Vec$set", "__Vec$pop", "__Vec$length", "__Vec$eq",
    # operators
    "op:PLUS", "op:MINUS", "op:MUL", "op:DIV", "op:MOD", "op:LT", "op:LE", "op:GT", "op:GE", "op:EQ", "op:NE",
    # endings
    "end:ok", "end:panic", "end:vecbounds", "end:impl",
}


def corpus_programs():
    """corpus/c01 (single files and the directory program 25_modules, entry Main), corpus/c03 and corpus/c02mir
    (shapes the optimisation passes rewrite: operand order of non-commutative operators, parameter-permuting
    tail calls, derived induction variables, loop-invariant expressions, objects that never escape)"""
    progs = []
    base = os.path.join(VERIF, "corpus", "c01")
    for p in sorted(glob.glob(os.path.join(base, "*"))):
        name = os.path.basename(p)
        if os.path.isdir(p):
            srcs = {}
            for root, _, files in os.walk(p):
                for f in sorted(files):
                    if f.endswith(".sam"):
                        rel = os.path.relpath(os.path.join(root, f), p)[:-4]
                        srcs[rel.replace(os.sep, ".")] = open(os.path.join(root, f)).read()
            progs.append({"origin": f"corpus:c01/{name}", "entry": "Main", "sources": srcs})
        elif name.endswith(".sam"):
            progs.append({"origin": f"corpus:c01/{name[:-4]}", "entry": "Main", "sources": {"Main": open(p).read()}})
    return progs + pc.corpus_dir_programs("c03") + pc.corpus_dir_programs("c02mir")


def observe(d, name, groups, jobs=8, fuel=20_000_000):
    """groups: [(programs, builds)].  MIR of every build (vh mir-json) joined with the recorded runs of the raw
    build on both back ends; all groups share one pool of processes.
    Returns per group (rows for MIRTrace.tla, the input programs by id)."""
    tasks = []
    for gi, (programs, builds) in enumerate(groups):
        for i, p in enumerate(programs):
            p["id"] = i
        per = max(1, min(jobs, (len(programs) + 3) // 4))
        for ci in range(per):
            chunk = programs[ci::per]
            if chunk:
                tasks.append((gi, ci, chunk, builds))

    def dump(t):
        gi, ci, chunk, builds = t
        inp = os.path.join(d, f"{name}-{gi}-mirin-{ci}.ndjson")
        outp = os.path.join(d, f"{name}-{gi}-mir-{ci}.ndjson")
        write_ndjson(inp, chunk)
        vh(["mir-json", "--in", inp, "--out", outp, "--builds", ",".join(builds)], timeout=3000)
        return gi, read_ndjson(outp)

    def run(t):
        gi, ci, chunk, builds = t
        inp = os.path.join(d, f"{name}-{gi}-mirobsin-{ci}.ndjson")
        outp = os.path.join(d, f"{name}-{gi}-mirobs-{ci}.ndjson")
        write_ndjson(inp, chunk)
        vh(["run-programs", "--in", inp, "--out", outp, "--builds", "raw", "--backends", "wasm,ts", "--fuel", fuel], timeout=3000)
        return gi, read_ndjson(outp)

    # largest chunks first
    tasks.sort(key=lambda t: -len(t[2]) * len(t[3]))
    with ThreadPoolExecutor(max_workers=2 * jobs) as ex:
        fd = [ex.submit(dump, t) for t in tasks]
        fr = [ex.submit(run, t) for t in tasks]
        dumped = [f.result() for f in fd]
        ran = [f.result() for f in fr]
    out = []
    for gi, (programs, builds) in enumerate(groups):
        rows = [r for g, rs in dumped if g == gi for r in rs]
        recs = [r for g, rs in ran if g == gi for r in rs]
        obs = {}
        for r in recs:
            o = {}
            b = r.get("builds", {}).get("raw", {})
            if b.get("status") == "ok":
                for k in ("wasm", "ts"):
                    if k in b:
                        o[k] = {"out": b[k]["out"], "end": b[k]["end"]}
            obs[r["id"]] = (o, r.get("front"))
        for r in rows:
            o, front = obs.get(r["id"], ({}, None))
            if front is not None and front != r["front"]:
                tool_failure(f"mir-json and run-programs disagree on acceptance of {r.get('origin')}: {r['front']} vs {front}")
            r["obs"] = o
            r.pop("names", None)
        rows.sort(key=lambda r: r["id"])
        out.append((rows, {p["id"]: p for p in programs}))
    return out


def judge(d, name, rows, budget, chunks=1, workers=8, timeout=2400, profile=False, cfg="MIRTrace.cfg"):
    """TLC on MIRTrace.tla; returns ({id: merged verdict}, TlcResult).  The bulk run (MIRTrace.cfg) reports the
    verdicts as data; MIRTraceVerdict.cfg checks invariant C02 (used on single programs: TLC reconstructs an
    error trace per violation, which re-reads the whole trace file)."""
    tr = os.path.join(d, f"{name}-mirtrace.ndjson")
    write_ndjson(tr, rows)
    res = tlc("MIRTrace", cfg, env={"TRACE": tr, "NROWS": len(rows), "BUDGET": budget, "CHUNKS": chunks, "PROFILE": "1" if profile else "0"},
              workers=workers, timeout=timeout, tag=f"c02mir-{name}", extra=["-continue"], xmx="12g")
    parts = {}
    try:
        for v in behaviours_from(res, "RESULT"):
            parts.setdefault(v["id"], {})[v["chunk"]] = v
    except (ValueError, KeyError) as e:
        log(res.out[-2000:])
        tool_failure(f"cannot read the verdicts printed by MIRTrace.tla: {e}")
    order = {r["id"]: r.get("order", []) for r in rows}
    verdicts = {}
    for pid, cs in parts.items():
        if len(cs) != chunks:
            continue
        v = dict(cs[1])
        v["refRuns"] = len(cs)     # the reference run is evaluated once per group
        v["nAll"] = sum(c["n"] for c in cs.values())
        pos = {b: i for i, b in enumerate(order[pid])}
        bs = sorted((b for c in cs.values() for b in c["builds"]), key=lambda b: pos.get(b["b"], 0))
        v["builds"] = bs
        bad = [b for b in bs if b["v"] == "differs"]
        if bad:
            v["verdict"], v["first"], v["why"] = "violation", bad[0]["b"], bad[0]["why"]
        seen = set()
        for c in cs.values():
            seen |= set(c.get("seen", []))
        v["seen"] = sorted(seen)
        verdicts[pid] = v
    return verdicts, res


class Tally:
    def __init__(self):
        self.offered = 0
        self.accepted = 0
        self.judged = 0
        self.ok = 0
        self.nodes = 0
        self.excluded = {}
        self.tool = {}
        self.per_build = {}
        self.drift = {"wasm": {}, "ts": {}}
        self.drifts = []
        self.violations = []
        self.by_source = {}
        self.samples = []
        self.rules = set()
        self.tlc_wall = 0.0
        self.tlc_states = 0
        self.build_runs = 0

    def add(self, source, rows, programs, verdicts):
        src = self.by_source.setdefault(source, {"programs": 0, "ok": 0, "excluded": 0, "tool": 0, "violation": 0, "skipped": 0, "nodes": 0})
        for row in rows:
            v = verdicts[row["id"]]
            self.offered += 1
            src["programs"] += 1
            src["nodes"] += v["nAll"]
            self.nodes += v["nAll"]
            self.rules |= set(v.get("seen", []))
            kind = v["verdict"]
            src[kind] = src.get(kind, 0) + 1
            if kind != "skipped":
                self.accepted += 1
            if kind == "excluded":
                self.excluded[v["why"]] = self.excluded.get(v["why"], 0) + 1
            elif kind == "tool":
                self.tool[v["why"]] = self.tool.get(v["why"], 0) + 1
                log(f"[c02mir] evaluator could not decide {row['origin']}: {v['why']}")
            elif kind in ("ok", "violation"):
                self.judged += 1
                for b in v["builds"]:
                    pb = self.per_build.setdefault(b["b"], {"same": 0, "differs": 0, "skip": {}})
                    if b["v"] == "skip":
                        pb["skip"][b["why"]] = pb["skip"].get(b["why"], 0) + 1
                    else:
                        pb[b["v"]] += 1
                        self.build_runs += 1
                for k in ("wasm", "ts"):
                    self.drift[k][v[k]] = self.drift[k].get(v[k], 0) + 1
                    if v[k] == "differs":
                        self.drifts.append((row, k, v))
                if kind == "ok":
                    self.ok += 1
                    if src["ok"] == 1 and len(self.samples) < 6:
                        self.samples.append({"origin": row["origin"], "statements_executed_reference": v["refN"], "lines": v["refLines"],
                                             "end": v["refEnd"], "builds_same": [b["b"] for b in v["builds"] if b["v"] == "same"][:20]})
                else:
                    self.violations.append((row, v, programs[row["id"]]))


def check_batch(tally, d, name, groups, chunks=1, workers=8, jobs=8):
    """groups: [(source, programs, builds, budget, profile)] — observed group by group, judged by ONE run of TLC"""
    groups = [g for g in groups if g[1]]
    if not groups:
        return
    t = time.time()
    rows, by_id, source_of = [], {}, {}
    observed = observe(d, name, [(g[1], g[2]) for g in groups], jobs=jobs)
    for (source, programs, builds, budget, profile), (rs, ps) in zip(groups, observed):
        for r in rs:
            new_id = len(rows)
            by_id[new_id] = ps[r["id"]]
            source_of[new_id] = source
            r["id"], r["budget"], r["prof"] = new_id, budget, bool(profile)
            rows.append(r)
    t1 = time.time()
    verdicts, res = judge(d, name, rows, 100_000, chunks=chunks, workers=workers)
    if len(verdicts) != len(rows):
        log(res.out[-4000:])
        tool_failure(f"MIRTrace.tla judged {len(verdicts)} of {len(rows)} programs of batch {name}: {res.error or res.violated}")
    tally.tlc_wall += res.wall
    tally.tlc_states += res.distinct
    for source in dict.fromkeys(source_of.values()):
        tally.add(source, [r for r in rows if source_of[r["id"]] == source], by_id, verdicts)
    log(f"[c02mir] {name}: {len(rows)} programs ({', '.join(f'{g[0]} {len(g[1])}x{len(g[2])} builds' for g in groups)}), "
        f"dump+run {t1 - t:.0f}s, TLC {res.wall:.0f}s, {sum(v['nAll'] for v in verdicts.values())} statements")


def report(tally):
    for row, k, v in tally.drifts[:20]:
        note = "" if k == "wasm" or v["wasm"] != "same" else "; the WebAssembly run agrees — differences between the two back ends are C04's subject (open finding negdiv: Math.floor)"
        log(f"MODEL-DRIFT property={PID} {row['origin']}: the {k} run of the raw build differs from MIR.tla's run of the raw MIR "
            f"(specified: {v['refLines']} lines, end {v['refEnd']}){note}")
    for row, v, prog in tally.violations[:8]:
        # the verdict proper: invariant C02 of MIRTrace.tla on this program alone
        one = dict(row, id=0)
        _, res = judge(outdir(PID), "mirverdict", [one], one.get("budget", 3_000_000), chunks=1, workers=2, cfg="MIRTraceVerdict.cfg")
        if res.violated != "C02":
            log(res.out[-3000:])
            tool_failure(f"MIRTrace.tla reported a violation for {row['origin']} in the bulk run but invariant C02 holds on the program alone")
        first = next(b for b in v["builds"] if b["b"] == v["first"])
        case = {"source": row["origin"], "program": {k: prog[k] for k in ("origin", "entry", "sources") if k in prog},
                "with_std": prog.get("with_std", True), "builds": row.get("order", [])}
        path = save_replay(PID, "mir-program", case,
                           {"decided_by": "MIRTrace.tla invariant C02 (MIR!Run of the raw MIR)", "reference_lines": v["refLines"], "reference_end": v["refEnd"]},
                           {"first_differing_build": v["first"], "how": v["why"], "end": first.get("gotEnd"), "lines": first.get("gotLines"),
                            "line": first.get("gotLine"), "builds": {b["b"]: b["v"] + (":" + b["why"] if b["why"] else "") for b in v["builds"]}})
        log(f"[c02mir] {row['origin']}: first build whose MIR behaves differently: {v['first']} ({v['why']}); "
            f"differing builds: {[b['b'] for b in v['builds'] if b['v'] == 'differs']}")
        report_violation(PID, path)
    return len(tally.violations)


def run_mir(tier, d, stats):
    """-> (number of violations, coverage dict).  Tool problems end the check through tool_failure (exit 2)."""
    t0 = time.time()
    build_harness()
    quick = tier == "quick"
    tally = Tally()
    builds = QUICK_BUILDS if quick else THOROUGH_BUILDS
    gen = []
    n = 200 if quick else 3200
    for prof, share in (("loops", 0.35), ("mixed", 0.3), ("closures", 0.15), ("enums", 0.2)):
        gen.append((f"gen:{prof}", pc.generated_programs(d, max(1, int(n * share)), SEED + 7, prof)))
    repo = pc.repo_programs()[1:]
    if quick:
        # one run of TLC: the hand-written corpora (every rule of the evaluator must be exercised there),
        # generated programs, every second repository test wrapper under the builds that change the most
        check_batch(tally, d, "quick",
                    [("corpus", corpus_programs(), builds, 400_000, True)]
                    + [(src, progs, builds, 200_000, False) for src, progs in gen]
                    + [("repo", repo[::2], ["raw", "pass:ccp+loop", "pass:inlining+ccp", "opt:0", "opt:31"], 100_000, False)],
                    chunks=2)
    else:
        check_batch(tally, d, "corpus", [("corpus", corpus_programs(), builds, 3_000_000, True)], chunks=4)
        for src, progs in gen:
            for i in range(0, len(progs), 400):
                check_batch(tally, d, f"{src[4:]}-{i}", [(src, progs[i:i + 400], builds, 1_000_000, False)], chunks=1)
        check_batch(tally, d, "repo", [("repo", repo, builds, 3_000_000, False)], chunks=6)
    missing = sorted(REQUIRED_RULES - tally.rules)
    rules = sorted(tally.rules)
    fails = report(tally)
    stats["tlc_states"] = stats.get("tlc_states", 0) + tally.tlc_states
    undecided = sum(tally.tool.values())
    coverage = {
        "mir_programs_offered": tally.offered, "mir_programs_accepted": tally.accepted,
        "mir_programs_judged": tally.judged, "mir_programs_ok": tally.ok,
        "mir_optimised_build_runs_compared": tally.build_runs,
        "mir_builds": builds,
        "mir_per_build": tally.per_build,
        "mir_excluded_by_reason": tally.excluded,
        "mir_evaluator_undecided_by_reason": tally.tool,
        "mir_statements_executed": tally.nodes,
        "mir_statements_per_second_all_workers": int(tally.nodes / tally.tlc_wall) if tally.tlc_wall else 0,
        "mir_tlc_wall_s": round(tally.tlc_wall, 1), "mir_tlc_states": tally.tlc_states,
        "mir_raw_run_vs_back_ends": tally.drift,
        "mir_drift": {"wasm": sum(1 for _, k, _ in tally.drifts if k == "wasm"),
                      "ts_only": sum(1 for _, k, v in tally.drifts if k == "ts" and v["wasm"] != "differs")},
        "mir_by_source": tally.by_source,
        "mir_rules_exercised_by_corpus": rules,
        "mir_samples": tally.samples,
        "mir_wall_s": round(time.time() - t0, 1),
    }
    if missing and not fails:
        tool_failure(f"vacuity: MIR evaluation rules never exercised by the corpus: {missing}")
    if undecided > max(2, tally.accepted // 20):
        tool_failure(f"MIR.tla could not evaluate {undecided} programs (stuck / unsupported): {tally.tool}")
    return fails, coverage


def replay(case):
    """case of kind mir-program -> 1 if it still violates"""
    d = outdir(PID)
    p = dict(case["case"]["program"])
    p["with_std"] = case["case"].get("with_std", True)
    tally = Tally()
    check_batch(tally, d, "mirreplay", [("replay", [p], case["case"].get("builds") or THOROUGH_BUILDS, 30_000_000, False)], chunks=4, workers=4, jobs=1)
    for s in tally.by_source.values():
        log(f"[c02mir] replay: {s}")
    return 1 if report(tally) else 0


def main_dev():
    """python3 checks/c02mir.py FILE.sam|DIR... : evaluate programs under every build, print the verdicts (development aid)"""
    d = outdir(PID)
    progs = []
    for p in sys.argv[1:]:
        if os.path.isdir(p):
            srcs = {}
            for root, _, files in os.walk(p):
                for f in sorted(files):
                    if f.endswith(".sam"):
                        srcs[os.path.relpath(os.path.join(root, f), p)[:-4].replace(os.sep, ".")] = open(os.path.join(root, f)).read()
            progs.append({"origin": p, "entry": "Main", "sources": srcs})
        else:
            progs.append({"origin": p, "entry": "Main", "sources": {"Main": open(p).read()}})
    builds = os.environ.get("BUILDS", ",".join(THOROUGH_BUILDS)).split(",")
    rows, by_id = observe(d, "dev", [(progs, builds)], jobs=min(8, len(progs)))[0]
    verdicts, res = judge(d, "dev", rows, int(os.environ.get("BUDGET", "3000000")), chunks=int(os.environ.get("CHUNKS", "4")))
    for r in rows:
        v = verdicts.get(r["id"])
        print(r["origin"], r["front"], v and {k: v[k] for k in ("verdict", "why", "first", "refEnd", "refLines", "wasm", "ts", "nAll")})
        if v:
            print("   ", [(b["b"], b["v"], b["why"]) for b in v["builds"] if b["v"] != "same"])
    print(f"tlc wall {res.wall:.1f}s")
    if not verdicts or os.environ.get("SHOW"):
        print(res.out[-3000:])


if __name__ == "__main__":
    sys.path.insert(0, os.path.join(VERIF, "lib"))
    main_dev()
