"""C17 — the interning heap is injective, stable and never reclaims a live string.
Decided by spec/Heap.tla: (1) TLC model-checks the bounded model exhaustively; (2) [BR] TLC-generated
behaviours are executed on the real Heap; (3) [TV] a seeded random driver runs the real Heap; every
recorded trace is judged by spec/HeapTrace.tla — verdict mode (property layer on the observed
transitions) decides, strict mode (every step is the named Heap.tla action) only reports drift."""
import json, os, time
from vlib import *

PID = "C17"
ACTIONS = ["AllocString", "AllocStatic", "AllocTemp", "AllocModuleRef", "AllocModuleRefStr", "AddUnmarked",
           "PopUnmarked", "Mark", "Sweep", "CreateCounter", "CounterAlloc", "SyncCounter"]


def validate(trace, tag):
    """Returns (verdict_result, strict_result)."""
    env = {"TRACE": trace, "TRACE_HDR": trace + ".hdr"}
    v = tlc("HeapTrace", "HeapTraceVerdict.cfg", env=env, deque=True, tag=f"c17v-{tag}", timeout=1500)
    s = tlc("HeapTrace", "HeapTraceStrict.cfg", env=env, deque=True, tag=f"c17s-{tag}", timeout=1500)
    return v, s


def judge(trace, tag, stats, source):
    rows = read_ndjson(trace)
    v, s = validate(trace, tag)
    stats["events"] += len(rows)
    stats["traces"] += 1 + sum(1 for r in rows if r["ev"] == "Reset")
    stats["tlc_states"] += v.generated + s.generated
    if v.violated:
        l = v.last_l() or 1
        # the run that contains the failing line
        start = max([i for i in range(l - 1) if rows[i]["ev"] == "Reset"] + [-1]) + 1
        prefix = rows[start:l - 1]
        ops = [event_to_op(r) for r in prefix]
        path = save_replay(PID, "heap-trace", {"source": source, "ops": ops, "events": prefix[-3:]},
                           f"property layer of Heap.tla holds ({v.violated})",
                           f"{v.violated} violated after event {l - 1} ({prefix[-1]['ev'] if prefix else '?'})")
        report_violation(PID, path)
        return 1
    if not v.ok:
        log(v.out[-3000:])
        tool_failure(f"HeapTrace verdict run failed on {trace}: {v.error}")
    if not s.ok or s.violated:
        stats["drift"] += 1
        log(f"MODEL-DRIFT: {source}: implementation step not explained by Heap.tla "
            f"({s.violated or s.error}); first unmatched: {[p for p in s.printed if p[0]=='UNMATCHED'][:1]}")
    return 0


def scripted_histories():
    S, T = "a-rather-long-identifier-name", "AnotherVeryLongClassNameForTests"
    H1, H2 = {"t": "id", "i": 1}, {"t": "id", "i": 2}
    out = []
    for route in ("AllocString", "AllocStatic"):
        for premark in (False, True):
            for again in (None, "AllocStatic", "AllocString"):
                for module in (None, "AllocModuleRef", "AllocModuleRefStr"):
                    for pending in (False, True):
                        for passes in (1, 2, 3):
                            for unit in ("whole", "one"):
                                ops = [{"op": route, "s": S}, {"op": "AllocString", "s": T}]
                                if premark:
                                    ops.append({"op": "Mark", "h": H1})
                                if again:
                                    ops.append({"op": again, "s": S})
                                if module == "AllocModuleRef":
                                    ops.append({"op": "AllocModuleRef", "parts": [H1]})
                                elif module == "AllocModuleRefStr":
                                    ops.append({"op": "AllocModuleRefStr", "ss": [S]})
                                if pending:
                                    ops += [{"op": "AddUnmarked", "m": 1}, {"op": "PopUnmarked"}]
                                for k in range(passes):
                                    if unit == "whole":
                                        ops.append({"op": "Sweep", "w": 1000000})
                                    else:
                                        ops += [{"op": "Sweep", "w": 1}] * 3
                                    if k == 0:
                                        ops.append({"op": "Mark", "h": H2})      # the bystander is re-marked once
                                ops.append({"op": "AllocString", "s": S})        # asking for the string again
                                out.append(ops)
    return out


def event_to_op(e):
    op = {"op": e["ev"]}
    for k in ("s", "ss", "parts", "m", "h", "w"):
        if k in e:
            op[k] = e[k]
    return op


def coverage_counts(out):
    import re
    c = {}
    for m in re.finditer(r"^<(\w+) line .*?>: (\d+):(\d+)", out, re.M):
        c[m.group(1)] = c.get(m.group(1), 0) + int(m.group(3))
    return c


def run(tier):
    t0 = time.time()
    d = outdir(PID)
    build_harness()
    stats = {"events": 0, "traces": 0, "tlc_states": 0, "drift": 0}
    # 1. exhaustive model checking of the bounded design
    cfg = "HeapMCquick.cfg" if tier == "quick" else "HeapMC.cfg"
    if os.environ.get("VERIF_DEV_SKIP_MC"):   # development aid only: never set by MANIFEST commands
        cfg = "HeapMCtiny.cfg"
    mc = tlc("Heap", cfg, workers=8, timeout=3000, coverage=True, xmx="16g", tag="c17mc")
    tlc_must_pass(mc, "Heap.tla model checking")
    # the same design with ordinary allocations allowed while a counter is outstanding (the inliner does that: the
    # table can then be longer than the counter at sync_temp_counter), at a smaller bound
    mcc = tlc("Heap", "HeapMCcounter.cfg", workers=8, timeout=1500, xmx="8g", tag="c17mcc")
    tlc_must_pass(mcc, "Heap.tla model checking (allocations while a counter is outstanding)")
    cov = coverage_counts(mc.out)
    never = [a for a in ["AllocString", "AllocStatic", "AllocModuleRefStr", "AddUnmarked", "PopUnmarked",
                         "Sweep", "CreateCounter", "SyncCounter"] if cov.get(a, 0) == 0]
    if never:
        tool_failure(f"vacuity: actions never taken in the bounded model: {never}")
    fails = 0
    samples = []
    # 2. [BR] behaviours generated by TLC from the specification, executed on the real heap
    depth = 3 if tier == "quick" else 4
    gen = tlc("HeapGen", "HeapGen3.cfg" if tier == "quick" else "HeapGen.cfg", workers=4, timeout=1500, tag="c17gen")
    tlc_must_pass(gen, "HeapGen exhaustive")
    behs = behaviours_from(gen)
    sim = tlc("HeapGen", "HeapGenSim.cfg", workers=1, timeout=900, tag="c17sim",
              simulate=(f"num={200 if tier == 'quick' else 1500}", 41), extra=["-seed", str(SEED)])
    sim_behs = behaviours_from(sim)
    if tier == "quick":
        sim_behs = sim_behs[:1500]
    if not behs or not sim_behs:
        tool_failure("behaviour generation produced nothing")
    log(f"[c17] model checked and behaviours generated at {time.time() - t0:.0f}s: {len(behs)} exhaustive, {len(sim_behs)} simulated")
    # trace files are kept small (one TLC run each, validated four at a time): validation time grows faster than
    # linearly with the length of a file
    jobs = []
    per_file = {"bfs": 4000, "sim": 250}
    for name, bs in (("bfs", behs), ("sim", sim_behs)):
        for ci in range(0, len(bs), per_file[name]):
            tag = f"{name}{ci // per_file[name]}"
            write_ndjson(os.path.join(d, f"ops-{tag}.ndjson"), bs[ci:ci + per_file[name]])
            out, _ = vh(["heap-replay", "--ops", os.path.join(d, f"ops-{tag}.ndjson"),
                         "--out", os.path.join(d, f"trace-{tag}.ndjson")])
            info = json.loads(out)
            stats.setdefault("not_executable", 0)
            stats["not_executable"] += info["not_executable"]
            jobs.append((os.path.join(d, f"trace-{tag}.ndjson"), tag, f"TLC-generated behaviours ({tag})"))
    samples.append({"tlc_behaviour": sim_behs[0][:8]})
    # 2b. a systematic product of short histories around ONE long string: allocation route x marked before or not x
    #     promoted again or not x made a module part (by handle / by text) or not x a module pending or not x
    #     one, two or three sweeper passes (whole-table units or unit 1), with a second string as a bystander
    scripts = scripted_histories()
    write_ndjson(os.path.join(d, "ops-scripts.ndjson"), scripts)
    out, _ = vh(["heap-replay", "--ops", os.path.join(d, "ops-scripts.ndjson"), "--out", os.path.join(d, "trace-scripts.ndjson")])
    stats["not_executable"] += json.loads(out)["not_executable"]
    jobs.append((os.path.join(d, "trace-scripts.ndjson"), "scripts", "scripted product of short histories"))
    # 3. [TV] seeded random driver on the real heap
    runs, ln = (60, 80) if tier == "quick" else (1200, 120)
    chunk = 60 if tier == "quick" else 100
    done = 0
    k = 0
    while done < runs:
        n = min(chunk, runs - done)
        tr = os.path.join(d, f"trace-rand-{k}.ndjson")
        vh(["heap-drive", "--seed", SEED + k, "--runs", n, "--len", ln, "--out", tr])
        jobs.append((tr, f"rand{k}", f"random driver seed={SEED + k}"))
        if k == 0:
            rows = read_ndjson(tr)
            samples.append({"random_trace_ops": [event_to_op(r) for r in rows[:10]]})
        done += n
        k += 1
    from concurrent.futures import ThreadPoolExecutor
    with ThreadPoolExecutor(max_workers=4) as ex:
        fails += sum(ex.map(lambda j: judge(j[0], j[1], stats, j[2]), jobs))
    log(f"[c17] {len(jobs)} trace files validated at {time.time() - t0:.0f}s")
    coverage = {
        "states": mc.distinct, "transitions": mc.generated,
        "traces_validated_against_impl": stats["traces"],
        "samples": samples,
        "model_config": cfg, "model_depth": mc.depth, "states_with_allocations_during_counter": mcc.distinct,
        "action_coverage": {a: cov.get(a, 0) for a in cov if a[0].isupper() and a not in ("Init", "Next", "Bounded")},
        "tlc_generated_behaviours": {"exhaustive_depth": depth, "exhaustive": len(behs), "simulated_len40": len(sim_behs)},
        "trace_events_validated": stats["events"],
        "trace_states_checked_by_tlc": stats["tlc_states"],
        "model_drift_traces": stats["drift"],
        "behaviours_not_executable_on_impl": stats.get("not_executable", 0),
        "exhaustive": False,
    }
    write_evidence(PID, tier, "model_checking", coverage,
                   ["hook H1 (verif_hooks::dump) reports the heap's private tables faithfully",
                    "string universe per run is small (<= 5 long strings); strings are classified long/short by byte length",
                    "TLC 1.8.0 and the CommunityModules Json/IOUtils overrides are correct"],
                   time.time() - t0, fails)
    return 1 if fails else 0


def replay(path):
    """Re-executes the operations of a replay file on the current build and re-validates."""
    d = outdir(PID)
    case = json.load(open(path))["case"]
    write_ndjson(os.path.join(d, "ops-replay.ndjson"), [case["ops"]])
    vh(["heap-replay", "--ops", os.path.join(d, "ops-replay.ndjson"), "--out", os.path.join(d, "trace-replay.ndjson")])
    stats = {"events": 0, "traces": 0, "tlc_states": 0, "drift": 0}
    return judge(os.path.join(d, "trace-replay.ndjson"), "replay", stats, "replay")
