"""C12 — compilation results depend only on the sources, not on hashing or scheduling.
Design level (TLC, exhaustive in small bounds): spec/Sched.tla (temporary names drawn from the shared atomic
counter are distinct and fresh under every interleaving of the optimiser's workers; the merged, ordered
error set renders independently of the order in which checker workers finish), spec/Heap.tla's counter
protocol (TempNamesDistinct, part of C17's model) and spec/EnumLayout.tla (the enum layout is sound under
every order in which types are met).  Code level: every program is compiled and run again in fresh processes
(fresh hash seeds) with RAYON_NUM_THREADS in {1, 2, 3, 8, 16}; spec/Observations.tla (invariant C12)
accepts the recorded repetitions iff verdict, rendered diagnostics and the observable behaviour of both
back ends are identical across them.  The programs are compiled by the compiler's own driver
(samlang_compiler::compile_sources, build "api"), as the CLI does.

Programs: generated ones, the repository's samples, variants with several independent errors, the hand-written
corpus of diagnostics that choose among candidates (corpus/c12), single-fault mutants of every kind of C06's fault
model, and EnumLayout.tla's declaration sets split over two entry modules that meet the enums in opposite orders."""
import json, os, time
from vlib import *
import progcommon as pc
import enumlayout

PID = "C12"


def corpus_programs():
    out = []
    base = os.path.join(VERIF, "corpus", "c12")
    for name in sorted(os.listdir(base)):
        pth = os.path.join(base, name)
        if os.path.isdir(pth):
            srcs = {}
            for root, _, files in os.walk(pth):       # the module name is the relative path
                for f in sorted(files):
                    if f.endswith(".sam"):
                        srcs[os.path.relpath(os.path.join(root, f), pth)[:-4].replace(os.sep, ".")] = open(os.path.join(root, f)).read()
            out.append({"origin": f"corpus:c12/{name}", "entry": "Main", "sources": srcs})
        elif name.endswith(".sam"):
            out.append({"origin": f"corpus:c12/{name[:-4]}", "entry": "Main", "sources": {"Main": open(pth).read()}})
    return out


def canonical_blocks(rendered):
    """the rendered diagnostics with the per-error blocks sorted by (module, line, column) — what stays of the text when
    the order of the modules is ignored (open finding error-blocks-in-interning-order)"""
    if not rendered:
        return rendered
    import re
    parts = re.split(r"(?m)^(?=Error -+ )", rendered)
    head, blocks = parts[0], parts[1:]
    tail = ""
    if blocks:
        m = re.search(r"(?m)^Found \d+ errors?\.\s*$", blocks[-1])
        if m:
            blocks[-1], tail = blocks[-1][:m.start()], blocks[-1][m.start():]

    def key(b):
        m = re.match(r"Error -+ (\S+?):(\d+):(\d+)", b)
        return (m.group(1), int(m.group(2)), int(m.group(3))) if m else ("", 0, 0)
    return head + "".join(sorted(blocks, key=key)) + tail


def broken_variants(programs, k):
    """rejected programs (so that rendered diagnostics are compared): several independent errors in several modules"""
    out = []
    for p in programs[:k]:
        q = json.loads(json.dumps(p))
        srcs = q["sources"]
        for j, m in enumerate(sorted(srcs)):
            if m.startswith("std."):
                continue
            srcs[m] = srcs[m] + f"\nclass VerifBroken{j} {{\n  function a(): int = \"s\"\n  function b(): Str = 3\n  function c(): int = VerifNoSuchClass{j}.f()\n}}\n"
        q["origin"] = p["origin"] + "+errors"
        out.append(q)
    return out


def run(tier):
    t0 = time.time()
    d = outdir(PID)
    build_harness()
    stats = {}
    fails = 0
    sc = tlc("SchedMC", "SchedMC.cfg", workers=4, timeout=600, tag="c12sched")
    tlc_must_pass(sc, "Sched.tla model checking")
    lf, lcov = enumlayout.run_layout(PID, tier, d, stats) if tier != "quick" else (0, {})
    el = tlc("EnumLayoutMC", "EnumLayoutMC.cfg", workers=8, timeout=1500, tag="c12el")
    tlc_must_pass(el, "EnumLayout.tla model checking")
    fails += lf
    n = 24 if tier == "quick" else 300
    programs = []
    for prof, share in (("mixed", 0.5), ("enums", 0.25), ("closures", 0.25)):
        programs += pc.generated_programs(d, max(1, int(n * share)), SEED + 12, prof)
    repo = pc.repo_programs()
    programs += repo[:1] if tier == "quick" else repo[:12]
    programs += broken_variants(programs, 8 if tier == "quick" else 80)
    # diagnostics that pick one of several candidates or list several names (corpus/c12: rejected on purpose)
    programs += corpus_programs()
    # every kind of single fault of C06's fault model, for the variety of diagnostics
    base = pc.generated_programs(d, 6 if tier == "quick" else 60, SEED + 112, "mixed")
    for i, p in enumerate(base):
        p["id"] = i
    write_ndjson(os.path.join(d, "fault-in.ndjson"), base)
    vh(["mutate", "--in", os.path.join(d, "fault-in.ndjson"), "--out", os.path.join(d, "fault-mutants.ndjson"),
        "--per-program", 12 if tier == "quick" else 40, "--full", "--seed", SEED + 212], timeout=3000)
    programs += read_ndjson(os.path.join(d, "fault-mutants.ndjson"))
    # mutually recursive enum declarations met in opposite orders by two entry modules (EnumLayout.tla's two
    # processing orders, left to the order in which the compiler enumerates the modules)
    lcases = [c for c in enumlayout.layout_cases(PID, "quick") if c["e1"] and c["e2"]]
    lcases.sort(key=lambda c: not enumlayout.mutually_recursive(c))
    for c in lcases[:(12 if tier == "quick" else 150)]:
        programs += enumlayout.two_entry_programs(c)
    threads = [1, 2, 3, 8, 16]
    reps_per = 1 if tier == "quick" else 3
    runs = []
    for t in threads:
        for rep in range(reps_per):
            recs = pc.run_programs(d, f"t{t}r{rep}", json.loads(json.dumps(programs)), ["api"], jobs=4,
                                   env={"RAYON_NUM_THREADS": str(t)})
            runs.append(recs)
    rows = []
    kf = next((k for k in known_findings(PID) if k.get("region") == "error-blocks-in-interning-order"), None)
    excused = 0
    for i in range(len(programs)):
        reps = [{k: v for k, v in r[i].items() if k in ("front", "rendered", "builds", "crash")} for r in runs]
        if kf and len({r.get("rendered") for r in reps}) > 1 and len({canonical_blocks(r.get("rendered")) for r in reps}) == 1:
            # known finding: the same error blocks, the modules in another order
            excused += 1
            for r in reps:
                r["rendered"] = canonical_blocks(r.get("rendered"))
        rows.append({"id": i, "origin": programs[i]["origin"], "front": runs[0][i].get("front"), "reps": reps})
    if kf:
        if excused:
            report_known(PID, f"{kf['what']} [{excused} programs of this run differ only in that order]")
        else:
            log("[c12] the open finding error-blocks-in-interning-order did not show in this run")
    tr = os.path.join(d, "c12-trace.ndjson")
    write_ndjson(tr, rows)
    v = tlc("Observations", "ObsC12.cfg", env={"TRACE": tr}, deque=True, tag="c12obs", timeout=3000, xmx="8g")
    if v.violated:
        l = (v.last_l() or 2) - 1
        bad = rows[l - 1]
        diff = [i for i, r in enumerate(bad["reps"]) if json.dumps(r, sort_keys=True) != json.dumps(bad["reps"][0], sort_keys=True)]
        path = save_replay(PID, "program", {"program": {k: programs[l - 1][k] for k in ("origin", "entry", "sources")},
                                            "with_std": programs[l - 1].get("with_std", True)},
                           "all repetitions agree", {"differing_repetitions": diff[:3],
                                                     "first": bad["reps"][0].get("rendered", "")[:2000],
                                                     "other": bad["reps"][diff[0]].get("rendered", "")[:2000] if diff else None})
        report_violation(PID, path)
        fails += 1
    elif not v.ok:
        log(v.out[-3000:])
        tool_failure(f"Observations C12 failed: {v.error}")
    distinct = len({json.dumps(p["sources"], sort_keys=True) for p in programs})
    coverage = {
        "evaluations": len(programs) * len(runs), "distinct_nontrivial": distinct,
        "rule": "each program compiled+run in len(threads) x reps fresh processes; non-trivial = distinct source text; "
                "accepted programs compare behaviour of both back ends, rejected ones compare the rendered diagnostics byte for byte",
        "samples": [{"origin": rows[0]["origin"], "front": rows[0]["front"], "repetitions": len(rows[0]["reps"])},
                    {"origin": rows[-1]["origin"], "front": rows[-1]["front"], "rendered_prefix": (rows[-1]["reps"][0].get("rendered") or "")[:300]}],
        "threads": threads, "repetitions_per_thread_count": reps_per,
        "rejected_programs": sum(1 for r in rows if r["front"] == "rejected"),
        "sched_model_states": sc.distinct, "enum_layout_model_states": el.distinct,
        "trace_states_checked_by_tlc": v.generated,
    }
    coverage.update(lcov)
    write_evidence(PID, tier, "exploration", coverage,
                   ["fresh processes give fresh RandomState seeds (std HashMap) — iteration orders are sampled, not enumerated",
                    "rayon's global pool honours RAYON_NUM_THREADS; interleavings are sampled on the code and exhaustive only on Sched.tla",
                    "emitted text may differ between runs (temporary numbering); the property compares behaviour"],
                   time.time() - t0, fails)
    return 1 if fails else 0


def replay(path):
    case = json.load(open(path))["case"]
    p = case["program"]
    p["with_std"] = case.get("with_std", True)
    d = outdir(PID)
    runs = [pc.run_programs(d, f"rp{t}", [json.loads(json.dumps(p))], ["api"], jobs=1, env={"RAYON_NUM_THREADS": str(t)}) for t in (1, 2, 3, 8, 16)]
    rows = [{"id": 0, "origin": p["origin"], "front": runs[0][0].get("front"),
             "reps": [{k: v for k, v in r[0].items() if k in ("front", "rendered", "builds", "crash")} for r in runs]}]
    tr = os.path.join(d, "c12-replay.ndjson")
    write_ndjson(tr, rows)
    v = tlc("Observations", "ObsC12.cfg", env={"TRACE": tr}, deque=True, tag="c12rp")
    return 1 if v.violated else 0
