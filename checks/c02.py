"""C02 — optimisation passes never change what a program prints or how it terminates.
Decided by spec/Observations.tla (invariant C02): the runs of every optimisation configuration of a program
must equal the run of the unoptimised build on both back ends (excluded only when the *unoptimised* run is
implementation-defined), an optimisation must not crash the compiler nor make the module invalid; and by
spec/Arith.tla (FoldMatchesTarget: the constant folder's table equals the target's, TLC-exhaustive at a
small range) bound to the code by literal-operand programs judged by ArithTrace.tla (FoldOK)."""
import json, os, time
from vlib import *
import progcommon as pc
import c04

PID = "C02"
INT_MIN, INT_MAX = -2147483648, 2147483647
CMP = {"<": lambda a, b: a < b, "<=": lambda a, b: a <= b, ">": lambda a, b: a > b, ">=": lambda a, b: a >= b}


def shift_programs(tier):
    """`(x + c1) OP c2` with x read at run time and c1, c2 literals near and far from the range limits."""
    xs = [-7, 0, 5]
    c1s = [-2147483647, -10, -1, 1, 10, 2147483647] if tier == "quick" else [-2147483647, -2147483640, -65536, -10, -1, 1, 10, 65536, 2147483640, 2147483647]
    c2s = [INT_MIN, INT_MIN + 6, -3, 0, 4, INT_MAX - 5, INT_MAX]
    cases = [(op, x, c1, c2) for op in ("LT", "LE", "GT", "GE", "EQ", "NE") for x in xs for c1 in c1s for c2 in c2s
             if INT_MIN <= x + c1 <= INT_MAX]
    progs = []
    for i in range(0, len(cases), 200):
        cs = cases[i:i + 200]
        lines = [f'    Process.println(Str.fromInt(if (Main.v("{x}") + ({c1})) {c04.OPS[op]} ({c2}) {{ 1 }} else {{ 0 }}));' for (op, x, c1, c2) in cs]
        text = "class Main {\n  function v(s: Str): int = s.toInt()\n  function main(): unit = {\n" + "\n".join(lines) + "\n  }\n}\n"
        progs.append({"origin": "arith:shift", "entry": "Main", "sources": {"Main": text}, "kind": "shift", "cases": [list(c) for c in cs]})
    return progs


def chain_programs(tier):
    """`(x OP1 c1) OP2 c2` over the arithmetic operators with x read at run time: small, power-of-two and boundary literals
    (products and sums of the two literals that leave the 32-bit range included — the merged literal must not be formed)."""
    xs = [-2000000000, -100001, -7, 0, 1, 9, 65537, 2000000000] if tier == "quick" else \
         [INT_MIN, -2000000000, -100001, -65536, -7, -1, 0, 1, 9, 65537, 100000, 2000000000, INT_MAX]
    cs = [-100000, -65536, -3, -1, 1, 2, 7, 65536, 100000, 2147483647] if tier == "quick" else \
         [INT_MIN, -2147483647, -100000, -65536, -10, -3, -1, 1, 2, 3, 7, 10, 65536, 100000, 2147483640, 2147483647]
    cases = [(o1, o2, x, c1, c2) for o1 in c04.ARITH for o2 in c04.ARITH for x in xs for c1 in cs for c2 in cs]
    if tier == "quick":
        cases = cases[SEED % 3::3]
    progs = []
    for i in range(0, len(cases), 250):
        chunk = cases[i:i + 250]
        lines = [f'    Process.println(Str.fromInt((Main.v("{x}") {c04.OPS[o1]} ({c1})) {c04.OPS[o2]} ({c2})));' for (o1, o2, x, c1, c2) in chunk]
        # one function per line keeps a trap (division by zero, overflow is silent) from hiding the lines after it
        fns = [f"  function f{k}(): unit = {{\n{l}\n  }}" for k, l in enumerate(lines)]
        text = "class Main {\n  function v(s: Str): int = s.toInt()\n" + "\n".join(fns) + "\n  function main(): unit = {\n" + \
               "\n".join(f"    Main.f{k}();" for k in range(len(lines))) + "\n  }\n}\n"
        progs.append({"origin": "arith:chain", "entry": "Main", "sources": {"Main": text}, "kind": "chain", "cases": [list(c) for c in chunk]})
    return progs


def chain_rows(recs):
    """only the cases whose two steps are defined print a line every build must agree on; a program is cut at the first
    trapping case, so cases are kept only up to the first undefined one of each program"""
    rows = []
    for r in recs:
        if r.get("front") != "accepted":
            tool_failure(f"chain program rejected/crashed: {r.get('errors') or r.get('crash')}")
        b0, b31 = r["builds"].get("raw", {}), r["builds"].get("opt:31", {})
        for i, (o1, o2, x, c1, c2) in enumerate(r["cases"]):
            if chain_traps(o1, o2, x, c1, c2):
                break            # the run ends here on every build: the lines after it do not exist
            if not chain_defined(o1, o2, x, c1, c2):
                continue         # an overflow wraps silently: the line is there but the language does not fix it
            rows.append({"kind": "chain", "op": o1, "op2": o2, "x": x, "a": c1, "b": c2,
                         "wasm0": c04.line_or_end(b0.get("wasm"), i), "ts0": c04.line_or_end(b0.get("ts"), i),
                         "wasm31": c04.line_or_end(b31.get("wasm"), i), "ts31": c04.line_or_end(b31.get("ts"), i),
                         "status0": b0.get("status", "?"), "status31": b31.get("status", "?")})
    return rows


def _step(o, a, b):
    """(defined, value) of one arithmetic step in the source language (Arith.tla: SrcDefined / SrcVal)"""
    if o == "PLUS":
        v = a + b
    elif o == "MINUS":
        v = a - b
    elif o == "MUL":
        v = a * b
    elif o in ("DIV", "MOD"):
        if b == 0 or (o == "DIV" and a == INT_MIN and b == -1):
            return False, 0
        q = abs(a) // abs(b) * (1 if (a < 0) == (b < 0) else -1)
        v = q if o == "DIV" else a - q * b
    return INT_MIN <= v <= INT_MAX, v


def _wrap(v):
    return (v + 2 ** 31) % 2 ** 32 - 2 ** 31


def chain_traps(o1, o2, x, c1, c2):
    """whether the machine (32-bit wrap-around, trapping division) stops at this case"""
    def trap(o, a, b):
        return o in ("DIV", "MOD") and (b == 0 or (o == "DIV" and a == INT_MIN and b == -1))
    if trap(o1, x, c1):
        return True
    mid = _wrap(_step(o1, x, c1)[1])
    return trap(o2, mid, c2)


def chain_defined(o1, o2, x, c1, c2):
    ok, mid = _step(o1, x, c1)
    return ok and _step(o2, mid, c2)[0]


def shift_rows(recs):
    rows = []
    for r in recs:
        if r.get("front") != "accepted":
            tool_failure(f"shift program rejected/crashed: {r.get('errors') or r.get('crash')}")
        b0, b31 = r["builds"].get("raw", {}), r["builds"].get("opt:31", {})
        for i, (op, x, c1, c2) in enumerate(r["cases"]):
            rows.append({"kind": "shift", "op": op, "x": x, "a": c1, "b": c2,
                         "wasm0": c04.line_or_end(b0.get("wasm"), i), "ts0": c04.line_or_end(b0.get("ts"), i),
                         "wasm31": c04.line_or_end(b31.get("wasm"), i), "ts31": c04.line_or_end(b31.get("ts"), i),
                         "status0": b0.get("status", "?"), "status31": b31.get("status", "?")})
    return rows


def loop_cases(tier):
    """(shape, op, init, step, bound) whose loop terminates in the 32-bit range within 20000 iterations;
    bounds, strides and initial values near INT_MIN / INT_MAX included (LoopRules.tla's universe scaled up)."""
    inits = [INT_MIN, -2000000000, -1000, -7, 0, 5, 1000000000, 2000000000, INT_MAX]
    steps = [1, 3, 1000, 1000000, 7000000, 1000000000, 2 ** 30]
    bounds = [INT_MIN, -2000000000, -10, 0, 10, 1000, 2000000000, INT_MAX]
    if tier == "quick":
        inits = [INT_MIN, -2000000000, -7, 0, 2000000000]
        steps = [3, 1000000, 7000000, 2 ** 30]
        bounds = [-2000000000, 0, 1000, 2000000000, INT_MAX]
    cases = []
    for op in CMP:
        for i0 in inits:
            for s0 in steps:
                s = s0 if op in ("<", "<=") else -s0
                for b in bounds:
                    i, n, ok = i0, 0, True
                    while CMP[op](i, b):
                        i += s
                        n += 1
                        if n > 20000 or not (INT_MIN <= i <= INT_MAX):
                            ok = False
                            break
                    if ok and n > 0:
                        for shape in ("i", "j", "acc"):
                            cases.append((shape, op, i0, s, b))
    # derived induction variables (LoopIvElim.tla's universe): small values, both multiplier signs
    for op in CMP:
        for i0 in ([-22, 0, 17] if tier == "quick" else [-22, -5, 0, 3, 17]):
            for s0 in ([1, 2, 5] if tier == "quick" else [1, 2, 3, 5]):
                s = s0 if op in ("<", "<=") else -s0
                for b in [-25, -3, 0, 9, 30]:
                    i, n = i0, 0
                    while CMP[op](i, b) and n <= 60:
                        i += s
                        n += 1
                    if 0 < n <= 60:
                        for shape in ("div3", "divneg2", "divstr"):
                            cases.append((shape, op, i0, s, b))
    return cases


def loop_program(case):
    shape, op, i0, s, b = case
    if shape.startswith("div"):
        # the guarded variable is used only by the guard and one derived variable dv = m * i + c
        m, c = (3, 1) if shape == "div3" else (-2, 0) if shape == "divneg2" else (7, 0)
        if shape == "divstr":   # dv unused: the accumulator is a string (the shape Semantics.tla caught)
            body = f'function loop(i: int, acc: Str): Str = if i {op} ({b}) {{ let dv = (i * {m}) + {c}; Main.loop(i + ({s}), acc :: "x") }} else {{ acc }}'
            text = f'class Main {{\n  {body}\n  function main(): unit = Process.println("[" :: Main.loop({i0}, "") :: "]")\n}}\n'
        else:
            body = f"function loop(i: int, acc: int): int = if i {op} ({b}) {{ let dv = (i * ({m})) + {c}; Main.loop(i + ({s}), acc + dv) }} else {{ acc }}"
            text = f"class Main {{\n  {body}\n  function main(): unit = Process.println(Str.fromInt(Main.loop({i0}, 0)))\n}}\n"
        return {"origin": f"loop:{shape}:{op}:{i0}:{s}:{b}", "entry": "Main", "sources": {"Main": text}}
    if shape == "i":      # result is the guarded induction variable itself
        body = f"function loop(i: int): int = if i {op} ({b}) {{ Main.loop(i + ({s})) }} else {{ i }}"
        call = f"Main.loop({i0})"
    elif shape == "j":    # result is a second induction variable
        body = f"function loop(i: int, j: int): int = if i {op} ({b}) {{ Main.loop(i + ({s}), j + 3) }} else {{ j }}"
        call = f"Main.loop({i0}, 1)"
    else:                 # result is a count that depends on the number of iterations, with a derived variable
        body = f"function loop(i: int, acc: int): int = if i {op} ({b}) {{ Main.loop(i + ({s}), acc + 1) }} else {{ acc * 2 + 1 }}"
        call = f"Main.loop({i0}, 0)"
    text = f"class Main {{\n  {body}\n  function main(): unit = Process.println(Str.fromInt({call}))\n}}\n"
    return {"origin": f"loop:{shape}:{op}:{i0}:{s}:{b}", "entry": "Main", "sources": {"Main": text}}

SINGLE = [1, 2, 4, 8, 16]
ALL_BUT_ONE = [30, 29, 27, 23, 15]
# every pass once, in isolation, through hook H3 — in the normal form the pipeline guarantees it: each round
# runs constant propagation first, and scalar replacement / loop optimisation / CSE / LVN rely on that (on raw
# MIR the loop pass re-declares a derived variable twice, which is not a product defect: the pass never sees
# raw MIR); inlining leaves argument bindings for constant propagation to substitute afterwards
PASSES = ["pass:ccp", "pass:ccp+scalar_replacement", "pass:ccp+loop", "pass:ccp+cse", "pass:ccp+lvn", "pass:dce",
          "pass:ccp+dce", "pass:inlining+ccp", "pass:unused_name_elimination"]


def run(tier):
    t0 = time.time()
    d = outdir(PID)
    build_harness()
    stats = {}
    fails = 0
    # 1. the constant folder's table vs the target's, exhaustive at a small range
    mc = tlc("Arith", "ArithMC.cfg", workers=4, timeout=600, tag="c02mc")
    tlc_must_pass(mc, "Arith.tla model checking")
    # 2. literal-operand programs: optimised (folded) vs unoptimised (computed at run time)
    cases = c04.arith_cases(tier)
    progs = [p for p in c04.arith_programs(cases) if p["kind"] == "fold"]
    rows = c04.arith_trace(pc.run_programs(d, "fold", progs, [0, 31]))   # opt:0 still folds nothing away: CCP needs inlining to see the literals
    rows += shift_rows(pc.run_programs(d, "shift", shift_programs(tier), ["raw", 31]))
    rows += chain_rows(pc.run_programs(d, "chain", chain_programs(tier), ["raw", 31]))
    tr = os.path.join(d, "fold-trace.ndjson")
    write_ndjson(tr, rows)
    v = tlc("ArithTrace", "ArithTraceFold.cfg", env={"TRACE": tr}, deque=True, tag="c02at", timeout=1500)
    if v.violated:
        l = (v.last_l() or 2) - 1
        report_violation(PID, save_replay(PID, "fold-case", {"case": rows[l - 1]}, f"{v.violated} of ArithTrace.tla", rows[l - 1]))
        fails += 1
    elif not v.ok:
        log(v.out[-3000:])
        tool_failure(f"ArithTrace failed: {v.error}")
    # 2b. the loop optimiser's closed forms: LoopRules.tla exhaustively at a small range, then
    #     counting loops at the 32-bit range compiled with and without optimisation
    log(f"[c02] fold phase done at {time.time()-t0:.0f}s")
    lr = tlc("LoopRules", "LoopRulesMC.cfg", workers=8, timeout=900, tag="c02lr")
    tlc_must_pass(lr, "LoopRules.tla model checking")
    iv = tlc("LoopIvElim", "LoopIvElimMC.cfg", workers=8, timeout=1500, tag="c02iv")
    tlc_must_pass(iv, "LoopIvElim.tla model checking")
    lcases = loop_cases(tier)
    lrecs = pc.run_programs(d, "loops", [loop_program(c) for c in lcases], ["raw", 4, 31, "pass:ccp+loop"])
    fails += pc.judge_obs(PID, "ObsC02.cfg", lrecs, "c02loops", "counting loops (LoopRules universe at 32 bits)", stats, d)
    log(f"[c02] loop phase done at {time.time()-t0:.0f}s")
    # 3. whole programs under many configurations
    repo = pc.repo_programs()
    programs = repo[1::7] if tier == "quick" else repo[1:]
    n = 60 if tier == "quick" else 1500
    for prof, share in (("loops", 0.4), ("mixed", 0.3), ("closures", 0.15), ("enums", 0.15)):
        programs += pc.generated_programs(d, max(1, int(n * share)), SEED + 2, prof)
    programs += pc.corpus_dir_programs("c03")      # hand-written feature programs (struct patterns, generics through bounds, nested generic lambdas)
    builds = ["raw", 0, 31] + SINGLE + ALL_BUT_ONE + PASSES if tier == "quick" else ["raw"] + list(range(32)) + PASSES
    recs = pc.run_programs(d, "progs", programs, builds, jobs=14)
    # the whole repository test-suite as one program: reference, default and shipped configuration
    recs += pc.run_programs(d, "alltests", repo[:1], ["raw", 0, 31] if tier == "quick" else ["raw", 0, 8, 23, 31] + PASSES, jobs=1)
    # many more loop programs under the reference, the shipped configuration and the loop pass alone (cheap: three builds)
    wide = pc.generated_programs(d, 240 if tier == "quick" else 4000, SEED + 22, "loops")
    wide += pc.corpus_dir_programs("c01") + pc.corpus_dir_programs("c04")    # the hand-written feature programs of C01 / C04
    recs += pc.run_programs(d, "wide", wide, ["raw", 31, "pass:ccp+loop"], jobs=14)
    fails += pc.judge_obs(PID, "ObsC02.cfg", recs, "c02", "repository + generated programs", stats, d)
    log(f"[c02] program phase done at {time.time()-t0:.0f}s")
    # 4. the absolute half: spec/MIR.tla evaluates the MIR of every build of every program (checks/c02mir.py);
    #    anything going wrong in that machinery is a tool failure, never a verdict
    mir_cov = {}
    try:
        import c02mir
        mir_fails, mir_cov = c02mir.run_mir(tier, d, stats)
        fails += mir_fails
    except SystemExit:
        raise
    except Exception:
        import traceback
        log(traceback.format_exc())
        tool_failure("c02mir.py failed")
    log(f"[c02] MIR phase done at {time.time()-t0:.0f}s")
    cen = pc.census(recs)
    coverage = {
        "programs": len(recs), "disagreements_checked": sum(2 * max(0, len(r.get("builds", {})) - 1) for r in recs + lrecs) + len(rows),
        "samples": [{"origin": r["origin"], "builds": sorted(r.get("builds", {}).keys())[:6],
                     "unopt_out": ((r.get("builds", {}).get("opt:0", {}) or {}).get("wasm", {}) or {}).get("out", [])[:4]} for r in recs[-2:]] + rows[:1],
        "configurations": [b if isinstance(b, str) else f"opt:{b}" for b in builds], "fold_cases": len(rows), "fold_table_states": mc.distinct,
        "loop_rule_states": lr.distinct, "iv_elimination_rule_states": iv.distinct, "loop_cases_replayed": len(lrecs),
        "census": cen, "trace_states_checked_by_tlc": v.generated + stats.get("tlc_states", 0),
    }
    coverage.update(mir_cov)
    write_evidence(PID, tier, "translation_validation", coverage,
                   ["wasm_interp / ts_run observe the artefacts faithfully",
                    "program level, two references: (a) differential — the observed runs of the unoptimised build of the same compiler on both back ends; (b) absolute — spec/MIR.tla, an executable semantics of the MIR, evaluates the MIR of every build (raw, every pass alone, optimiser configurations) without any back end; MIR.tla itself is bound to the code by agreeing with both back ends on the raw build (mir_raw_run_vs_back_ends; disagreement is MODEL-DRIFT)",
                    "MIR.tla: 32-bit overflow, division by zero, toInt outside -?[0-9]+, Vec.capacity, identity of strings, depth > 3000 and the statement budget make the reference run implementation-defined (excluded, counted); optimised builds are evaluated with the machine's wrap-around arithmetic",
                    "runs whose unoptimised build overflowed 32 bits or trapped on division are excluded; a build cut off by the verifier's budget is not compared",
                    "the reference is the un-optimised MIR ('raw': optimize_sources skipped); configurations: the 5 switches each alone, each one off, all 32 in the thorough tier; every pass once in isolation through hook H3 (inlining followed by CCP)"],
                   time.time() - t0, fails)
    return 1 if fails else 0


def replay(path):
    case = json.load(open(path))
    d = outdir(PID)
    if case["kind"] == "mir-program":
        import c02mir
        return c02mir.replay(case)
    if case["kind"] == "fold-case":
        c = case["case"]["case"]
        progs = [p for p in c04.arith_programs([(c["op"], c["a"], c["b"])]) if p["kind"] == "fold"]
        rows = c04.arith_trace(pc.run_programs(d, "replay", progs, [0, 31], jobs=1))
        tr = os.path.join(d, "replay-trace.ndjson")
        write_ndjson(tr, rows)
        v = tlc("ArithTrace", "ArithTraceFold.cfg", env={"TRACE": tr}, deque=True, tag="c02rp")
        return 1 if v.violated else 0
    p = case["case"]["program"]
    p["with_std"] = case["case"].get("with_std", True)
    recs = pc.run_programs(d, "replay", [p], ["raw"] + list(range(32)) + PASSES, jobs=8)
    return 1 if pc.judge_obs(PID, "ObsC02.cfg", recs, "replay", "replay", {}, d) else 0
