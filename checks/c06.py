"""C06 — a program containing a static error is always rejected and never compiled.
Decided by spec/Pipeline.tla (the protocol of one compilation with the planted faults as part of the state;
TLC model-checks `faults # {} ~> Refused`, `Refused => an error located in an offending module`,
`Emitted => no fault, no error`, `no artefact unless Emitted`, no crash, over all fault sets of a small
universe) and spec/PipelineTrace.tla (every recorded compilation of a mutant is replayed through the
phases of Pipeline.tla and judged by the same predicates).  The fault model (harness/src/faults.rs) plants
exactly ONE fault, textually at AST locations, in programs the compiler accepted (seeded generated programs of
all profiles and the repository's tests + std as one program); a mutant is used only if its edited module
re-parses to the original tree with exactly the intended subtree replaced, so that each mutant is ill-formed
by the language definition (spec.md), independently of the checker:
  operand-type         an operand of + - * / % < <= > >= (6.9: int operands), or an argument for a parameter declared
                       `int` (5.9), is the string literal "s"
  arg-count            one argument too many / too few for the callee's function type (5.3, 5.13, 14.6)
  targ-count           k+1 / k-1 explicit type arguments for k type parameters; <int> for none (5.13, 6.7.4)
  unbound-var          a use of a local renamed to an identifier that occurs nowhere (6.2)
  unbound-class/-member/-module   a name that occurs nowhere in the program (6.4, 6.6, 3.2); the class name in expression
                       position, as any node (at any depth) of a let / lambda / parameter / return / field / variant
                       annotation, and as any node of the explicit type arguments of a static or method call
  private-member       `private` on a member / class that another module uses (3.4, 4.6); offending = the users: the
                       modules that import the class or, for a class nobody imports (class-leaked), the modules where an
                       instance that reached them through a public function / field / closure has a method called, a
                       field read or its shape matched
  iface-missing        a method required by an implemented interface deleted / its return type changed (4.2, 4.4, 5.13)
  bound-violation      a bounded type parameter instantiated with Str, which implements nothing (5.6, 5.10); or the
                       `: Interface` clause of a class removed (it keeps its methods), offending = every module where
                       that class instantiates a bounded type parameter, explicitly or by inference (5.6, 5.8)
  int-range            2147483648 (not after `-`) / -2147483649 (2.2, 13.3)
  match-nonexhaustive  one arm of a match whose arms are distinct plain variant patterns deleted (6.11)"""
import json, os, re, time
from concurrent.futures import ThreadPoolExecutor
from vlib import *
import progcommon as pc

PID = "C06"
OPERATORS = ["operand-type", "arg-count", "targ-count", "unbound-var", "unbound-class", "unbound-member",
             "unbound-module", "private-member", "iface-missing", "bound-violation", "abstract-type", "int-range",
             "match-nonexhaustive"]
VERDICT = {
    "TraceNoCrash": "the front end / compiler does not crash on an ill-formed program",
    "TraceRefusedLocated": "a refused program has at least one diagnostic located in an offending module",
    "TraceEmittedClean": "code is emitted only for a program without static errors (front = rejected expected)",
    "TraceNoArtefactUnlessEmitted": "no artefact exists unless the compilation ended in Emitted",
    "TraceFaultyRefused": "a program with a planted fault ends in Refused",
}
PROFILES = (("mixed", 0.4), ("enums", 0.15), ("closures", 0.15), ("loops", 0.1), ("strings", 0.1), ("boundary", 0.1))
JOBS = 8


def known():
    p = os.environ.get("VERIF_KF")
    if p:
        return [k for k in json.load(open(p)) if k.get("property") == PID and k.get("status") == "open"]
    return known_findings(PID)


def corpus(d, tier):
    """(generated programs, the repository program).  Falls back to the repository alone when the generator is missing."""
    n = 110 if tier == "quick" else 1500
    gen = []
    _, rc = vh(["gen-programs", "--seed", SEED, "--n", 1, "--out", os.path.join(d, "probe.ndjson"), "--profile", "mixed"], check=False)
    if rc == 0:
        for prof, share in PROFILES:
            out = os.path.join(d, f"gen-{prof}.ndjson")
            _, rc = vh(["gen-programs", "--seed", SEED + 6, "--n", max(1, int(n * share)), "--out", out, "--profile", prof], check=False)
            if rc == 0:
                gen += read_ndjson(out)
            else:
                log(f"[c06] generator profile {prof} unavailable")
    else:
        log("[c06] vh gen-programs unavailable: repository corpus only")
    for i, p in enumerate(gen):
        p["id"] = i + 1
    repo = pc.repo_programs()[0]          # tests.* and std.* as one program (the wrappers add nothing new)
    repo["id"] = 0
    return gen, repo


def slim(r):
    """The PipelineTrace record of one observed compilation."""
    f = r.get("fault") or {"kind": "none", "modules": []}
    return {"id": r["id"], "kind": f["kind"], "modules": f["modules"],
            "syn": r.get("syntax_errors", []), "errs": [e[0] for e in r.get("errors", [])],
            "front": r["front"], "crash_stage": (r.get("crash") or {}).get("stage", "none"),
            "emit": r.get("emit", "none"), "artefacts": bool(r.get("artefacts_present"))}


FEATS = []     # the hand-written feature programs used by the last run (filled by mutate_and_observe)


def mutate_and_observe(d, gen, repo, tier, avoid):
    """Runs `vh mutate --judge` in parallel: generated programs split over the jobs, the repository program sharded by site."""
    per_gen = 28 if tier == "quick" else 32
    per_repo_shard = 36 if tier == "quick" else 800
    tasks = []
    chunks = [gen[i::JOBS] for i in range(JOBS)]
    for i, c in enumerate(chunks):
        if c:
            inp = os.path.join(d, f"in-gen-{i}.ndjson")
            write_ndjson(inp, c)
            tasks.append(("gen", i, inp, ["--per-program", per_gen]))
    # hand-written feature programs (corpus/c06, corpus/c01): small, so every applicable site is mutated
    import glob
    feats = FEATS
    del feats[:]
    for path in sorted(glob.glob(os.path.join(VERIF, "corpus", "c06", "*"))) + sorted(glob.glob(os.path.join(VERIF, "corpus", "c01", "*.sam"))):
        if os.path.basename(path) in ("ill_typed", "ill_typed_modules"):
            continue
        if os.path.isdir(path):      # a program of several modules: the module name is the relative path
            srcs = {}
            for root, _, files in os.walk(path):
                for f in sorted(files):
                    if f.endswith(".sam"):
                        srcs[os.path.relpath(os.path.join(root, f), path)[:-4].replace(os.sep, ".")] = open(os.path.join(root, f)).read()
        elif path.endswith(".sam"):
            srcs = {"Main": open(path).read()}
        else:
            continue
        feats.append({"id": 100000 + len(feats), "origin": "corpus:" + os.path.relpath(path, VERIF), "entry": "Main", "sources": srcs})
    if tier == "quick":
        del feats[14:]
    for i, c in enumerate([feats[j::4] for j in range(4)]):
        if c:
            inp = os.path.join(d, f"in-feat-{i}.ndjson")
            write_ndjson(inp, c)
            tasks.append(("gen", 100 + i, inp, ["--per-program", 400]))
    rin = os.path.join(d, "in-repo.ndjson")
    write_ndjson(rin, [repo])
    for i in range(JOBS):
        tasks.append(("repo", i, rin, ["--per-program", per_repo_shard, "--shard", i, "--of", JOBS]))

    def work(t):
        kind, i, inp, extra = t
        rec = os.path.join(d, f"rec-{kind}-{i}.ndjson")
        mut = os.path.join(d, f"mut-{kind}-{i}.ndjson")
        args = ["mutate", "--in", inp, "--out", mut, "--judge", rec, "--seed", SEED] + extra
        if avoid:
            args += ["--avoid", ",".join(sorted(avoid))]
        out, _ = vh(args, timeout=3000, env={"RAYON_NUM_THREADS": "2"})   # JOBS processes share the cores
        return kind, json.loads(out.strip().split("\n")[-1]), read_ndjson(rec)

    with ThreadPoolExecutor(max_workers=JOBS) as ex:
        parts = list(ex.map(work, tasks))
    recs, census = [], {"sites": {}, "invalid": {}, "emitted": {}, "programs": 0, "not_accepted": 0}
    for kind, c, rs in parts:
        for r in rs:
            r["corpus"] = kind
        recs += rs
        for k in ("sites", "invalid", "emitted"):
            for op, n in c[k].items():
                census[k][op] = census[k].get(op, 0) + n
        if kind == "gen":
            census["programs"] += c["programs"]
            census["not_accepted"] += c["not_accepted"]
    census["programs"] += 1
    for i, r in enumerate(recs):
        r["id"] = i
    return recs, census


def baseline(d, gen, repo, tier):
    """The unmutated originals as fault-free traces (Emitted with artefacts, no diagnostics): a sample."""
    sample = gen[: (16 if tier == "quick" else 80)] + [repo]
    inp, out = os.path.join(d, "in-base.ndjson"), os.path.join(d, "rec-base.ndjson")
    write_ndjson(inp, sample)
    vh(["front-run", "--in", inp, "--out", out], timeout=1500)
    recs = read_ndjson(out)
    for r in recs:
        if r["front"] == "accepted" and r.get("emit") != "emitted":
            # an accepted program on which the back end fails is C03's business; it is no evidence about C06
            log(f"[c06] baseline {r.get('origin')} is accepted but compile_sources {r.get('emit')}: {(r.get('crash') or {}).get('message')} (not judged)")
    return [r for r in recs if r["front"] == "accepted" and r.get("emit") == "emitted"]


def source_of(rec, programs_by_id):
    """Re-creates the mutant's sources from its base program and the recorded splice."""
    f = rec["fault"]
    base = programs_by_id[rec["base"]]
    srcs = dict(base["sources"])
    t = srcs[f["edited"]].encode()
    srcs[f["edited"]] = (t[:f["start"]] + f["after"].encode() + t[f["end"]:]).decode()
    return {"origin": rec["origin"], "entry": base["entry"], "sources": srcs, "with_std": base.get("with_std", True),
            "fault": {k: f[k] for k in ("kind", "sub", "module", "modules", "edited", "site", "before", "after")}}


ILL = []       # the ill-typed corpus programs of the last run


def ill_typed_corpus(d, first_id):
    """Every program of corpus/c06/ill_typed, observed like a mutant whose fault is the whole program (first line:
    `// fault: <operator kind>`)."""
    import glob
    del ILL[:]
    paths = sorted(glob.glob(os.path.join(VERIF, "corpus", "c06", "ill_typed", "*.sam"))) + \
        sorted(glob.glob(os.path.join(VERIF, "corpus", "c06", "ill_typed_modules", "*")))
    for i, path in enumerate(paths):
        if os.path.isdir(path):     # several modules; the fault (and its `// fault:` line) is in Main
            srcs = {f[:-4]: open(os.path.join(path, f)).read() for f in sorted(os.listdir(path)) if f.endswith(".sam")}
        else:
            srcs = {"Main": open(path).read()}
        kind = re.match(r"// fault: ([\w-]+)", srcs["Main"])
        if not kind:
            tool_failure(f"{path}: first line must be `// fault: <operator kind>`")
        ILL.append({"id": 200000 + i, "origin": "corpus:" + os.path.relpath(path, VERIF), "entry": "Main", "sources": srcs,
                    "kind": kind.group(1)})
    if not ILL:
        return []
    inp, out = os.path.join(d, "in-ill.ndjson"), os.path.join(d, "rec-ill.ndjson")
    write_ndjson(inp, ILL)
    vh(["front-run", "--in", inp, "--out", out])
    recs = read_ndjson(out)
    if len(recs) != len(ILL):
        tool_failure(f"front-run returned {len(recs)} records for {len(ILL)} ill-typed programs")
    for p, r in zip(ILL, recs):
        r.update({"id": first_id + (p["id"] - 200000), "base": p["id"], "origin": p["origin"] + "#ill-typed", "corpus": "ill",
                  "fault": {"kind": p["kind"], "sub": "corpus-witness", "module": "Main", "modules": ["Main"], "edited": "Main",
                            "site": "0:0", "before": "", "after": "", "start": 0, "end": 0}})
    return recs


CHUNK = 6000     # records per TLC run: a counterexample is the whole path, keep it printable


def judge(recs, tag, d, stats, cfg="PipelineTrace.cfg"):
    """TLC on PipelineTrace over the records; returns [(record, invariant)] for every violating record."""
    bad = []
    for c in range(0, len(recs), CHUNK):
        remaining = list(recs[c:c + CHUNK])
        while remaining and len(bad) < 12:
            tr = os.path.join(d, f"trace-{tag}.ndjson")
            write_ndjson(tr, [slim(r) for r in remaining])
            v = tlc("PipelineTrace", cfg, env={"TRACE": tr}, deque=True, tag=f"c06-{tag}", timeout=2400, xmx="8g")
            stats["tlc_states"] = stats.get("tlc_states", 0) + v.generated
            if v.violated:
                l = v.last_l()
                if not l:
                    log(v.out[-3000:])
                    tool_failure("PipelineTrace: violated invariant without a state")
                bad.append((remaining[l - 1], v.violated))
                remaining = remaining[:l - 1] + remaining[l:]
                continue
            if not v.ok:
                log(v.out[-3000:])
                tool_failure(f"PipelineTrace.tla run failed ({cfg}): {v.error}")
            break
    return bad


def kf_matches(k, rec):
    """The narrow signature of a known finding, decided on the recorded compilation."""
    s = k.get("signature", {})
    f = rec.get("fault") or {}
    if s.get("kind") != f.get("kind") or s.get("sub", f.get("sub")) != f.get("sub"):
        return False
    if "front" in s and s["front"] != rec.get("front"):
        return False
    if "crash_contains" in s and s["crash_contains"] not in (rec.get("crash") or {}).get("message", ""):
        return False
    return True


def check_known(d, stats):
    """Runs the witness of every open finding through the real compiler and TLC.  A finding that still
    reproduces is reported; if it is marked `avoid` its (sub-)operator is switched off for this run (every such
    mutant would fail), otherwise recorded compilations matching its signature are set aside and counted."""
    avoid, live = set(), []
    for k in known():
        w = k.get("witness")
        path = os.path.join(VERIF, w) if w and not os.path.isabs(w) else w
        if not path or not os.path.exists(path):
            tool_failure(f"known finding without witness file: {k.get('what')}")
        prog = json.load(open(path))
        prog["id"] = 0
        inp, out = os.path.join(d, "in-kf.ndjson"), os.path.join(d, "rec-kf.ndjson")
        write_ndjson(inp, [prog])
        vh(["front-run", "--in", inp, "--out", out])
        rec = read_ndjson(out)[0]
        still = judge([rec], "kf", d, stats)
        sig = k["signature"]
        label = sig["kind"] + (":" + sig["sub"] if "sub" in sig else "")
        if still and kf_matches(k, rec):
            k = dict(k, label=label, inv=still[0][1], witness_front=rec["front"], hits=0)
            live.append(k)
            if k.get("avoid"):
                avoid.add(label)
        else:
            log(f"[c06] known finding {label} no longer reproduces on its witness ({w}): not excused any more")
    return avoid, live
def run(tier):
    t0 = time.time()
    d = outdir(PID)
    build_harness()
    stats = {}
    # 1. the design: Pipeline.tla over all fault sets of the small universe
    mc = tlc("Pipeline", "PipelineMC.cfg", workers=4, timeout=600, coverage=True, tag="c06mc")
    tlc_must_pass(mc, "Pipeline.tla model checking")
    for action in ("Parse", "Check", "Emit", "Refuse"):
        if f"<{action} line" not in mc.out:
            tool_failure(f"vacuity: action {action} of Pipeline.tla not covered")
    # the same model with the lexer as found on the pinned tree must fail (the invariants are not vacuous)
    asis = tlc("Pipeline", "PipelineAsIs.cfg", workers=1, timeout=300, tag="c06asis")
    if asis.violated != "InvC06":
        log(asis.out[-2000:])
        tool_failure("vacuity: Pipeline.tla with LexicalChecked = FALSE does not violate InvC06")
    # 2. the fault model on the real compiler
    avoid, live = check_known(d, stats)
    gen, repo = corpus(d, tier)
    recs, census = mutate_and_observe(d, gen, repo, tier, avoid)
    # hand-written ill-typed programs (corpus/c06/ill_typed: witnesses of repaired defects, each names the rule it breaks)
    ill = ill_typed_corpus(d, len(recs))
    recs += ill
    excused = []
    for r in recs:
        hit = next((k for k in live if not k.get("avoid") and kf_matches(k, r)), None)
        if hit:
            hit["hits"] += 1
            excused.append(r)
    recs = [r for r in recs if r not in excused]
    for k in live:
        how = f"operator {k['label']} not applied in this run" if k.get("avoid") else f"{k['hits']} matching mutants in this run set aside"
        report_known(PID, f"{k['what']} [witness {k['witness']}: front={k['witness_front']}, {k['inv']} of PipelineTrace.tla; {how}]")
    base = baseline(d, gen, repo, tier)
    for i, r in enumerate(base):
        r["id"] = len(recs) + i
    by_id = {p["id"]: p for p in gen + FEATS + ILL}
    by_id[0] = repo
    # 3. the verdict, by TLC
    bad = judge(recs + base, "main", d, stats)
    drift = judge(recs + base, "strict", d, stats, cfg="PipelineTraceStrict.cfg")
    fails = 0
    reported = set()
    for rec, inv in bad:
        if "fault" not in rec:
            orig = next((p for p in gen + [repo] if p.get("origin") == rec.get("origin")), {})
            case = {"program": {k: orig[k] for k in ("origin", "entry", "sources", "with_std") if k in orig}, "note": "unmutated original"}
            sig = ("baseline", inv)
        else:
            case = {"program": source_of(rec, by_id)}
            sig = (rec["fault"]["kind"], rec["fault"]["sub"], inv, rec["front"])
        if sig in reported:
            continue           # one report per (operator, invariant): the others are the same defect class
        reported.add(sig)
        path = save_replay(PID, "mutant", case, f"{inv} of PipelineTrace.tla: {VERDICT.get(inv, inv)}",
                           {"front": rec.get("front"), "emit": rec.get("emit"), "artefacts_present": rec.get("artefacts_present"),
                            "errors": rec.get("errors", [])[:6], "crash": rec.get("crash")})
        report_violation(PID, path)
        fails += 1
    for rec, inv in drift[:5]:
        log(f"MODEL-DRIFT: {inv} on {rec.get('origin')} (front={rec.get('front')}, emit={rec.get('emit')}, syn={rec.get('syntax_errors')})")
    # 4. evidence
    per_op = {}
    for op in OPERATORS:
        rs = [r for r in recs if r["fault"]["kind"] == op]
        per_op[op] = {
            "sites_found": sum(n for k, n in census["sites"].items() if k.split(":")[0] == op),
            "sites_invalidated_by_reparse": sum(n for k, n in census["invalid"].items() if k.split(":")[0] == op),
            "mutants_judged": len(rs),
            "rejected_with_located_error": sum(1 for r in rs if r["front"] == "rejected" and
                                               any(e[0] in r["fault"]["modules"] for e in r["errors"]) and not r["artefacts_present"]),
            "sub_operators": sorted({r["fault"]["sub"] for r in rs}),
        }
    distinct = len({(r.get("base"), r["fault"]["edited"], r["fault"]["start"], r["fault"]["end"], r["fault"]["after"]) for r in recs})
    silent = [op for op in OPERATORS if per_op[op]["mutants_judged"] == 0 and not any(a.split(":")[0] == op for a in avoid)]
    if silent:
        tool_failure(f"vacuity: operators without a single mutant: {silent}")
    samples = [{"origin": r["origin"], "fault": {k: r["fault"][k] for k in ("kind", "sub", "module", "site", "before", "after")},
                "front": r["front"], "errors": r["errors"][:2], "artefacts_present": r["artefacts_present"]}
               for r in (recs[:2] + recs[len(recs) // 2: len(recs) // 2 + 2] + recs[-2:])]
    coverage = {
        "evaluations": len(recs), "distinct_nontrivial": distinct,
        "rule": "one evaluation = one single-fault mutant compiled by the real front end and by samlang_compiler::compile_sources and judged by "
                "TLC (PipelineTrace.tla); non-trivial = the mutant's text differs from the accepted original in exactly the operator's span and its "
                "edited module re-parses to the original tree with exactly the intended subtree replaced; distinct by (program, module, span, replacement)",
        "samples": samples,
        "operators": per_op,
        "programs_mutated": census["programs"], "generated_programs_not_accepted": census["not_accepted"],
        "corpus": {"generated": len(gen), "repository_modules": len(repo["sources"])},
        "mutants_by_corpus": {c: sum(1 for r in recs if r["corpus"] == c) for c in ("gen", "repo")},
        "baseline_fault_free_traces": len(base),
        "model": {"states": mc.distinct, "transitions": mc.generated, "fault_sets": "all subsets of 4 kinds x 3 modules with at most 3 faults",
                  "as_is_variant_violates": asis.violated},
        "trace_states_checked_by_tlc": stats.get("tlc_states", 0),
        "model_drift_records": len(drift),
        "operators_switched_off_by_known_findings": sorted(avoid),
        "mutants_set_aside_by_known_findings": {k["label"]: k["hits"] for k in live if not k.get("avoid")},
    }
    # the absolute half on a core fragment: spec/TypeRules.tla (typing judgment + evaluator, soundness model-checked) enumerates
    # every small term with its verdict; a term the rules call ill-typed and the checker accepts is a violation of C06
    import typerules
    tstats = {}
    tfails, tcov = typerules.run_typerules(tier, outdir("typerules"), tstats, only={"C06"})
    fails += tfails
    coverage.update(tcov)
    write_evidence(PID, tier, "fault_enumeration", coverage,
                   ["TypeRules.tla: [RULE] clauses cite spec.md, [XCR] clauses transcribe checker behaviour (hint flow, implicit instantiation); a well-typed term the checker rejects is MODEL-DRIFT, never a violation",
                    "mutants are single-fault: one textual splice per mutant at a site found in the typed AST of the accepted original",
                    "the offending module of a visibility fault is every module that uses the now-private name, of an un-implemented class every module "
                    "that instantiates a bounded type parameter with it; of every other fault the edited module",
                    "artefacts_present is observed on samlang_compiler::compile_sources (the function the command line calls), not on the CLI's file output",
                    "sites inside the built-in std modules are not mutated for generated programs (the repository program carries std as ordinary modules)"],
                   time.time() - t0, fails)
    log(f"[c06] {len(recs)} mutants ({distinct} distinct), {len(base)} baselines, {fails} violations, "
        f"{len(drift)} drift, {time.time()-t0:.0f}s")
    return 1 if fails else 0


def replay(path):
    if json.load(open(path)).get("kind") == "typerules-term":
        import typerules
        return typerules.replay(path)
    case = json.load(open(path))["case"]
    p = dict(case["program"])
    if "sources" not in p:
        tool_failure("replay file carries no program")
    p["id"] = 0
    d = outdir(PID)
    inp, out = os.path.join(d, "in-replay.ndjson"), os.path.join(d, "rec-replay.ndjson")
    write_ndjson(inp, [p])
    vh(["front-run", "--in", inp, "--out", out])
    rec = read_ndjson(out)[0]
    bad = judge([rec], "replay", d, {})
    for r, inv in bad:
        log(f"[c06] {inv}: front={r['front']} emit={r.get('emit')} errors={r.get('errors', [])[:3]}")
    return 1 if bad else 0
