"""C03 — programs accepted by the checker never go wrong, at compile time or at run time.
Decided by spec/Observations.tla (invariant C03): for every program the checker accepts, every build
finished without crashing, the emitted WebAssembly validates (wasmparser, all GC features) and
instantiates, the emitted TypeScript is syntactically valid (type eraser accepts it and node --check
passes), and both runs end in a way the program asked for or the language leaves open — never in an
engine-level type fault and never in a panic with the empty message (the unhandled-match fallback)."""
import json, os, time
from vlib import *
import progcommon as pc

PID = "C03"


def corpus(d, tier):
    programs = pc.repo_programs()
    n = 160 if tier == "quick" else 4000
    shares = (("mixed", 0.35), ("enums", 0.15), ("closures", 0.15), ("loops", 0.15), ("strings", 0.1), ("boundary", 0.1))
    for prof, share in shares:
        programs += pc.generated_programs(d, max(1, int(n * share)), SEED + 3, prof)
    # accepted mutants of the repository's own sample programs and standard library
    programs += pc.token_mutants(60 if tier == "quick" else 1500, SEED + 33)
    # the pattern corpus itself, and every program with one match arm deleted
    pats = pc.corpus_dir_programs("c03") + pc.corpus_dir_programs("c04")
    programs += pats
    bases = pats + pc.corpus_dir_programs("c01") + pc.generated_programs(d, 40 if tier == "quick" else 600, SEED + 43, "enums")
    programs += pc.arm_drop_mutants(d, "c03", bases, 40 if tier == "quick" else 200, SEED + 53)
    # near misses: hand-written programs one type error away from an accepted one (corpus/c06/ill_typed*). The checker
    # rejects them, so they are not judged — unless it starts accepting one, and then it has to run without going wrong
    programs += pc.near_miss_programs()
    return programs


def run(tier):
    t0 = time.time()
    d = outdir(PID)
    build_harness()
    stats = {}
    programs = corpus(d, tier)
    builds = [0, 31] if tier == "quick" else [0, 8, 23, 31]
    recs = pc.run_programs(d, "progs", programs, builds, ts_syntax=True)
    fails = pc.judge_obs(PID, "ObsC03.cfg", recs, "c03", "repository + generated programs", stats, d)
    pc.replay_known_findings(PID, "ObsC03.cfg", d, builds)
    # rule level: spec/TypeRules.tla's enumerated terms — a well-typed term must compile, validate and evaluate to the
    # value the specification computes (type soundness is model-checked on the rules; here it is observed on the code)
    import typerules
    tfails, tcov = typerules.run_typerules(tier, outdir("typerules"), {}, only={"C03", "C01"})
    fails += tfails
    cen = pc.census(recs)
    ends = {}
    for r in recs:
        for b, v in r.get("builds", {}).items():
            for k in ("wasm", "ts"):
                if k in v:
                    e = v[k]["end"]
                    key = f"{k}:{e['k']}" + (":" + e.get("trap", "") if e["k"] == "trap" else "")
                    ends[key] = ends.get(key, 0) + 1
    distinct = len({json.dumps(r.get("sources"), sort_keys=True) for r in recs if r.get("front") == "accepted"})
    coverage = {
        "evaluations": sum(len(r.get("builds", {})) for r in recs), "distinct_nontrivial": distinct,
        "rule": "programs: tests.AllTests + one wrapper per repository test class + seeded type-directed generated programs over 6 profiles + single-token mutants of the repository's samples and std (only those the checker accepts are judged); "
                "non-trivial = accepted by the checker (so the property's premise holds); distinct by source text",
        "samples": [{"origin": r["origin"], "front": r.get("front"),
                     "ends": {b: {k: v[k]["end"] for k in ("wasm", "ts") if k in v} for b, v in r.get("builds", {}).items()}}
                    for r in recs[:2] + recs[-2:]],
        "builds": [f"opt:{b}" for b in builds], "census": cen, "endings": ends,
        "trace_states_checked_by_tlc": stats.get("tlc_states", 0),
    }
    coverage.update(tcov)
    write_evidence(PID, tier, "exploration", coverage,
                   ["wasm_interp classifies traps as a WasmGC engine would; validity = wasmparser's validator with GC features",
                    "'syntactically valid TypeScript' is approximated by the type eraser accepting the text and node --check of the erased text",
                    "call-stack exhaustion, arithmetic traps and verifier budget exhaustion are allowed endings"],
                   time.time() - t0, fails)
    return 1 if fails else 0


def replay(path):
    if json.load(open(path)).get("kind") == "typerules-term":
        import typerules
        return typerules.replay(path)
    case = json.load(open(path))["case"]
    p = case["program"]
    p["with_std"] = case.get("with_std", True)
    d = outdir(PID)
    recs = pc.run_programs(d, "replay", [p], [int(b.split(":")[1]) for b in case.get("builds", ["opt:0", "opt:31"])], jobs=1, ts_syntax=True)
    return 1 if pc.judge_obs(PID, "ObsC03.cfg", recs, "replay", "replay", {}, d) else 0
