"""C09 — formatting is idempotent and keeps every comment.
Decided by spec/Comments.tla.  (1) [BR] TLC enumerates from spec/CommentsGen.tla every case (template of
spec/CommentsCorpus.tla, set of at most two comment slots, comment kind per slot) with its slot classes and
the expected order of the comments after import sorting, and checks the properties of that order on every
case; (2) `vh comments-run` inserts the comments textually, parses, formats once and twice with the real
printer and records what it observed; `vh comments-files` does the same with one comment inserted at every
k-th token boundary of every .sam file of /repo/tests and /repo/std, and with the unmodified files;
(3) spec/CommentsTrace.tla judges every record (all comments present with the same words, in the expected
order; F(F(x)) = F(x); F(x) parses) and names the slot classes a failure is attributed to.
Findings policy (DESIGN 7, row 12): a failure is excused only if its (failure kind, slot class) is listed
as an open finding in known-findings.json AND that finding's witness still fails in this run; everything
else is a VIOLATION.  Nothing is ever added to the list at run time.

Development entry points:  python3 checks/c09.py regen   (CommentsCorpus.txt -> CommentsCorpus.tla)
                           python3 checks/c09.py propose (out/C09/known-findings-proposed.json + witnesses)"""
import collections, json, os, re, subprocess, sys, time

if __name__ == "__main__":
    sys.path.insert(0, os.path.join(os.path.dirname(os.path.dirname(os.path.abspath(__file__))), "lib"))
from vlib import *

PID = "C09"
CHUNK = 30000          # records per TLC judging run
MAX_REPORTED = 25      # VIOLATION lines printed (every violation is counted)

TIERS = {
    # generator config; width of all template cases; extra width for the single-slot template cases;
    # files: list of (k, kinds, width) - one comment at every k-th token boundary
    "quick":    ("CommentsGenQuick.cfg",    "100", None, [(61, "rotate", "100")]),
    "thorough": ("CommentsGenThorough.cfg", "100", "40", [(7, "line,block,doc", "100"), (11, "rotate", "40")]),
}
OVERFLOW = "prettier.line-comment|overflow|line"     # Comments.tla, OverflowClass
OVERFLOW_WITNESS = "findings/C09-non-idempotent-line-comment-overflow.sam"


def kf_path():
    return os.environ.get("VERIF_KF") or os.path.join(VERIF, "known-findings.json")


def open_findings():
    """open C09 findings: {(kind, class): entry}"""
    if os.environ.get("VERIF_KF"):
        p = kf_path()
        ks = [k for k in json.load(open(p)) if k.get("property") == PID and k.get("status") == "open"] if os.path.exists(p) else []
    else:
        ks = known_findings(PID)
    out = {}
    for k in ks:
        kind, _, cls = k.get("region", "").partition(":")
        out[(kind, cls)] = k
    return out


# ---------------------------------------------------------------------------------------------------
# judging with TLC
# ---------------------------------------------------------------------------------------------------

def judge(trace, tag, stats):
    """Runs CommentsTrace over the records of `trace`; returns [(record, [failure,..])] for failing records."""
    d = outdir(PID)
    lines = [l for l in open(trace) if l.strip()]
    failing = []
    for c in range(0, len(lines), CHUNK):
        part = lines[c:c + CHUNK]
        p = os.path.join(d, f"judge-{tag}-{c // CHUNK}.ndjson")
        with open(p, "w") as f:
            f.writelines(part)
        v = tlc("CommentsTrace", "CommentsTrace.cfg", env={"TRACE": p}, workers=8, tag=f"c09j-{tag}-{c // CHUNK}",
                xmx="12g", timeout=2400)
        if v.violated:
            log(v.out[-3000:])
            tool_failure(f"CommentsTrace: {v.violated} violated on {p} (the verdict and the blame disagree)")
        if not v.ok:
            log(v.out[-3000:])
            tool_failure(f"CommentsTrace failed on {p}: {v.error}")
        if v.distinct != len(part):
            tool_failure(f"CommentsTrace judged {v.distinct} of {len(part)} records of {p}")
        stats["judged"] += len(part)
        stats["tlc_states"] += v.distinct
        for f in behaviours_from(v, "FAIL"):
            failing.append((json.loads(part[f["l"] - 1]), f["f"]))
        for dr in behaviours_from(v, "DRIFT"):
            stats["drift"] += 1
            if stats["drift"] <= 3:
                log(f"MODEL-DRIFT: {dr['id']}: expected order / slot classes of the model differ from the attachment "
                    f"the real parser reported: {dr}")
        os.remove(p)
    return failing


def matches(failure, key):
    """key = (kind, class) or (kind, "classA+classB"): a finding about a PAIR of slots excuses only failures that
    involve both classes"""
    return failure["kind"] == key[0] and all(c in failure["cls"] for c in key[1].split("+"))


# ---------------------------------------------------------------------------------------------------
# run
# ---------------------------------------------------------------------------------------------------

def generate(cfg, d):
    gen = tlc("CommentsGen", cfg, workers=8, tag="c09gen", xmx="12g", timeout=2400, coverage=False)
    tlc_must_pass(gen, "CommentsGen enumeration")
    cases = behaviours_from(gen)
    templates = behaviours_from(gen, "TEMPLATE")
    if not cases or not templates or len(cases) != gen.distinct:
        tool_failure(f"CommentsGen printed {len(cases)} cases for {gen.distinct} states, {len(templates)} templates")
    write_ndjson(os.path.join(d, "cases.ndjson"), cases)
    write_ndjson(os.path.join(d, "templates.ndjson"), templates)
    return gen, cases, templates


def run_templates(d, cases, width, width1):
    """all cases at `width`; the single-slot cases also at `width1`; one trace file, one summary"""
    tt = os.path.join(d, "trace-t.ndjson")
    out, _ = vh(["comments-run", "--templates", os.path.join(d, "templates.ndjson"), "--cases", os.path.join(d, "cases.ndjson"),
                 "--out", tt, "--widths", width])
    ti = json.loads(out)
    if ti.get("template_problems"):
        tool_failure(f"templates of CommentsCorpus.tla are not usable on this tree: {ti['template_problems'][:3]}")
    if width1:
        write_ndjson(os.path.join(d, "cases1.ndjson"), [c for c in cases if len(c["slots"]) == 1])
        t2 = os.path.join(d, "trace-t2.ndjson")
        out, _ = vh(["comments-run", "--templates", os.path.join(d, "templates.ndjson"), "--cases", os.path.join(d, "cases1.ndjson"),
                     "--out", t2, "--widths", width1])
        t2i = json.loads(out)
        with open(tt, "a") as f:
            f.write(open(t2).read())
        os.remove(t2)
        for key in ("cases", "records", "invalid", "id_loc_not_a_token"):
            ti[key] += t2i[key]
    return tt, ti


def run_files(d, plan):
    """the repository's files under every (k, kinds, width) of the plan; one trace file, one summary"""
    tf = os.path.join(d, "trace-f.ndjson")
    total = None
    with open(tf, "w") as sink:
        for n, (k, kinds, width) in enumerate(plan):
            part = os.path.join(d, f"trace-f{n}.ndjson")
            out, _ = vh(["comments-files", "--dirs", "/repo/tests,/repo/std", "--k", k, "--phase", SEED % k, "--kinds", kinds,
                         "--widths", width, "--out", part, "--threads", 12], timeout=3000)
            fi = json.loads(out)
            sink.write(open(part).read())
            os.remove(part)
            if total is None:
                total = fi
            else:
                for key in ("cases", "records", "invalid", "id_loc_not_a_token"):
                    total[key] += fi[key]
    return tf, total


def witness_records(known, d):
    """one record per (witness file, width); returns trace path and {witness: [record ids]}"""
    p = os.path.join(d, "trace-w.ndjson")
    n = 0
    with open(p, "w") as f:
        for w in sorted({k["witness"] for k in known.values() if k.get("witness")}):
            path = os.path.join(VERIF, w)
            if not os.path.exists(path):
                tool_failure(f"witness {w} of an open finding is missing")
            out, rc = vh(["comments-one", "--file", path, "--widths", "100"], check=False)
            if rc != 0:
                tool_failure(f"witness {w} is not a syntactically valid module any more")
            for line in out.splitlines():
                if line.strip():
                    r = json.loads(line)
                    r["id"] = w
                    f.write(json.dumps(r) + "\n")
                    n += 1
    return p, n


def run(tier):
    t0 = time.time()
    d = outdir(PID)
    build_harness()
    cfg, width, width1, fplan = TIERS[tier]
    stats = {"judged": 0, "tlc_states": 0, "drift": 0}
    # 1. enumeration from the specification
    gen, cases, templates = generate(cfg, d)
    log(f"[C09] {len(cases)} cases enumerated by TLC ({time.time() - t0:.0f}s)")
    # 2. the real formatter on the enumerated cases and on the repository's files
    tt, ti = run_templates(d, cases, width, width1)
    log(f"[C09] template cases run: {ti['records']} records ({time.time() - t0:.0f}s)")
    for dr in ti["label_drift"][:3]:
        log(f"MODEL-DRIFT: production of token {dr['token']} ({dr['text']}) of {dr['template']}: CommentsCorpus.tla says "
            f"{dr['spec']}, the parser's locations say {dr['ast']}")
    tf, fi = run_files(d, fplan)
    log(f"[C09] repository files run: {fi['records']} records ({time.time() - t0:.0f}s)")
    if fi["files"] == 0:
        tool_failure("no .sam file of /repo/tests or /repo/std could be used")
    if ti["id_loc_not_a_token"] or fi["id_loc_not_a_token"]:
        log(f"MODEL-DRIFT: {ti['id_loc_not_a_token'] + fi['id_loc_not_a_token']} identifier locations reported by the parser are "
            f"not token spans of the harness scanner (transcription of lexer.rs)")
    # 3. known findings: which are still alive (their witness still fails)
    known = open_findings()
    tw, nw = witness_records(known, d)
    wfail = collections.defaultdict(list)
    for rec, fs in (judge(tw, "w", stats) if nw else []):
        wfail[rec["id"]] += fs
    alive = {}
    for key, e in sorted(known.items()):
        if any(matches(f, key) for f in wfail.get(e.get("witness"), [])):
            alive[key] = e
            report_known(PID, f"[{e['region']}] {e['what']}")
        else:
            log(f"[C09] open finding {e['region']}: its witness {e.get('witness')} no longer fails - not excused any more")
    # 4. the verdicts
    seen, failing_classes = collections.Counter(), collections.Counter()
    excused = collections.Counter()
    violations = {}
    nviol = 0
    samples = []
    distinct = set()
    for trace, tag in ((tt, "t"), (tf, "f")):
        for line in open(trace):
            r = json.loads(line)
            ins = [c["cls"] for c in r["cm"] if c["ins"]]
            for c in ins:
                seen[c] += 1
            if ins:
                distinct.add(r["id"])
            if (len(samples) < 2 and len(ins) == 1) or (2 <= len(samples) < 4 and len(ins) == 2) or \
                    (4 <= len(samples) < 6 and r["mode"] == "file"):
                samples.append({"case": r["id"], "slot_classes": ins, "inserted": [c["ws"] for c in r["cm"] if c["ins"]],
                                "comments_of_F(x)": [c["ws"] for c in r["out"]][:6], "idempotent": r["idem"], "syntax_errors_of_F(x)": r["errs"]})
        for rec, fs in judge(trace, tag, stats):
            for f in fs:
                if len(f["cls"]) == 1:      # attributed to one slot class
                    failing_classes[(f["kind"], f["cls"][0])] += 1
                hit = [key for key in alive if matches(f, key)]
                if hit:
                    excused[hit[0]] += 1
                    continue
                nviol += 1
                sig = (f["kind"], tuple(f["cls"]))
                if sig not in violations:
                    violations[sig] = (rec, f)
    log(f"[C09] {stats['judged']} records judged by TLC ({time.time() - t0:.0f}s)")
    for sig, (rec, f) in list(violations.items())[:MAX_REPORTED]:
        case = {"mode": rec["mode"], "src": rec["src"], "case": rec.get("case"), "width": rec["w"]}
        if rec["mode"].startswith("template"):
            case["template_text"] = " ".join(t["s"] for t in next(x for x in templates if x["id"] == rec["src"])["toks"])
        path = save_replay(PID, "comments", case,
                           "every comment of x is in F(x) with the same words in the expected order; F(F(x)) = F(x); F(x) parses "
                           "(or the failing slot class is an open known finding whose witness still fails)",
                           {"failure": f, "inserted": [c for c in rec["cm"] if c["ins"]], "comments_of_F(x)": rec["out"],
                            "idempotent": rec["idem"], "syntax_errors_of_F(x)": rec["errs"], "crash": rec.get("crash")})
        report_violation(PID, path)
    if len(violations) > MAX_REPORTED:
        log(f"[C09] {len(violations) - MAX_REPORTED} more distinct violation signatures not printed")
    known_failing = {c for (kd, c) in alive}
    failing = {c for (kd, c) in failing_classes}
    coverage = {
        "evaluations": stats["judged"],
        "distinct_nontrivial": len(distinct),
        "rule": "a case = (template or repository file, set of <= 2 comment slots, comment kind per slot, width); templates x slots x kinds "
                "are enumerated by TLC from spec/CommentsGen.tla (all single slots; pairs per tier), files get one comment at every "
                f"{fplan[0][0]}-th token boundary; non-trivial = it parses and contains at least one inserted comment; distinct by case id",
        "samples": samples,
        "tlc_cases_enumerated": gen.distinct,
        "tlc_states_generated": gen.generated,
        "tlc_cases_where_import_sorting_permutes_the_comments": sum(1 for c in cases if c["exp"] != sorted(c["exp"])),
        "templates": len(templates),
        "template_cases_run": ti["cases"], "template_records": ti["records"],
        "files": fi["files"], "file_cases_run": fi["cases"], "file_records": fi["records"],
        "files_skipped": len(fi["skipped_files"]),
        "cases_skipped_invalid": ti["invalid"] + fi["invalid"],
        "widths": {"template cases": width, "single-slot template cases also": width1, "files (k, kinds, width)": fplan},
        "slot_classes_seen": len(seen),
        "slot_classes_passing": len([c for c in seen if c not in failing]),
        "slot_classes_known_failing": len(known_failing),
        "failures_excused_by_known_findings": sum(excused.values()),
        "open_findings_listed": len(known), "open_findings_alive": len(alive),
        "violations_distinct_signatures": len(violations),
        "records_judged_by_tlc": stats["tlc_states"],
        "model_drift": stats["drift"] + len(ti["label_drift"]) + ti["id_loc_not_a_token"] + fi["id_loc_not_a_token"],
        "exhaustive": False,
    }
    write_evidence(PID, tier, "exploration", coverage,
                   ["harness/src/comments.rs transcribes the (private) lexer of samlang-parser, including its comment normalisation; "
                    "bound by: every identifier location of the AST is a scanned token, inserted comments leave the text parseable",
                    "comment texts are compared word by word (re-flowing a comment over several lines is not a loss)",
                    "slot classes (production x following token x comment kind) are only used to match known findings; "
                    "the verdict itself does not depend on them",
                    "TLC 1.8.0 and the CommunityModules Json/IOUtils overrides are correct"],
                   time.time() - t0, nviol)
    return 1 if nviol else 0


# ---------------------------------------------------------------------------------------------------
# replay
# ---------------------------------------------------------------------------------------------------

def observe_case(case, d, texts=False, check=True):
    """rebuilds one case with `vh comments-one`; returns the records (one per width)"""
    if case["mode"].startswith("template"):
        base = os.path.join(d, "replay-base.sam")
        with open(base, "w") as f:
            f.write(case["template_text"])
    else:
        base = case["src"]
    args = ["comments-one", "--file", base, "--widths", case.get("width", 100)]
    if case.get("case") and case["case"].get("slots"):
        args += ["--case", json.dumps({"slots": case["case"]["slots"], "kinds": case["case"]["kinds"]})]
    if texts:
        args.append("--texts")
    out, rc = vh(args, check=check)
    if rc != 0:
        return []
    return [json.loads(l) for l in out.splitlines() if l.strip()]


def replay(path):
    d = outdir(PID)
    build_harness()
    case = json.load(open(path))["case"]
    recs = observe_case(case, d)
    tr = os.path.join(d, "trace-replay.ndjson")
    write_ndjson(tr, recs)
    stats = {"judged": 0, "tlc_states": 0, "drift": 0}
    known = open_findings()
    bad = 0
    for rec, fs in judge(tr, "replay", stats):
        for f in fs:
            if not any(matches(f, key) for key in known):
                bad += 1
                report_violation(PID, path)
                log(f"[C09] replay: {f}")
    return 1 if bad else 0


# ---------------------------------------------------------------------------------------------------
# development: corpus generation, proposal of known findings
# ---------------------------------------------------------------------------------------------------

def regen():
    """spec/CommentsCorpus.txt (texts) -> spec/CommentsCorpus.tla (segments with productions)"""
    build_harness()
    txt = os.path.join(SPEC, "CommentsCorpus.txt")
    titles = [l[2:] for l in open(txt).read().splitlines() if l.startswith("# ")]
    lab, _ = vh(["comments-label", "--file", txt])
    if "WARNING" in lab or "\\* line" in lab:
        tool_failure("a template does not parse / scan:\n" + "\n".join(l for l in lab.splitlines() if "WARNING" in l or "\\* line" in l))
    blocks = re.findall(r"  \\\* (.*?)\n  <<\n(.*?)\n  >>,", lab, re.S)
    assert len(blocks) == len(titles), (len(blocks), len(titles))
    out = ["""--------------------------- MODULE CommentsCorpus ---------------------------
(* The template corpus of spec/Comments.tla (property C09).  Every template is a syntactically valid
   module written as a sequence of segments Seg(production, tokens): the tokens are the module's
   text (joined by blanks) and the production is the grammar production the tokens belong to.
   The texts are in CommentsCorpus.txt; the production names are the ones `vh comments-label`
   derives from the real parser's node locations (innermost AST node containing the token, see
   harness/src/comments.rs) - this file is its reviewed output (`python3 checks/c09.py regen`).
   `vh comments-run` re-derives the productions on every run and reports any disagreement, so this
   file and the parser cannot drift apart silently.

   Coverage (one line per template):
"""]
    out += [f"   {t}" for t in titles]
    out += ["*)", "Seg(p, toks) == [p |-> p, toks |-> toks]\n", "TemplateSegs == <<"]
    for i, (text, body) in enumerate(blocks):
        out += [f"  \\* {titles[i]}", f"  \\* {text}", "  <<", body, "  >>" + ("," if i + 1 < len(blocks) else "")]
    out += [">>", "============================================================================="]
    with open(os.path.join(SPEC, "CommentsCorpus.tla"), "w") as f:
        f.write("\n".join(out) + "\n")
    print(len(blocks), "templates written to spec/CommentsCorpus.tla")


SAN = {"|": "-", ",": "comma", ":": "colon", ";": "semi", "{": "lbrace", "}": "rbrace", "(": "lparen", ")": "rparen", "<": "lt",
       ">": "gt", "=": "eq", "->": "arrow", ".": "dot", "_": "underscore", "*": "star", "/": "slash", "%": "percent", "+": "plus",
       "!": "not", "&&": "and", "||": "or", "==": "eqeq", "!=": "ne", "<=": "le", ">=": "ge", "::": "concat"}


def split_class(cls):
    """'prod|next|ck' where next may itself contain `|`"""
    prod, rest = cls.split("|", 1)
    nxt, ck = rest.rsplit("|", 1)
    return prod, nxt, ck


def sanitise(region):
    kind, _, cls = region.partition(":")
    prod, nxt, ck = split_class(cls)
    pre = ""
    if nxt[:1] in (":", ",") and len(nxt) > 1:
        pre, nxt = SAN[nxt[0]] + "-", nxt[1:]
    nxt = {"|": "bar"}.get(nxt, SAN.get(nxt, nxt))
    return f"{kind}-{prod}-{pre}{nxt}-{ck}".replace(">", "-")


WHAT = {
    "lost": "a {ck} comment before `{nxt}` in {prod} is dropped by the formatter",
    "reordered": "a {ck} comment before `{nxt}` in {prod} is moved in front of comments that precede it in the source",
    "non-idempotent": "with a {ck} comment before `{nxt}` in {prod}, formatting the formatter's output changes it again",
    "breaks-syntax": "with a {ck} comment before `{nxt}` in {prod}, the formatter's output no longer parses",
    "crash": "with a {ck} comment before `{nxt}` in {prod}, the formatter or the re-parse panics",
    "altered": "with a {ck} comment before `{nxt}` in {prod}, the output contains comment text that was not in the input",
}


def propose():
    """Runs the thorough enumeration on the current tree with an EMPTY known list, groups the failures by
    (kind, slot class) and writes out/C09/known-findings-proposed.json plus one minimal witness per class."""
    d = outdir(PID)
    build_harness()
    stats = {"judged": 0, "tlc_states": 0, "drift": 0}
    cfg, width, width1, fplan = TIERS["thorough"]
    gen, cases, templates = generate(cfg, d)
    tt, ti = run_templates(d, cases, width, width1)
    print("templates:", json.dumps(ti)[:600])
    tf, fi = run_files(d, fplan)
    print("files:", json.dumps(fi)[:600])
    tmpl = {t["id"]: t["toks"] for t in templates}
    # per (kind, class): counts and the best witness candidate (template case with the fewest comments / tokens)
    groups = {}
    only_in_files = collections.Counter()
    for trace, tag in ((tt, "t"), (tf, "f")):
        for rec, fs in judge(trace, tag, stats):
            nins = sum(1 for c in rec["cm"] if c["ins"])
            for f in fs:
                # attribute to one class: a single-class failure names it; a whole-case failure of a single insertion too
                if len(f["cls"]) != 1:
                    continue
                key = (f["kind"], f["cls"][0])
                g = groups.setdefault(key, {"n": 0, "best": None, "files": 0})
                g["n"] += 1
                if rec["mode"] == "template":
                    cand = (nins, len(tmpl[rec["src"]]), rec["w"] != 100, rec["id"])
                    if g["best"] is None or cand < g["best"][0]:
                        g["best"] = (cand, rec)
                else:
                    g["files"] += 1
    # whole-case failures of pairs whose classes are all unexplained by a single-class group -> report
    entries, missing = [], []
    fdir = os.path.join(VERIF, "findings")
    os.makedirs(fdir, exist_ok=True)
    for old in os.listdir(fdir):
        if old.startswith("C09-") and "findings/" + old != OVERFLOW_WITNESS:
            os.remove(os.path.join(fdir, old))
    for key in sorted(groups):
        g = groups[key]
        if key[1] == OVERFLOW:
            entries.append({"status": "open", "property": PID, "region": f"{key[0]}:{key[1]}",
                            "what": "a line comment that does not fit in the rest of its line is re-flowed with a trailing empty `//` line and "
                                    "every further formatting adds one more (prettier.rs line_comment; pinned by prettier::tests::comment_tests, "
                                    f"so it cannot be repaired without editing the test suite) ({g['n']} cases of the thorough enumeration)",
                            "witness": OVERFLOW_WITNESS})
            continue
        if g["best"] is None:
            missing.append((key, g["n"]))
            continue
        rec = g["best"][1]
        text = minimal_witness(rec, tmpl[rec["src"]], key, d, stats)
        region = f"{key[0]}:{key[1]}"
        name = f"C09-{sanitise(region)}.sam"
        with open(os.path.join(fdir, name), "w") as f:
            f.write(text)
        prod, nxt, ck = split_class(key[1])
        entries.append({"status": "open", "property": PID, "region": region,
                        "what": WHAT[key[0]].format(ck=ck, nxt=nxt, prod=prod) + f" ({g['n']} cases of the thorough enumeration)",
                        "witness": f"findings/{name}"})
    with open(os.path.join(d, "known-findings-proposed.json"), "w") as f:
        json.dump(entries, f, indent=1)
        f.write("\n")
    print(len(entries), "entries written;", len(missing), "failing classes seen only in repository files (extend the corpus):")
    for key, n in missing:
        print("   ", n, key)
    table = collections.defaultdict(lambda: collections.Counter())
    for (kind, cls), g in groups.items():
        table[kind][cls.rsplit("|", 1)[0]] += g["n"]
    json.dump({k: dict(v) for k, v in table.items()}, open(os.path.join(d, "failing-classes.json"), "w"), indent=1)


def minimal_witness(rec, toks, key, d, stats):
    """the case's text with every class member that holds no inserted comment removed, if it still fails
    in the same way; else the whole template with the comments inserted"""
    case = {"mode": "template", "src": rec["src"], "case": rec["case"], "width": 100,
            "template_text": " ".join(t["s"] for t in toks)}
    full = observe_case(case, d, texts=True)[0]["x"] + "\n"
    slots = rec["case"]["slots"]                      # 1-based: the slot before token j
    starts = [i for i, t in enumerate(toks) if t["p"] == "member" and t["s"] in ("function", "method")]
    starts = [i - 1 if i > 0 and toks[i - 1]["s"] == "private" and toks[i - 1]["p"].endswith(".body") else i for i in starts]
    keep = [True] * len(toks)
    for n, st in enumerate(starts):
        # a member ends where the next one starts, or at the closing brace of its class
        close = next(i for i in range(st, len(toks)) if toks[i]["s"] == "}" and toks[i]["p"].endswith(".body"))
        en = min(close, starts[n + 1]) if n + 1 < len(starts) else close
        # slot j lies in the member if the token after it does; a slot before the token that ends the member too
        if not any(st <= j - 1 <= en for j in slots):
            for i in range(st, en):
                keep[i] = False
    if all(keep):
        return full
    new_index, n = {}, 0
    for i, kflag in enumerate(keep):
        if kflag:
            n += 1
            new_index[i + 1] = n
    new_index[len(toks) + 1] = n + 1
    if any(j not in new_index for j in slots):
        return full
    small = {"mode": "template", "src": rec["src"], "width": 100,
             "case": {"slots": [new_index[j] for j in slots], "kinds": rec["case"]["kinds"]},
             "template_text": " ".join(t["s"] for i, t in enumerate(toks) if keep[i])}
    rs = observe_case(small, d, texts=True, check=False)
    if not rs or not rs[0].get("valid"):
        return full
    r = rs[0]
    for c in r["cm"]:
        c["ins"] = True
    tr = os.path.join(d, "trace-min.ndjson")
    write_ndjson(tr, [r])
    for _, fs in judge(tr, "min", stats):
        if any(matches(f, key) for f in fs):
            return r["x"] + "\n"
    return full


if __name__ == "__main__":
    os.chdir(VERIF)
    {"regen": regen, "propose": propose}[sys.argv[1]]()
