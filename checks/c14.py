"""C14 — source positions attached to syntax are faithful to the text.
Decided by spec/Positions.tla: (1) TLC model-checks the position machine (zero-based line, BYTE column;
"\\n" alone ends a line; tab, "\\r" and every byte of a multi-byte character are one column) on all short
documents over the abstract alphabet: the incremental machine is the functional PosAfter, PosAfter is
compositional, offset <-> position conversion round-trips, positions are strictly monotone and inside the
document, and locations built as unions of token locations satisfy the tree predicates; (2) [TV] every
`.sam` of /repo/tests and /repo/std, generated modules and ill-typed variants, each under seeded
token-preserving layout perturbations, are handed to the real parser, checker and language services
(harness/src/positions.rs); spec/PositionsTrace.tla evaluates on every record the property's predicates
(inside the document, start <= end, parent encloses children, declared sibling groups pairwise disjoint,
names spell themselves, references spell the queried name) -- these decide -- and, as MODEL-DRIFT only,
that every location starts and ends where the machine says a token does."""
import glob, json, os, re, time
from concurrent.futures import ThreadPoolExecutor
from vlib import *

PID = "C14"
FINDINGS_DIR = os.path.join(VERIF, "findings")


def known():
    p = os.environ.get("VERIF_KF")
    if p:
        return [k for k in json.load(open(p)) if k.get("property") == PID and k.get("status") == "open"]
    return known_findings(PID)


# ---- signatures of known findings: narrow descriptions of a failure, decided on the logged record ----
def _children(rec, i):
    return [j + 1 for j, n in enumerate(rec["nodes"]) if n[0] == i]


def _ref_is_annotation_with_type_arguments(rec, fail):
    """NameSpellsItself on a find-references result that is exactly the range of an identifier annotation
    `Name<...>` whose identifier is the queried name."""
    if fail[0] != "NameSpellsItself" or fail[1] != "svc":
        return False
    row = rec["svc"][fail[2] - 1]
    if row[0] != "ref":
        return False
    loc = row[2:6]
    for i, n in enumerate(rec["nodes"]):
        if n[5] == "idannot" and n[1:5] == loc:
            kids = [rec["nodes"][j - 1] for j in _children(rec, i + 1)]
            if any(k[5] == "targs" for k in kids) and any(k[5] == "id" and k[6] == row[6] for k in kids):
                return True
    return False


def _query_site(rec, fail):
    """kind of the parent of the name the query position lies in (which search the services used)"""
    row = rec["svc"][fail[2] - 1]
    if len(row) < 8:
        return None
    l, c = row[7]
    for n in rec["nodes"]:
        if n[5] == "id" and n[1] == l == n[3] and n[2] <= c <= n[4] and n[6] == row[6] and n[0]:
            return rec["nodes"][n[0] - 1][5]
    return None


def sig_ref_range_includes_type_arguments(rec, fail):
    """... when the references come from the global search (query on a class declaration's name or on a
    class name used as an expression)"""
    return _ref_is_annotation_with_type_arguments(rec, fail) and _query_site(rec, fail) in ("class", "interface", "classid")


def sig_local_ref_range_includes_type_arguments(rec, fail):
    """... when the references come from the definition/use map of the module (query on a type annotation,
    an extends/implements node or a bound)"""
    return _ref_is_annotation_with_type_arguments(rec, fail) and _query_site(rec, fail) in ("idannot", "tparam", "extends")


def sig_module_name_range_includes_comment(rec, fail):
    """NameSpellsItself on the module name of an import whose range starts with the name and then runs on
    over white space into a comment."""
    if fail[0] != "NameSpellsItself" or fail[1] != "node":
        return False
    n = rec["nodes"][fail[2] - 1]
    if n[5] != "modname":
        return False
    sl, sc, el, ec = n[1:5]
    lines = rec["lines"]
    if not (sl < len(lines) and el < len(lines)):
        return False
    text = lines[sl][sc:] if sl != el else lines[sl][sc:ec]
    if sl != el:
        text += "\n" + "\n".join(lines[sl + 1:el]) + ("\n" if el > sl + 1 else "") + lines[el][:ec]
    parts = n[6].split(".")
    # name parts separated by dots, white space or comments, then white space, then a comment
    ws = r"(?:\s|/\*.*?\*/|//[^\n]*\n)*"
    pat = ws.join(re.escape(p) + (ws + r"\." if k + 1 < len(parts) else "") for k, p in enumerate(parts))
    m = re.match(pat, text, re.S)
    return bool(m) and re.match(r"\s*(/\*|//)", text[m.end():]) is not None


SIGNATURES = {
    "ref-range-includes-type-arguments": sig_ref_range_includes_type_arguments,
    "local-ref-range-includes-type-arguments": sig_local_ref_range_includes_type_arguments,
    "module-name-range-includes-comment": sig_module_name_range_includes_comment,
}


def explained_drift(rec, d, fails):
    """drift entries that are the same root cause as a failure already judged (the node itself or a child)"""
    if d[1] != "node":
        return False
    bad = {f[2] for f in fails if f[1] == "node"}
    return d[2] in bad or any(c in bad for c in _children(rec, d[2]))


def describe(rec, f):
    if f[1] == "node":
        n = rec["nodes"][f[2] - 1]
        out = {"predicate": f[0], "node": {"kind": n[5], "name": n[6], "loc": n[1:5]}}
        if len(f) > 3:
            m = rec["nodes"][f[3] - 1]
            out["other"] = {"kind": m[5], "name": m[6], "loc": m[1:5]}
        if n[0]:
            p = rec["nodes"][n[0] - 1]
            out["parent"] = {"kind": p[5], "loc": p[1:5]}
        if n[1] == n[3] and n[1] < len(rec["lines"]):
            out["text_at_range"] = rec["lines"][n[1]][n[2]:n[4]]
        return out
    if f[1] == "svc":
        r = rec["svc"][f[2] - 1]
        out = {"predicate": f[0], "reported": {"by": r[0], "module": r[1], "loc": r[2:6], "queried_name": r[6],
                                               "query_at": r[7] if len(r) > 7 else None}}
        if r[1] == rec["m"] and r[2] == r[4] and r[2] < len(rec["lines"]):
            out["text_at_range"] = rec["lines"][r[2]][r[3]:r[5]]
        return out
    return {"predicate": f[0], "what": f[1:]}


def validate(files, par):
    def one(f):
        return f, tlc("PositionsTrace", "PositionsTrace.cfg", env={"TRACE": f}, workers=1, deque=True, timeout=3000,
                      xmx="4g", tag="c14tv-" + os.path.basename(f))
    out = []
    with ThreadPoolExecutor(par) as ex:
        for f, r in ex.map(one, files):
            if not r.ok:
                log(r.out[-3000:])
                tool_failure(f"PositionsTrace failed on {f}: {r.error or r.violated}")
            vs = behaviours_from(r, "VERDICT")
            rows = read_ndjson(f)
            if len(vs) != len(rows):
                tool_failure(f"PositionsTrace judged {len(vs)} of {len(rows)} records of {f}")
            out.append((f, r, vs, rows))
    return out


def judge(results, stats, inputs_by_id, samples):
    """Returns the number of records with a violation that is not a known finding."""
    kfs = known()
    active = [(k, SIGNATURES[k["signature"]]) for k in kfs if k.get("signature") in SIGNATURES]
    bad = 0
    reported_kinds = set()
    for f, r, vs, rows in results:
        stats["tlc_states"] += r.generated
        for v in vs:
            rec = rows[v["l"] - 1]
            stats["records"] += 1
            stats["nodes"] += len(rec["nodes"])
            stats["tokens"] += len(rec["toks"])
            stats["svc_locations"] += len(rec["svc"])
            stats["sibling_groups"] += len(rec["groups"])
            lay = rec["layout"].split(":")[0]
            stats["by_layout"][lay] = stats["by_layout"].get(lay, 0) + 1
            for k, n in rec["stats"].items():
                stats["impl"][k] = stats["impl"].get(k, 0) + n
            fails = v["fails"]
            unknown = []
            for fl in fails:
                hit = next((k for k, sig in active if sig(rec, fl)), None)
                if hit is not None:
                    stats["known"][hit["signature"]] = stats["known"].get(hit["signature"], 0) + 1
                else:
                    unknown.append(fl)
            if unknown:
                bad += 1
                kinds = {(u[0], u[1], (rec["nodes"][u[2] - 1][5] if u[1] == "node" else rec["svc"][u[2] - 1][0])) for u in unknown}
                if not kinds <= reported_kinds and len(reported_kinds) < 12:
                    reported_kinds |= kinds
                    inp = inputs_by_id.get(rec["id"], {})
                    path = save_replay(PID, "document",
                                       {"m": rec["m"], "origin": rec["origin"], "layout": rec["layout"], "text": inp.get("text", "")},
                                       "every reported location lies inside the document, start <= end, parents enclose children, "
                                       "sibling groups are disjoint, names and references spell the name (Positions.tla part B)",
                                       {"failures": len(unknown), "first": [describe(rec, u) for u in unknown[:5]]})
                    report_violation(PID, path)
            drift = [d for d in v["drift"] if not explained_drift(rec, d, fails)]
            if drift:
                stats["drift_records"] += 1
                if stats["drift_records"] <= 5:
                    log(f"MODEL-DRIFT: {rec['origin']} [{lay}]: {v['ndrift']} locations not explained by the token "
                        f"positions of the machine, e.g. {[describe(rec, d) for d in drift[:2]]}")
            if len(samples) < 3 and rec["nodes"]:
                k = min(len(rec["nodes"]), 7)
                samples.append({"origin": rec["origin"], "layout": lay, "nodes": rec["nodes"][:k], "svc": rec["svc"][:3]})
    for k in kfs:
        n = stats["known"].get(k.get("signature"), 0)
        if n:
            report_known(PID, f"{k['what']} [{n} locations in this run; witness {k.get('witness')}]")
    return bad


def new_stats():
    return {"records": 0, "nodes": 0, "tokens": 0, "svc_locations": 0, "sibling_groups": 0, "tlc_states": 0,
            "drift_records": 0, "known": {}, "by_layout": {}, "impl": {}}


def coverage_counts(out):
    c = {}
    for m in re.finditer(r"^<(\w+) line .*?>: (\d+):(\d+)", out, re.M):
        c[m.group(1)] = c.get(m.group(1), 0) + int(m.group(3))
    return c


def run(tier):
    t0 = time.time()
    d = outdir(PID)
    build_harness()
    # 1. the position machine, exhaustively on short documents
    mcs = [("PositionsMCquick.cfg", True), ("PositionsMCmarks.cfg", False)]
    if tier != "quick":
        mcs += [("PositionsMCthorough.cfg", False), ("PositionsMCthorough2.cfg", False)]
    states = transitions = 0
    mc_info = {}
    for cfg, cov in mcs:
        mc = tlc("PositionsMC", cfg, workers=8, timeout=3000, coverage=cov, tag="c14mc")
        tlc_must_pass(mc, f"PositionsMC ({cfg})")
        states += mc.distinct
        transitions += mc.generated
        mc_info[cfg] = {"states": mc.distinct, "transitions": mc.generated, "depth": mc.depth, "wall_s": round(mc.wall, 1)}
        if cov:
            c = coverage_counts(mc.out)
            if not c.get("Read"):
                tool_failure(f"vacuity: the machine never read a character ({c})")
    cm = tlc("PositionsMC", "PositionsMCmarks.cfg", workers=4, timeout=600, coverage=True, tag="c14mcv")
    c = coverage_counts(cm.out)
    if not c.get("Mark") or not c.get("Read"):
        tool_failure(f"vacuity: Mark/Read never taken ({c})")
    # 2. inputs and the real code
    for old in glob.glob(os.path.join(d, "trace-*.ndjson")):
        os.remove(old)
    inputs = os.path.join(d, "inputs.ndjson")
    if tier == "quick":
        gen_args = ["--layouts", 3, "--generated", 30, "--variants", 30, "--max-bytes", 20000]
        run_args = ["--max-positions", 50, "--completion-every", 12, "--chunk", 30]
        par = 8
    else:
        gen_args = ["--layouts", 22, "--generated", 120, "--variants", 120]
        run_args = ["--max-positions", 120, "--completion-every", 20, "--chunk", 40]
        par = 10
    out, _ = vh(["positions-gen", "--seed", SEED, "--out", inputs, "--extra", FINDINGS_DIR] + gen_args)
    ginfo = json.loads(out)
    out, _ = vh(["positions-run", "--in", inputs, "--out-prefix", os.path.join(d, "trace"), "--seed", SEED] + run_args)
    rinfo = json.loads(out)
    if rinfo["records"] == 0 or rinfo["records"] < 0.9 * ginfo["inputs"]:
        tool_failure(f"only {rinfo['records']} of {ginfo['inputs']} inputs could be run: {rinfo['skipped']} {rinfo['skipped_examples']}")
    inputs_by_id = {r["id"]: r for r in read_ndjson(inputs)}
    # 3. TLC judges every record
    stats = new_stats()
    samples = []
    results = validate(rinfo["files"], par)
    bad = judge(results, stats, inputs_by_id, samples)
    if stats["impl"].get("diag", 0) == 0 or stats["impl"].get("ref", 0) == 0 or stats["impl"].get("edit", 0) + stats["impl"].get("cedit", 0) == 0:
        tool_failure(f"vacuity: no diagnostics / references / edits were observed ({stats['impl']})")
    coverage = {
        "states": states, "transitions": transitions,
        "traces_validated_against_impl": stats["records"],
        "samples": samples,
        "model_configs": mc_info,
        "inputs": ginfo, "skipped_inputs": rinfo["skipped"],
        "records_by_layout": stats["by_layout"],
        "tree_nodes_checked": stats["nodes"], "sibling_groups_checked": stats["sibling_groups"],
        "tokens_positioned_by_machine": stats["tokens"],
        "service_locations_checked": stats["svc_locations"],
        "observed_on_impl": stats["impl"],
        "trace_states_checked_by_tlc": stats["tlc_states"],
        "known_finding_locations": stats["known"],
        "model_drift_records": stats["drift_records"],
        "records_with_violation": bad,
        "exhaustive": False,
    }
    write_evidence(PID, tier, "model_checking", coverage,
                   ["the coordinate system is the code's own: zero-based line, BYTE column, lines end at \\n only",
                    "the lexer is not public: its token positions are observed through the parser's node locations "
                    "(every node must start/end where the specification's machine puts a token of the harness's scanner); "
                    "that binding is reported as drift, names are judged by slicing the text",
                    "sibling groups are named by the harness from the AST (members, parameters, arguments, statements, "
                    "cases, pattern elements, type arguments, ...); type definition vs type parameters and a shorthand "
                    "field pattern vs its name legitimately share ranges and are not grouped",
                    "rename returns a whole document (no edit ranges); edit ranges come from code actions and completion",
                    "positions >= 2e9 (u32::MAX of dummy locations) are clamped to 2e9 before TLC sees them",
                    "TLC 1.8.0 and the CommunityModules Json/IOUtils/SequencesExt overrides are correct"],
                   time.time() - t0, bad)
    return 1 if bad else 0


def replay(path):
    """Runs the real code on the document of a replay file and lets PositionsTrace.tla judge it."""
    d = outdir(PID)
    case = json.load(open(path))["case"]
    inputs = os.path.join(d, "replay-inputs.ndjson")
    write_ndjson(inputs, [{"id": "replay", "m": case["m"], "origin": case.get("origin", ""), "layout": case.get("layout", ""),
                           "text": case["text"]}])
    for old in glob.glob(os.path.join(d, "replay-trace-*.ndjson")):
        os.remove(old)
    out, _ = vh(["positions-run", "--in", inputs, "--out-prefix", os.path.join(d, "replay-trace"), "--seed", SEED,
                 "--max-positions", 400, "--completion-every", 10])
    info = json.loads(out)
    if info["records"] != 1:
        tool_failure(f"the replay document could not be run: {info['skipped_examples']}")
    stats = new_stats()
    results = validate(info["files"], 1)
    for f, r, vs, rows in results:
        for v in vs:
            for fl in v["fails"][:10]:
                log("failure:", json.dumps(describe(rows[v["l"] - 1], fl), ensure_ascii=False))
    bad = judge(results, stats, {"replay": {"text": case["text"]}}, [])
    return 1 if bad else 0
