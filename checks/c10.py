"""C10 — incremental language-server diagnostics equal a from-scratch analysis.
Decided by spec/Server.tla: (1) TLC model-checks invariant C10 (errs = FreshErrors) and the domain
bookkeeping exhaustively over a pool of abstract contents; (2) [BR] TLC-simulated histories are
instantiated as real .sam texts and run on the real ServerState; (3) [TV] seeded random histories over a
richer pool of free-form texts.  Every recorded trace is judged by spec/ServerTrace.tla: the verdict is
`diag = fresh` for every module after every edit (the property's own oracle, evaluated by TLC on the
logged observations); strict mode (each step is the Server.tla action and yields the logged projection:
map domains, recheck set, abstracted diagnostics) only reports drift."""
import json, os, re, time
from vlib import *

PID = "C10"
VERDICT_CFG = "ServerTraceC10.cfg"
QUERIES = "none"
LONG = True     # identifiers of >= 16 bytes live in the collected string table: stale handles show as wrong diagnostics
SLICES = [100, 1]


def event_to_op(e):
    op = {"op": e["ev"]}
    for k in ("files", "u", "pairs", "mods"):
        if k in e:
            op[k] = e[k]
    return op


def history_of(rows, l):
    """ops of the history containing 1-based line l, up to l."""
    start = max(i for i in range(l) if rows[i]["ev"] == "Init")
    return [event_to_op(r) for r in rows[start:l]]


MEMBERS_HEAD = "The following members must be implemented for the class:"


def _sorted_member_list(msg):
    """the `must be implemented` diagnostic with its list of names sorted by spelling"""
    if MEMBERS_HEAD not in msg:
        return msg
    head, _, rest = msg.partition(MEMBERS_HEAD)
    lines = rest.split("\n")
    names = sorted(l for l in lines if l.startswith("- `"))
    other = [l for l in lines if not l.startswith("- `")]
    return head + MEMBERS_HEAD + "\n".join(other[:1] + names + other[1:])


BINDINGS_RE = re.compile(r"(Expected bindings: \[)([^\]]*)(\], actual bindings: \[)([^\]]*)(\]\.)")


def _sorted_binding_lists(msg):
    """the `Or-pattern alternatives must bind the same variables` diagnostic with both of its name lists sorted by
    spelling (the checker lists them in BTreeSet<PStr> order, i.e. interning order for names longer than 15 bytes)"""
    def fix(m):
        srt = lambda x: ", ".join(sorted(n.strip() for n in x.split(",")))
        return m.group(1) + srt(m.group(2)) + m.group(3) + srt(m.group(4)) + m.group(5)
    return BINDINGS_RE.sub(fix, msg)


def _canon_name_lists(msg):
    return _sorted_binding_lists(_sorted_member_list(msg))


def excuse_interning_order(pid, trace, stats):
    """Open finding `member-list-in-interning-order`: names longer than 15 bytes are ordered by when they were first
    interned, so a long-running server and a fresh one list the missing members differently.  Where the held and the
    fresh diagnostics differ ONLY in the order of the names of such a list, both are rewritten to the sorted form
    (counted, reported); every other difference stays."""
    kf = next((k for k in known_findings("C10") if k.get("region") == "member-list-in-interning-order"), None)
    kfb = next((k for k in known_findings("C10") if k.get("region") == "or-pattern-bindings-in-interning-order"), None)
    if not kf and not kfb:
        return
    rows = read_ndjson(trace)
    n = nb = 0
    for r in rows:
        post = r.get("post") or {}
        d, f = post.get("diag"), post.get("fresh")
        if not isinstance(d, dict) or not isinstance(f, dict) or d == f:
            continue
        dc = {m: sorted(_sorted_member_list(x) for x in v) for m, v in d.items()}
        fc = {m: sorted(_sorted_member_list(x) for x in v) for m, v in f.items()}
        if kf and dc == fc:
            post["diag"], post["fresh"] = dc, fc
            n += 1
            continue
        if not kfb:
            continue
        # the same root cause (PStr order = interning order) shows in a second list of names: the bindings listed by
        # `Or-pattern alternatives must bind the same variables` (checker: BTreeSet<PStr>).  Same narrow rule: only
        # where the order inside those lists is the ONLY difference are both sides rewritten to the sorted form.
        dc = {m: sorted(_canon_name_lists(x) for x in v) for m, v in d.items()}
        fc = {m: sorted(_canon_name_lists(x) for x in v) for m, v in f.items()}
        if dc == fc:
            post["diag"], post["fresh"] = dc, fc
            nb += 1
    if n or nb:
        write_ndjson(trace, rows)
        stats["excused_member_list_order"] = stats.get("excused_member_list_order", 0) + n
        stats["excused_binding_list_order"] = stats.get("excused_binding_list_order", 0) + nb


def judge(pid, cfg, trace, tag, stats, source):
    if pid == "C10":
        excuse_interning_order(pid, trace, stats)
    rows = read_ndjson(trace)
    env = {"TRACE": trace, "TRACE_HDR": trace + ".hdr"}
    v = tlc("ServerTrace", cfg, env=env, deque=True, tag=f"{pid}v-{tag}", timeout=3000)
    s = tlc("ServerTrace", "ServerTraceStrict.cfg", env=env, deque=True, tag=f"{pid}s-{tag}", timeout=3000)
    stats["events"] += len(rows)
    stats["histories"] += sum(1 for r in rows if r["ev"] == "Init")
    stats["abstract_events"] += sum(1 for r in rows if r.get("abstract"))
    stats["requests"] += sum(r.get("requests", 0) for r in rows)
    stats["edit_panics"] += sum(1 for r in rows if "panic" in r)
    stats["resends"] = stats.get("resends", 0) + sum(1 for r in rows if r.get("same"))
    stats["resends_syn"] = stats.get("resends_syn", 0) + sum(1 for r in rows if r.get("same_syn"))
    stats["cross_module_locations"] = stats.get("cross_module_locations", 0) + sum(
        1 for r in rows if "is incompatible with `interface type`" in json.dumps((r.get("post") or {}).get("fresh", {})))
    stats["tlc_states"] += v.generated + s.generated
    if v.violated:
        l = (v.last_l() or 2) - 1
        ev = rows[l - 1]
        post = ev.get("post", {})
        observed = {"invariant": v.violated, "event": event_to_op(ev)}
        if v.violated in ("DiagEqFresh", "NothingForGone"):
            observed["diag"] = post.get("diag"); observed["fresh"] = post.get("fresh"); observed["diag_gone"] = post.get("diag_gone")
        else:
            observed["panic"] = ev.get("panic") or post.get("diag_panic"); observed["qpanics"] = ev.get("qpanics", [])[:5]
        path = save_replay(pid, "server-history", {"source": source, "ops": history_of(rows, l),
                                                   "queries": QUERIES, "slice": stats.get("slice", 100)},
                           f"{v.violated} holds after every edit", observed)
        report_violation(pid, path)
        return 1
    if not v.ok:
        log(v.out[-3000:])
        tool_failure(f"ServerTrace verdict run failed on {trace}: {v.error}")
    if not s.ok or s.violated:
        stats["drift"] += 1
        log(f"MODEL-DRIFT: {source}: step not explained by Server.tla ({s.violated or s.error}); "
            f"first unmatched: {[p for p in s.printed if p[0] == 'UNMATCHED'][:1]}")
    return 0


def generate_sim(tier, d, seed_off=0, n_thorough=4000):
    n, depth = (300, 10) if tier == "quick" else (n_thorough, 12)
    sim = tlc("ServerGen", "ServerGenSim.cfg", workers=1, timeout=1500, tag=f"{PID}sim",
              simulate=(f"num={n}", depth + 1), extra=["-seed", str(SEED + seed_off)])
    behs = behaviours_from(sim)
    if not behs:
        log(sim.out[-2000:])
        tool_failure("ServerGen produced no behaviours")
    if tier == "quick":
        behs = behs[:400]
    p = os.path.join(d, "ops-sim.ndjson")
    write_ndjson(p, behs)
    return p, behs


def run_common(pid, cfg, tier, long_ids, queries, slices, model_invariants, n_thorough=4000):
    t0 = time.time()
    d = outdir(pid)
    build_harness()
    stats = {"events": 0, "histories": 0, "abstract_events": 0, "requests": 0, "edit_panics": 0,
             "tlc_states": 0, "drift": 0}
    # 1. exhaustive model checking of the bounded design
    mcfg = "ServerMCquick.cfg" if tier == "quick" else "ServerMCthorough.cfg"
    mc = tlc("ServerMC", mcfg, workers=8, timeout=3400, xmx="16g", tag=f"{pid}mc", coverage=False)
    tlc_must_pass(mc, "Server.tla model checking")
    fails = 0
    samples = []
    # 2. [BR] TLC-simulated histories on the real server
    ops_sim, behs = generate_sim(tier, d, n_thorough=n_thorough)
    samples.append({"tlc_history": behs[0][:4]})
    # 3. [TV] seeded random histories over free-form texts
    ops_rand = os.path.join(d, "ops-rand.ndjson")
    n, ln = (300, 10) if tier == "quick" else (n_thorough, 14)
    vh(["server-gen", "--seed", SEED, "--n", n, "--len", ln, "--out", ops_rand] + (["--long"] if long_ids else []))
    rand_first = json.loads(open(ops_rand).readline())
    samples.append({"random_history": rand_first[:3]})
    for si, sl in enumerate(slices):
        stats["slice"] = sl
        for name, ops in (("sim", ops_sim), ("rand", ops_rand)):
            tr = os.path.join(d, f"trace-{name}-{sl}.ndjson")
            vh(["server-replay", "--ops", ops, "--out", tr, "--queries", queries, "--slice", sl, "--seed", SEED])
            fails += judge(pid, cfg, tr, f"{name}{sl}", stats, f"{name} histories, modules/GC slice={sl}")
    coverage = {
        "states": mc.distinct, "transitions": mc.generated,
        "traces_validated_against_impl": stats["histories"],
        "samples": samples,
        "model_config": mcfg, "model_invariants": model_invariants,
        "edit_events_validated": stats["events"],
        "events_followed_by_Server_tla_strict": stats["abstract_events"],
        "requests_issued": stats["requests"],
        "edits_that_panicked": stats["edit_panics"],
        "gc_modules_per_slice": slices,
        "trace_states_checked_by_tlc": stats["tlc_states"],
        "model_drift_traces": stats["drift"],
        "events_excused_by_member_list_order": stats.get("excused_member_list_order", 0),
        "events_excused_by_binding_list_order": stats.get("excused_binding_list_order", 0),
        "updates_resending_an_unchanged_text": stats.get("resends", 0),
        "of_those_for_a_module_holding_a_syntax_error": stats.get("resends_syn", 0),
        "events_with_a_class_as_super_type_diagnostic": stats.get("cross_module_locations", 0),
        "exhaustive": False,
    }
    return coverage, fails, time.time() - t0


ASSUMPTIONS = [
    "hook H2 reports the recheck set and map domains faithfully",
    "contents are drawn from the abstract pool of Server.tla and 24 free-form templates (well-typed, ill-typed-but-parseable, unparseable) over 4 module names, three scripted dependency-chain prefixes, and updates re-sending a module's current text",
    "a freshly started ServerState on the same texts is the from-scratch analysis the property refers to",
    "TLC 1.8.0 and the CommunityModules Json/IOUtils overrides are correct",
]


def run(tier):
    coverage, fails, wall = run_common(PID, VERDICT_CFG, tier, LONG, QUERIES, SLICES,
                                       ["C10", "SigBuiltFor", "SigDomain", "CheckedDomain", "RecheckCovers"])
    for region, key in (("member-list-in-interning-order", "events_excused_by_member_list_order"),
                        ("or-pattern-bindings-in-interning-order", "events_excused_by_binding_list_order")):
        kf = next((k for k in known_findings(PID) if k.get("region") == region), None)
        if kf:
            report_known(PID, f"{kf['what']} [{coverage.get(key, 0)} events of this run differ only in that order]")
    write_evidence(PID, tier, "model_checking", coverage, ASSUMPTIONS, wall, fails)
    return 1 if fails else 0


def replay_common(pid, cfg, path):
    d = outdir(pid)
    case = json.load(open(path))["case"]
    write_ndjson(os.path.join(d, "ops-replay.ndjson"), [case["ops"]])
    tr = os.path.join(d, "trace-replay.ndjson")
    vh(["server-replay", "--ops", os.path.join(d, "ops-replay.ndjson"), "--out", tr,
        "--queries", case.get("queries", "none"), "--slice", case.get("slice", 100), "--seed", SEED])
    stats = {"events": 0, "histories": 0, "abstract_events": 0, "requests": 0, "edit_panics": 0,
             "tlc_states": 0, "drift": 0}
    return judge(pid, cfg, tr, "replay", stats, "replay")


def replay(path):
    return replay_common(PID, VERDICT_CFG, path)
