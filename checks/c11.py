"""C11 — the language server survives every history of edits and queries.
Decided by spec/Server.tla (+ ServerTrace.tla): TLC model-checks the map-domain preconditions the
requests rely on (SigDomain, CheckedDomain, FormatSafe) over all histories of the bounded model; the real
server is driven through TLC-simulated and seeded random histories with identifiers of >= 16 bytes at every
site, with the number of modules marked per GC slice set to {production, 1, 2} (hook H2), and after every
edit every request kind is issued at a grid of positions of every module (and outside the text) under
catch_unwind; ServerTrace.tla accepts a trace iff no edit, no request and no rendering of the held
diagnostics panicked (in particular with "Dereferencing deallocated string")."""
import c10
from vlib import *

PID = "C11"
CFG = "ServerTraceC11.cfg"


def run(tier):
    c10.PID_FOR_GEN = PID
    queries = "sparse" if tier == "quick" else "dense"
    c10.QUERIES = queries
    slices = [100, 1] if tier == "quick" else [100, 1, 2]
    coverage, fails, wall = c10.run_common(PID, CFG, tier, True, queries, slices,
                                           ["SigDomain", "CheckedDomain", "FormatSafe", "SigBuiltFor"],
                                           n_thorough=1200)    # dense queries x 3 GC slice sizes: about 40 min
    coverage["rule"] = "requests: hover, definition, references, signature help, completion, code actions, rename at sampled/all columns of every line (+ beyond end of line, beyond end of file, 0:0, u32::MAX); format, folding ranges, diagnostics rendering per module"
    write_evidence(PID, tier, "model_checking", coverage,
                   c10.ASSUMPTIONS + ["requests are issued at samlang_services' API, the layer the LSP glue calls one-to-one",
                                      "sweep work unit stays at the production value (whole table); incremental sweeping is covered by C17"],
                   wall, fails)
    return 1 if fails else 0


def replay(path):
    import json
    c10.QUERIES = json.load(open(path))["case"].get("queries", "sparse")
    return c10.replay_common(PID, CFG, path)
