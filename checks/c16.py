"""C16 — text edits proposed by the language server apply cleanly and do what they say.

Decided by spec/Edits.tla: (1) TLC enumerates the document space (0..N existing imports, any order, with /
without `;`, comment kinds, blank lines, an import that already names another class of the exporting module,
1–2 exporters, four concrete layouts) in spec/EditsGen.tla, checks the specification's own theorems on it
and prints every case with its concrete text; (2) every case is given to the real language server
(`rewrite::code_actions` and `completion::auto_complete` at every place where the class name is written in an
expression: where it is unresolved AND where it is bound already -- the space has documents that import the class from
one of two or three modules exporting a class of that name, at any position among the imports, and documents that
declare it themselves) by `vh edits-run`, which records the proposed edits and what the real parser/checker say before and
after applying them; (3) the same after edit histories: spec/EditsHist.tla models the workspace side (the modules that
may export the class are updated -- created, edited so that they stop / start exporting it, broken --, REMOVED and
RENAMED) and says what the live workspace and the live exporters are afterwards; spec/EditsHistGen.tla enumerates
every history of up to N operations from every initial workspace, the driver replays each on the real server
(`ServerState::update / remove / rename_module`) under a document of the space, plus seeded random longer histories
that also edit the document and the other modules; (4) spec/EditsTrace.tla judges every record -- a proposal is
always judged on a FRESH server started from the live workspace (as EditsHist.tla computes it, text for text) with
the edited document, never on the running server's own diagnostics; "otherwise the same program" is judged on the
printed toplevels AND semantically (EditsTrace!NoNewDiagnostic: no diagnostic of any kind that was not there before,
EditsTrace!BoundNamesStayBound: every class name bound before is bound to the same module after, last import wins): the verdict conditions are the clauses of
the property evaluated by TLC on the logged observations; disagreement between Edits.tla's ApplyEdits /
transcribed fix shapes / import-section reader and the harness / implementation is MODEL-DRIFT only.
The space also has (family "multi") layouts in which existing imports SPAN SEVERAL LINES (member list wrapped, `from M` or
the last token on a line of its own, comments inside; the last import, the earlier ones, or all) and (family "std") documents
that use a class the STANDARD LIBRARY exports (Pair, Triple, Option, List) in a workspace that holds the library
(`with_std`: the driver loads `builtin_std_raw_sources`); a proposal without any edit for a class that is unresolved and
that no import names fails ClassImportedFromNamedModule / ClassNoLongerUnresolved like any other."""
import json, os, random, re, time, threading
from vlib import *

PID = "C16"
SIG = "last-import-without-semicolon"
WITNESS_DEFAULT = "findings/C16-import-after-import-without-semicolon.json"
CHUNK = 6000           # records per TLC run
TLC_PAR = 3            # TLC runs in parallel
TLC_WORKERS = 4


def open_findings():
    """open known findings of C16 (env VERIF_KF=<file> overrides the committed list: development aid)"""
    p = os.environ.get("VERIF_KF")
    if p:
        return [k for k in json.load(open(p)) if k.get("property") == PID and k.get("status") == "open"]
    return known_findings(PID)


def in_known_region(case, kfs):
    return any(k.get("signature") == SIG for k in kfs) and not case.get("last_semi", True)


def case_id(c):
    d = c["doc"]
    imps = "+".join(f"{k}{'s' if i['semi'] else 'n'}{i['cmt'][0]}{'b' if i['blank'] else '-'}"
                    for k, i in zip(d["keys"], d["imports"]))
    cls = "" if c["cls"] == "Foo" else "/" + c["cls"]
    return f"{d['layout']}/{imps or 'noimports'}/{'+'.join(c['exporters'])}{cls}"


# ---------------------------------------------------------------------------------------------------
# random edit histories that end in a document of the enumerated space

# the candidate exporters of spec/EditsHist.tla and the texts of HistText (EditsTrace.tla compares them text for text)
CANDS = ("A", "E", "Z")
DIGIT = {"A": "2", "E": "5", "Lib.Exp": "7"}
A_OTHER = "class Other {\n  function baz(): int = 3\n}\n"
UNRELATED = "class Unrelated {\n  function bar(): int = 5\n}\n"
BROKEN = ["class {\n", "import { Foo from A\nclass Main {}\n", "", "class Main {\n  function main(): int = (\n}\n"]


def hist_text(m, kind):
    foo = "class Foo {\n  function bar(): int = " + DIGIT.get(m, "9") + "\n}\n"
    return {"foo": (foo + A_OTHER) if m == "A" else foo, "nofoo": A_OTHER if m == "A" else UNRELATED, "broken": BROKEN[0]}[kind]


def apply_hop(ws, o):
    """EditsHist!ApplyOp on {module: (kind, text)} (absent modules are not in the dict)"""
    ws = dict(ws)
    if o["op"] == "update":
        ws[o["m"]] = (o["kind"], hist_text(o["m"], o["kind"]))
    elif o["op"] == "remove":
        ws.pop(o["m"], None)
    elif o["op"] == "rename" and o["m"] in ws and o["m"] != o["to"]:
        ws[o["to"]] = ws.pop(o["m"])
    return ws


def static_mods(target):
    """the modules of a document's workspace that no history touches: everything but the candidate exporters of
    EditsHist.tla and the document's own exporters (in a history the class is exported by the live candidates only)"""
    return {m: t for m, t in target["mods"].items() if m not in CANDS and m not in target["exporters"]}


def hist_case(hid, target, hinit, hops, init_extra, hist, ws0, ws):
    """a case of `vh edits-run`: document `target` of the space under the live workspace `ws` the history ends in"""
    static = static_mods(target)
    live = {m: kt[1] for m, kt in ws.items()}
    init = dict(static)
    init.update({m: kt[1] for m, kt in ws0.items()})
    init["Doc"] = target["text"]
    init.update(init_extra)
    return {"id": f"{hid}:{case_id(target)}", "src": "history", "text": target["text"], "mods": dict(static, **live),
            "cls": target["cls"], "exporters": sorted(m for m, kt in ws.items() if kt[0] == "foo"),
            "last_semi": target["last_semi"], "already_named": target.get("already_named", False),
            "bound_to": target.get("bound_to", ""),
            "layout": target["doc"]["layout"], "init": init, "hist": hist,
            "hinit": hinit, "hops": hops, "cand_mods": live}


def op_call(o):
    """one call of the server's workspace interface for an operation of EditsHist.tla"""
    if o["op"] == "update":
        return {"op": "update", "files": {o["m"]: hist_text(o["m"], o["kind"])}}
    if o["op"] == "remove":
        return {"op": "remove", "mods": [o["m"]]}
    return {"op": "rename", "pairs": [[o["m"], o["to"]]]}


def op_tag(o):
    return {"update": f"u{o['m']}={o['kind']}", "remove": f"rm{o['m']}", "rename": f"mv{o['m']}>{o['to']}"}[o["op"]]


def enumerated_histories(pool, hists, rng):
    """the histories spec/EditsHistGen.tla printed, each under a document of the space (seeded choice)"""
    out = []
    for i, h in enumerate(hists):
        target = rng.choice(pool)
        ws0 = {m: (k, hist_text(m, k)) for m, k in h["hinit"].items() if k != "absent"}
        ws = ws0
        for o in h["hops"]:
            ws = apply_hop(ws, o)
        # the driver's replay must be the specification's (TLC printed the live files)
        if {x["m"]: x["t"] for x in h["live"]} != {m: kt[1] for m, kt in ws.items()} or \
           {x["m"]: x["t"] for x in h["init"]} != {m: kt[1] for m, kt in ws0.items()} or \
           [x["text"] for x in h["ops"]] != [hist_text(o["m"], o["kind"]) if o["op"] == "update" else "" for o in h["hops"]]:
            tool_failure(f"c16.py replays history {h['hops']} from {h['hinit']} differently from EditsHist.tla")
        tag = "+".join(op_tag(o) for o in h["hops"]) or "fresh"
        init_tag = "".join(f"{m}{k[0]}" for m, k in sorted(h["hinit"].items()))
        out.append(hist_case(f"ws{i}:{init_tag}:{tag}", target, h["hinit"], h["hops"], {}, [op_call(o) for o in h["hops"]], ws0, ws))
    return out


def histories(pool, n, rng):
    """seeded random longer histories: workspace operations on the candidate exporters (single and batched), edits of
    the document and of the other modules in between"""
    out = []
    for h in range(n):
        target = rng.choice(pool)
        static = static_mods(target)

        def doc_variant():
            k = rng.randrange(6)
            other = rng.choice(pool)["text"]
            if k == 0:
                return other
            if k == 1:
                return rng.choice(BROKEN)
            if k == 2:   # the class was imported (resolved) earlier
                return "import { Foo } from A;\n" + target["text"]
            if k == 3:
                return target["text"].replace("Foo", "Bar")
            if k == 4:
                return target["text"]
            return "import { Foo } from E\n" + other

        hinit = {"A": rng.choice(["foo", "foo", "nofoo", "absent"]), "E": rng.choice(["foo", "nofoo", "absent"]),
                 "Z": rng.choice(["absent", "absent", "foo", "nofoo"])}
        ws0 = {m: (k, hist_text(m, k)) for m, k in hinit.items() if k != "absent"}
        ws, hops, hist = ws0, [], []
        init_extra = {"Doc": doc_variant()}
        for m in sorted(static):
            r = rng.random()
            if r < 0.15:
                init_extra[m] = rng.choice(BROKEN)
        for _ in range(rng.randrange(1, 6)):
            r = rng.random()
            if r < 0.25:
                hist.append({"op": "update", "files": {"Doc": doc_variant()}})
            elif r < 0.35 and static:
                m = rng.choice(sorted(static))
                hist.append({"op": "update", "files": {m: rng.choice([static[m]] + BROKEN)}})
            else:
                kind = rng.choice(["update", "update", "remove", "remove", "rename", "rename"])
                ms = rng.sample(CANDS, rng.choice([1, 1, 2]))
                if kind == "update":
                    ops = [{"op": "update", "m": m, "kind": rng.choice(["foo", "nofoo", "nofoo", "broken"]), "to": ""} for m in ms]
                    call = {"op": "update", "files": {o["m"]: hist_text(o["m"], o["kind"]) for o in ops}}
                elif kind == "remove":
                    ops = [{"op": "remove", "m": m, "kind": "", "to": ""} for m in ms]
                    call = {"op": "remove", "mods": ms}
                else:
                    ops = [{"op": "rename", "m": m, "kind": "", "to": rng.choice([x for x in CANDS if x != m])} for m in ms]
                    call = {"op": "rename", "pairs": [[o["m"], o["to"]] for o in ops]}
                for o in ops:
                    ws = apply_hop(ws, o)
                hops += ops
                hist.append(call)
        out.append(hist_case(f"hist{h}", target, hinit, hops, init_extra, hist, ws0, ws))
    return out


# ---------------------------------------------------------------------------------------------------

def judge_records(records, tag):
    """Runs EditsTrace.tla on the records (chunked, a few TLC processes at a time).
    Returns (verdicts aligned with records, total generated states, total distinct states)."""
    d = outdir(PID)
    chunks = [records[i:i + CHUNK] for i in range(0, len(records), CHUNK)]
    results = [None] * len(chunks)
    sem = threading.Semaphore(TLC_PAR)

    def work(k):
        with sem:
            p = os.path.join(d, f"trace-{tag}-{k}.ndjson")
            write_ndjson(p, chunks[k])
            results[k] = tlc("EditsTrace", "EditsTrace.cfg", env={"TRACE": p}, workers=TLC_WORKERS,
                             timeout=3000, tag=f"c16tr-{tag}-{k}")

    ts = [threading.Thread(target=work, args=(k,)) for k in range(len(chunks))]
    [t.start() for t in ts]
    [t.join() for t in ts]
    verdicts, gen, dist = [], 0, 0
    for k, r in enumerate(results):
        if not r.ok:
            log(r.out[-3000:])
            tool_failure(f"EditsTrace failed on chunk {k} of {tag}: {r.violated or r.error}")
        vs = {v["r"]: v for v in behaviours_from(r, "VERDICT")}
        if sorted(vs) != list(range(1, len(chunks[k]) + 1)):
            tool_failure(f"EditsTrace judged {len(vs)} of {len(chunks[k])} records in chunk {k} of {tag}")
        off = [i for i, v in vs.items() if not v.get("modelOk", True)]
        if off:
            rec = chunks[k][off[0] - 1]
            log(json.dumps({x: rec.get(x) for x in ("id", "hinit", "hops", "exporters", "cand_mods")})[:3000])
            tool_failure(f"{len(off)} record(s) of {tag}: the live workspace the driver used is not Replay(hinit, hops) of EditsHist.tla")
        verdicts += [vs[i] for i in range(1, len(chunks[k]) + 1)]
        gen += r.generated
        dist += r.distinct
    return verdicts, gen, dist


def run_cases(cases, tag):
    """real server on the cases -> records (each record carries the id of its case)"""
    d = outdir(PID)
    cf, rf = os.path.join(d, f"cases-{tag}.ndjson"), os.path.join(d, f"records-{tag}.ndjson")
    write_ndjson(cf, cases)
    t = time.time()
    out, _ = vh(["edits-run", "--cases", cf, "--out", rf])
    log(f"[c16] real server on {len(cases)} cases ({tag}): {time.time() - t:.1f}s")
    return read_ndjson(rf), json.loads(out)


def replay_case_of(case):
    return {k: case[k] for k in ("id", "text", "mods", "cls", "exporters", "init", "hist", "layout", "src", "last_semi",
                                 "hinit", "hops", "cand_mods", "with_std", "already_named", "bound_to") if k in case}


def assess(cases, tag, stats):
    """-> list of (case, record, verdict) for records whose verdict failed"""
    by_id = {c["id"]: c for c in cases}
    records, info = run_cases(cases, tag)
    for k in ("cases", "records", "panics", "no_unresolved_error", "updates"):
        stats[k] = stats.get(k, 0) + info[k]
    t = time.time()
    verdicts, gen, dist = judge_records(records, tag)
    log(f"[c16] EditsTrace.tla judged {len(records)} records ({tag}): {time.time() - t:.1f}s")
    stats["tlc_generated"] = stats.get("tlc_generated", 0) + gen
    stats["tlc_distinct"] = stats.get("tlc_distinct", 0) + dist
    failed = []
    proposals_per_case = {}
    for r, v in zip(records, verdicts):
        if v["skipped"]:
            stats["skipped_" + v["skipped"]] = stats.get("skipped_" + v["skipped"], 0) + 1
            if v["skipped"] == "nothing-proposed":
                k = "unedited_items_at_" + r.get("site_kind", "unresolved") + "_occurrences"
                stats[k] = stats.get(k, 0) + 1
            if v["skipped"] == "panic":
                log(f"NOTE: request panicked ({r.get('where')}): {r.get('panic')}  case {r['id']}")
            continue
        proposals_per_case[r["id"]] = proposals_per_case.get(r["id"], 0) + 1
        stats["judged"] = stats.get("judged", 0) + 1
        stats["kind_" + r["kind"]] = stats.get("kind_" + r["kind"], 0) + 1
        stats["judged_at_" + r.get("site_kind", "unresolved")] = stats.get("judged_at_" + r.get("site_kind", "unresolved"), 0) + 1
        stats["shape_" + v["shape"]] = stats.get("shape_" + v["shape"], 0) + 1
        for dn in v["drift"]:
            stats["drift"][dn] = stats["drift"].get(dn, 0) + 1
            if stats["drift"][dn] <= 3:
                log(f"MODEL-DRIFT: {dn} does not hold for case {r['id']} ({r['kind']}): edits={r['edits']}")
        if not r.get("comments_kept_in_place", True) and not v["failed"]:
            stats["comments_moved_only"] = stats.get("comments_moved_only", 0) + 1
        if v["failed"]:
            failed.append((by_id[r["id"]], r, v))
    # every case must have produced at least one proposal of each kind, else the check would be vacuous there
    # (a workspace in which no live module exports the class has nothing to propose)
    # (nor has a document that binds the class already: imported from an exporter, or declared by itself)
    silent = [c["id"] for c in cases if proposals_per_case.get(c["id"], 0) < 2 and not c.get("already_named") and c["exporters"]
              and not c.get("bound_to")]
    unasked = [c["id"] for c in cases if proposals_per_case.get(c["id"], 0) > 0 and not c["exporters"]]
    stats["cases_with_proposals_but_no_live_exporter"] = stats.get("cases_with_proposals_but_no_live_exporter", 0) + len(unasked)
    stats["cases_without_both_proposals"] = stats.get("cases_without_both_proposals", 0) + len(silent)
    if silent:
        log(f"NOTE: {len(silent)} case(s) in '{tag}' did not get both a quick fix and a completion edit, e.g. {silent[:3]}")
    return failed


def report(failed, what):
    """one VIOLATION per distinct set of failed clauses (smallest document as the replay); returns #groups"""
    groups = {}
    for c, r, v in failed:
        groups.setdefault(tuple(v["failed"]), []).append((c, r, v))
    for names, items in sorted(groups.items()):
        c, r, v = min(items, key=lambda x: (len(x[0].get("hist", [])), len(x[1]["text"])))
        observed = {"failed_clauses": list(names), "request": r["kind"], "requests_failing_this_way": sorted({x[1]["kind"] for x in items}),
                    "records_failing_this_way": len(items),
                    "text": r["text"], "edits": r["edits"], "applied_text": r.get("applied_text"),
                    "apply_error": r.get("apply_error"), "syntax_errors_after": r.get("syn_after"),
                    "unresolved_after": r.get("unres_after"), "imports_after": r.get("imports_after"),
                    "requested_where_the_class_is": r.get("site_kind"), "diagnostics_before": r.get("diag_before"),
                    "diagnostics_after": r.get("diag_after"),
                    "edit_shape": v["shape"], "from": what}
        path = save_replay(PID, "edits", replay_case_of(c),
                           "applying the proposed edits: ranges inside the document and disjoint, no new syntax error, "
                           f"`{c['cls']}` imported from the named module and no longer unresolved, everything else unchanged",
                           observed)
        report_violation(PID, path)
    return len(groups)


def check_witnesses(kfs, stats):
    """re-runs the witness of every open finding; prints KNOWN-FINDING when it still fails"""
    for k in kfs:
        wpath = os.path.join(VERIF, k.get("witness", WITNESS_DEFAULT))
        if not os.path.exists(wpath):
            tool_failure(f"witness of open finding missing: {wpath}")
        case = json.load(open(wpath))
        case = case.get("case", case)
        case["id"] = "witness:" + os.path.basename(wpath)
        failed = assess([case], "witness", stats)
        if failed:
            report_known(PID, k["what"])
            stats["known_findings_reproduced"] = stats.get("known_findings_reproduced", 0) + 1
        else:
            log(f"NOTE: the witness of an open finding no longer fails ({wpath}): the entry can be closed")


def run(tier):
    t0 = time.time()
    build_harness()
    kfs = open_findings()
    stats = {"drift": {}}
    # 1. the document space, with the specification's theorems checked on every document
    cfg = "EditsGenQuick.cfg" if tier == "quick" else "EditsGenThorough.cfg"
    # (-coverage on the full set of theorems does not terminate: TLC's cost model inlines every operator
    # application; the coverage run therefore carries the ReadsBack theorem only)
    cov = tlc("EditsGen", "EditsGenCov.cfg", workers=4, timeout=600, coverage=True, tag="c16cov")
    tlc_must_pass(cov, "EditsGen (coverage run)")
    taken = [int(m.group(1)) for m in re.finditer(r"^<Next line .*?>: (\d+):\d+", cov.out, re.M)]
    if len(taken) < 2 or taken[0] == 0 or taken[1] == 0:
        tool_failure(f"vacuity: an action of EditsGen was never taken: {taken}")
    gen = tlc("EditsGen", cfg, workers=8, timeout=2400, xmx="12g", tag="c16gen")
    tlc_must_pass(gen, "EditsGen: theorems of Edits.tla over the document space")
    cases = behaviours_from(gen, "CASE")
    log(f"[c16] EditsGen {cfg}: {gen.distinct} states, {len(cases)} cases, {gen.wall:.1f}s")
    if not cases:
        tool_failure("EditsGen printed no case")
    for c in cases:
        c["id"] = case_id(c)
        c["layout"] = c["doc"]["layout"]
        c["src"] = "space"
    n_space = len(cases)
    avoided = [c for c in cases if in_known_region(c, kfs)]
    cases = [c for c in cases if not in_known_region(c, kfs)]
    # vacuity: the features the quantifier of the property names must all occur
    feat = {"imports_0": 0, "imports_1": 0, "imports_2": 0, "imports_3": 0, "last_import_without_semicolon": 0,
            "comment_line": 0, "comment_block": 0, "blank_line": 0, "imports_exporting_module_already": 0,
            "two_exporters": 0, "three_exporters": 0, "class_bound_by_import_of_an_exporter": 0,
            "class_bound_by_import_of_an_exporter_first_of_several": 0, "class_bound_by_import_of_an_exporter_last_of_several": 0,
            "class_bound_by_import_next_to_another_class": 0, "class_bound_by_local_declaration": 0,
            "class_bound_while_another_module_exports_it": 0,
            "class_already_named_in_import_of_non_exporter": 0, "imports_nested_module": 0,
            "last_import_nested_module_without_semicolon": 0, "nested_exporter": 0,
            "last_import_spans_several_lines": 0, "last_import_spans_several_lines_without_semicolon": 0,
            "earlier_import_spans_several_lines_last_does_not": 0, "every_import_spans_several_lines": 0,
            "comment_inside_an_import_that_spans_several_lines": 0,
            "exporter_is_a_standard_library_module": 0, "standard_library_class_with_existing_imports": 0,
            "existing_import_of_a_standard_library_module": 0}
    std_classes = set()
    for c in cases:
        imps = c["doc"]["imports"]
        feat[f"imports_{len(imps)}"] += 1
        feat["last_import_without_semicolon"] += 0 if c["last_semi"] else 1
        feat["comment_line"] += any(i["cmt"] == "line" for i in imps)
        feat["comment_block"] += any(i["cmt"] == "block" for i in imps)
        feat["blank_line"] += any(i["blank"] for i in imps)
        feat["imports_exporting_module_already"] += any(i["mod"] in c["exporters"] for i in imps)
        feat["two_exporters"] += len(c["exporters"]) == 2
        feat["three_exporters"] += len(c["exporters"]) == 3
        bound_imp = [k for k, i in enumerate(imps) if c["cls"] in i["names"] and i["mod"] in c["exporters"]]
        feat["class_bound_by_import_of_an_exporter"] += bool(bound_imp)
        feat["class_bound_by_import_of_an_exporter_first_of_several"] += bool(bound_imp) and len(imps) > 1 and bound_imp[0] == 0
        feat["class_bound_by_import_of_an_exporter_last_of_several"] += bool(bound_imp) and len(imps) > 1 and bound_imp[-1] == len(imps) - 1
        feat["class_bound_by_import_next_to_another_class"] += any(len(imps[k]["names"]) > 1 for k in bound_imp)
        feat["class_bound_by_local_declaration"] += c["bound_to"] == "Doc"
        feat["class_bound_while_another_module_exports_it"] += bool(c["bound_to"]) and any(m != c["bound_to"] for m in c["exporters"])
        feat["class_already_named_in_import_of_non_exporter"] += c["already_named"]
        feat["imports_nested_module"] += any("." in i["mod"] for i in imps)
        feat["last_import_nested_module_without_semicolon"] += c["last_dotted"] and not c["last_semi"]
        feat["nested_exporter"] += any("." in m for m in c["exporters"])
        feat["layout_" + c["layout"]] = feat.get("layout_" + c["layout"], 0) + 1
        ml = set(c.get("multiline", []))          # 1-based indices of the imports that span several lines
        feat["last_import_spans_several_lines"] += len(imps) in ml
        feat["last_import_spans_several_lines_without_semicolon"] += len(imps) in ml and not c["last_semi"]
        feat["earlier_import_spans_several_lines_last_does_not"] += bool(ml) and len(imps) not in ml
        feat["every_import_spans_several_lines"] += len(imps) > 1 and len(ml) == len(imps)
        feat["comment_inside_an_import_that_spans_several_lines"] += any(imps[i - 1]["cmt"] != "none" for i in ml)
        std_exp = any(m.startswith("std.") for m in c["exporters"])
        if std_exp and not c.get("with_std"):
            tool_failure(f"case {c['id']}: a standard-library exporter in a workspace without the library")
        feat["exporter_is_a_standard_library_module"] += std_exp
        feat["standard_library_class_with_existing_imports"] += std_exp and len(imps) > 0
        feat["existing_import_of_a_standard_library_module"] += any(i["mod"].startswith("std.") for i in imps)
        if std_exp:
            std_classes.add(c["cls"])
    feat["standard_library_classes"] = sorted(std_classes)
    need = ["imports_0", "imports_1", "imports_2", "comment_line", "comment_block", "blank_line",
            "imports_exporting_module_already", "two_exporters", "three_exporters", "class_bound_by_import_of_an_exporter",
            "class_bound_by_import_of_an_exporter_first_of_several", "class_bound_by_import_of_an_exporter_last_of_several",
            "class_bound_by_import_next_to_another_class", "class_bound_by_local_declaration",
            "class_bound_while_another_module_exports_it", "class_already_named_in_import_of_non_exporter",
            "imports_nested_module", "nested_exporter",
            "last_import_spans_several_lines", "last_import_spans_several_lines_without_semicolon",
            "earlier_import_spans_several_lines_last_does_not", "every_import_spans_several_lines",
            "comment_inside_an_import_that_spans_several_lines", "exporter_is_a_standard_library_module",
            "standard_library_class_with_existing_imports", "existing_import_of_a_standard_library_module"] + \
           ([] if kfs else ["last_import_without_semicolon", "last_import_nested_module_without_semicolon"])
    if tier != "quick":
        need.append("imports_3")
    missing = [k for k in need if feat[k] == 0]
    if missing:
        tool_failure(f"vacuity: no generated document has {missing}")
    if not {"Pair", "Triple"} <= std_classes or len(std_classes) < 3:
        tool_failure(f"vacuity: standard-library classes in the space: {sorted(std_classes)}")
    # 2. the real server on every document of the space
    failed = assess(cases, "space", stats)
    # 3. after edit histories: every history of EditsHistGen.tla, and random longer ones
    rng = random.Random(SEED)
    hcfg = "EditsHistGenQuick.cfg" if tier == "quick" else "EditsHistGenThorough.cfg"
    hcov = tlc("EditsHistGenMC", "EditsHistGenCov.cfg", workers=2, timeout=600, coverage=True, tag="c16histcov")
    tlc_must_pass(hcov, "EditsHistGen (coverage run)")
    htaken = [int(m.group(1)) for m in re.finditer(r"^<Next line .*?>: (\d+):\d+", hcov.out, re.M)]
    if len(htaken) < 2 or htaken[0] == 0 or htaken[1] == 0:
        tool_failure(f"vacuity: an action of EditsHistGen was never taken: {htaken}")
    hgen = tlc("EditsHistGenMC", hcfg, workers=8, timeout=2400, xmx="8g", tag="c16hist")
    tlc_must_pass(hgen, "EditsHistGen: theorems of EditsHist.tla over the workspace histories")
    ws_hists = behaviours_from(hgen, "HIST")
    log(f"[c16] EditsHistGen {hcfg}: {hgen.distinct} states, {len(ws_hists)} workspace histories, {hgen.wall:.1f}s")
    hfeat = {"remove_of_a_live_exporter": 0, "rename_of_a_live_exporter": 0, "exporter_stops_exporting": 0,
             "module_starts_exporting": 0, "rename_onto_an_existing_module": 0, "ends_without_live_exporter": 0,
             "ends_with_two_live_exporters": 0, "exporter_broken": 0}
    for h in ws_hists:
        ws = {m: (k, "") for m, k in h["hinit"].items() if k != "absent"}
        for o in h["hops"]:
            was = ws.get(o["m"], ("absent", ""))[0]
            hfeat["remove_of_a_live_exporter"] += o["op"] == "remove" and was == "foo"
            hfeat["rename_of_a_live_exporter"] += o["op"] == "rename" and was == "foo"
            hfeat["rename_onto_an_existing_module"] += o["op"] == "rename" and o["to"] in ws
            hfeat["exporter_stops_exporting"] += o["op"] == "update" and was == "foo" and o["kind"] == "nofoo"
            hfeat["exporter_broken"] += o["op"] == "update" and was == "foo" and o["kind"] == "broken"
            hfeat["module_starts_exporting"] += o["op"] == "update" and was != "foo" and o["kind"] == "foo"
            ws = apply_hop(ws, o)
        hfeat["ends_without_live_exporter"] += len(h["exporters"]) == 0
        hfeat["ends_with_two_live_exporters"] += len(h["exporters"]) >= 2
    hmissing = [k for k, v in hfeat.items() if v == 0]
    if hmissing:
        tool_failure(f"vacuity: no enumerated workspace history has {hmissing}")
    # (histories are about the user modules that may export `Foo`: documents of the standard-library family are not targets)
    hpool = [c for c in cases if not c.get("with_std")]
    ws_cases = enumerated_histories(hpool, ws_hists, rng)
    failed_w = assess(ws_cases, "wshist", stats)
    hist_cases = histories(hpool, 400 if tier == "quick" else 6000, rng)
    failed_h = assess(hist_cases, "hist", stats)
    groups = report(failed, "document space") + report(failed_w, "after a workspace history (EditsHistGen)") + \
        report(failed_h, "after an edit history")
    # 4. open findings: the witness is re-run, the region is otherwise avoided
    check_witnesses(kfs, stats)
    if stats.get("judged", 0) == 0:
        tool_failure("no proposed edit was judged")
    drift_total = sum(stats["drift"].values())
    sample = next((c for c in cases if len(c["doc"]["imports"]) == 2), cases[0])
    coverage = {
        "states": gen.distinct, "transitions": gen.generated,
        "traces_validated_against_impl": stats["judged"],
        "samples": [{"id": sample["id"], "text": sample["text"], "exporters": sample["exporters"]},
                    {"history": {k: hist_cases[0][k] for k in ("id", "init", "hist")}}],
        "model_config": cfg,
        "theorems_checked_on_every_document": ["ReadsBack", "NewlineFixGood", "GlueFixGoodIffSeparated", "GlueOkNeedsSemicolon", "ApplySane"],
        "documents_in_space": n_space, "documents_avoided_known_finding": len(avoided),
        "documents_replayed": len(cases), "edit_histories": len(hist_cases) + len(ws_cases),
        "workspace_histories_enumerated_by_EditsHistGen": len(ws_cases), "workspace_history_model_config": hcfg,
        "workspace_history_states": hgen.distinct, "workspace_history_features": hfeat,
        "random_edit_histories": len(hist_cases),
        "random_histories_with_remove_or_rename": sum(1 for c in hist_cases if any(o["op"] != "update" for o in c["hops"])),
        "cases_with_proposals_but_no_live_exporter": stats.get("cases_with_proposals_but_no_live_exporter", 0),
        "server_updates_in_histories": stats.get("updates", 0),
        "proposals_judged": stats["judged"], "quick_fixes": stats.get("kind_action", 0),
        "completion_edits": stats.get("kind_completion", 0),
        "proposals_judged_at_unresolved_occurrences": stats.get("judged_at_unresolved", 0),
        "proposals_judged_at_bound_occurrences": stats.get("judged_at_bound", 0),
        "completion_items_without_edits_at_bound_occurrences": stats.get("unedited_items_at_bound_occurrences", 0),
        "completion_items_without_edits_at_unresolved_occurrences": stats.get("unedited_items_at_unresolved_occurrences", 0),
        "edit_shapes": {k[6:]: v for k, v in stats.items() if k.startswith("shape_")},
        "document_features": feat,
        "proposals_that_only_move_a_comment_to_another_node": stats.get("comments_moved_only", 0),
        "cases_without_both_proposals": stats.get("cases_without_both_proposals", 0),
        "histories_where_server_holds_no_unresolved_error": stats.get("skipped_noerror", 0),
        "requests_answered_without_edits_for_a_class_already_named_in_an_import": stats.get("skipped_nothing-proposed", 0),
        "requests_that_panicked": stats.get("skipped_panic", 0),
        "trace_states_checked_by_tlc": stats.get("tlc_generated", 0),
        "records_failing": len(failed) + len(failed_w) + len(failed_h), "violation_groups": groups,
        "model_drift_records": drift_total, "model_drift_by_check": stats["drift"],
        "known_findings_open": len(kfs), "known_findings_reproduced": stats.get("known_findings_reproduced", 0),
        "exhaustive": False,
    }
    write_evidence(PID, tier, "model_checking", coverage,
                   ["the class used but not resolved is `Foo`; the workspace has modules A, B, C, W, Lib.Util, Lib.Deep.Core (and E, Lib.Exp) of fixed texts; "
                    "in the standard-library family it is Pair / Triple / Option / List, exported by std.tuples / std.option / std.list of the library the compiler ships",
                    "documents are ASCII; positions are (zero-based line, zero-based byte column)",
                    "a fresh ServerState on the edited text and the LIVE workspace (EditsHist!Replay of the history: removed / renamed-away modules are gone) "
                    "is 'the document after applying the edits' as the property means it; the running server's own diagnostics are never the verdict",
                    "workspace histories operate on the candidate exporters A, E and the free name Z (update to exporting / not exporting / broken, remove, rename)",
                    "'otherwise the same program' includes: the fresh server reports no diagnostic about the edited document that it did not report "
                    "before (compared without positions, as bags; every class `Foo` of the workspace has the member the document uses, so resolving "
                    "the class cannot uncover new errors), and every class name bound before is bound to the same module after (last import wins)",
                    "proposals are requested at every place where the class name is written in an expression, unresolved or bound",
                    "toplevels are compared through the printer (pretty_print_toplevel) after blanking out comments: the same program does not speak of comments; proposals that only move a comment to another node are counted",
                    "TLC 1.8.0 and the CommunityModules Json/IOUtils/SequencesExt overrides are correct"],
                   time.time() - t0, groups)
    return 1 if groups else 0


def replay(path):
    build_harness()
    case = json.load(open(path))["case"]
    case.setdefault("id", "replay")
    stats = {"drift": {}}
    failed = assess([case], "replay", stats)
    for c, r, v in failed:
        log(f"replay: {r['kind']} edits {r['edits']} fail {v['failed']}\n--- applied text\n{r.get('applied_text')}")
    if failed:
        report(failed, "replay")
        return 1
    if stats.get("judged", 0) == 0:
        log("replay: the server proposed no edit for this case")
    return 0
