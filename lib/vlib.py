"""Shared machinery for ./check: building the harness against /repo's working tree, running TLC,
writing evidence, reporting violations / known findings.  Exit codes: 0 held, 1 violation
(with a VIOLATION line), 2 tool failure (never a verdict)."""
import json, os, re, subprocess, sys, time, hashlib, shutil

VERIF = os.path.dirname(os.path.dirname(os.path.abspath(__file__)))
SPEC = os.path.join(VERIF, "spec")
# VERIF_SCRATCH=<name>: a private scratch + evidence area (out/<name>/...), so that an evaluation run of a
# check (e.g. against a seeded change) does not collide with a normal run of the same check
SCRATCH = os.environ.get("VERIF_SCRATCH", "")
OUT = os.path.join(VERIF, "out", SCRATCH) if SCRATCH else os.path.join(VERIF, "out")
EVIDENCE_DIR = os.path.join(OUT, "evidence") if SCRATCH else os.path.join(VERIF, "evidence")
HARNESS = os.path.join(VERIF, "harness")
VH = os.environ.get("VERIF_VH") or os.path.join(HARNESS, "target", "release", "vh")
TLA_CP = "/opt/veriftools/tla/tla2tools.jar:/opt/veriftools/tla/CommunityModules-deps.jar"
SEED = int(os.environ.get("VERIF_SEED", "20260925"))


def log(*a):
    print(*a, file=sys.stderr, flush=True)


def tool_failure(msg):
    log("TOOL-FAILURE:", msg)
    sys.exit(2)


def outdir(pid):
    d = os.path.join(OUT, pid)
    os.makedirs(d, exist_ok=True)
    return d


_built = False


def build_harness():
    """cargo build the harness; path dependencies make cargo rebuild whatever changed in /repo."""
    global _built
    if _built or os.environ.get("VERIF_VH"):   # VERIF_VH: development aid (an agent's private build)
        return
    t = time.time()
    env = dict(os.environ, CARGO_NET_OFFLINE="true")
    env.pop("RUSTFLAGS", None)
    r = subprocess.run(["cargo", "build", "--release", "--offline"], cwd=HARNESS, env=env,
                       stdout=subprocess.PIPE, stderr=subprocess.STDOUT, text=True)
    if r.returncode != 0:
        log(r.stdout[-4000:])
        tool_failure("harness build failed")
    log(f"[build] harness built in {time.time()-t:.1f}s")
    _built = True


def vh(args, timeout=3600, check=True, stdin=None, env=None):
    """Runs the harness binary; returns (stdout, returncode)."""
    build_harness()
    e = dict(os.environ)
    if env:
        e.update(env)
    try:
        r = subprocess.run([VH] + [str(a) for a in args], stdout=subprocess.PIPE, stderr=subprocess.PIPE,
                           text=True, timeout=timeout, input=stdin, env=e)
    except subprocess.TimeoutExpired:
        tool_failure(f"vh {args[0]} timed out after {timeout}s")
    if check and r.returncode != 0:
        log(r.stderr[-3000:])
        tool_failure(f"vh {' '.join(map(str, args[:3]))} exited {r.returncode}")
    return r.stdout, r.returncode


class TlcResult:
    def __init__(self, out, rc, wall):
        self.out, self.rc, self.wall = out, rc, wall
        m = re.search(r"(\d+) states generated, (\d+) distinct states found", out)
        self.generated = int(m.group(1)) if m else 0
        self.distinct = int(m.group(2)) if m else 0
        m = re.search(r"depth of the complete state graph search is (\d+)", out)
        self.depth = int(m.group(1)) if m else 0
        self.violated = None
        m = re.search(r"Invariant (\S+) is violated", out)
        if m:
            self.violated = m.group(1)
        m = re.search(r"Action property (\S+) is violated", out)
        if m:
            self.violated = m.group(1)
        if "Temporal properties were violated" in out:
            self.violated = self.violated or "temporal"
        self.postcondition_failed = "postcondition" in out.lower() and "false" in out.lower() and "Error" in out
        self.ok = ("Model checking completed. No error has been found." in out) or \
                  ("Finished in" in out and "Error" not in out and rc == 0)
        self.error = None
        if not self.ok and not self.violated:
            m = re.search(r"Error: (.*)", out)
            self.error = m.group(1) if m else f"exit {rc}"
        self.printed = re.findall(r'^<<"(\w+)", (.*)>>$', out, re.M)

    def last_l(self):
        ls = re.findall(r"^(?:/\\ )?l = (\d+)", self.out, re.M)
        return int(ls[-1]) if ls else None


def tlc(module, cfg, env=None, workers=1, timeout=1800, simulate=None, deque=False, xmx="8g",
        coverage=False, tag=None, extra=None):
    """Runs TLC on spec/<module>.tla with spec/<cfg>; returns TlcResult."""
    tag = tag or f"{module}-{cfg}-{os.getpid()}"
    meta = os.path.join(OUT, "tlc", tag)
    shutil.rmtree(meta, ignore_errors=True)
    os.makedirs(os.path.dirname(meta), exist_ok=True)
    jopts = "-Xss1g"
    if deque:
        jopts += " -Dtlc2.tool.queue.IStateQueue=StateDeque"
    e = dict(os.environ, JAVA_TOOL_OPTIONS=jopts)
    if env:
        e.update({k: str(v) for k, v in env.items()})
    cmd = ["timeout", str(timeout), "java", "-XX:+UseParallelGC", f"-Xmx{xmx}", "-cp", TLA_CP, "tlc2.TLC",
           "-workers", str(workers), "-metadir", meta, "-cleanup", "-noGenerateSpecTE"]
    if coverage:
        cmd += ["-coverage", "1"]
    if simulate:
        cmd += ["-simulate", simulate[0], "-depth", str(simulate[1])]
    if extra:
        cmd += extra
    cmd += ["-config", cfg, module + ".tla"]
    t = time.time()
    r = subprocess.run(cmd, cwd=SPEC, env=e, stdout=subprocess.PIPE, stderr=subprocess.STDOUT, text=True)
    shutil.rmtree(meta, ignore_errors=True)
    res = TlcResult(r.stdout, r.returncode, time.time() - t)
    if r.returncode == 124:
        res.error = f"timeout after {timeout}s"
        res.ok = False
    return res


def tlc_must_pass(res, what):
    if not res.ok or res.violated:
        log(res.out[-3000:])
        tool_failure(f"{what}: TLC did not pass ({res.violated or res.error})")


def write_evidence(pid, tier, level, coverage, assumptions, wall, violations, extra=None):
    ev = {"property_id": pid, "tier": tier, "seed": SEED, "level": level, "coverage": coverage,
          "assumptions": assumptions, "wall_s": round(wall, 2), "violations": violations}
    if extra:
        ev.update(extra)
    os.makedirs(EVIDENCE_DIR, exist_ok=True)
    with open(os.path.join(EVIDENCE_DIR, f"{pid}.json"), "w") as f:
        json.dump(ev, f, indent=1, ensure_ascii=False)
        f.write("\n")


_replay_n = 0


def save_replay(pid, kind, case, expected, observed, how=None):
    global _replay_n
    d = os.path.join(OUT, "replay", pid)
    os.makedirs(d, exist_ok=True)
    _replay_n += 1
    h = hashlib.sha1(json.dumps(case, sort_keys=True, default=str).encode()).hexdigest()[:10]
    path = os.path.join(d, f"{kind}-{h}.json")
    with open(path, "w") as f:
        json.dump({"property": pid, "kind": kind, "case": case, "expected": expected, "observed": observed,
                   "seed": SEED, "how": how or f"./check {pid} --replay {path}"}, f, indent=1, ensure_ascii=False)
    return path


def report_violation(pid, path):
    print(f"VIOLATION property={pid} replay={path}", flush=True)


def known_findings(pid):
    p = os.path.join(VERIF, "known-findings.json")
    if not os.path.exists(p):
        return []
    return [k for k in json.load(open(p)) if k.get("property") == pid and k.get("status") == "open"]


def report_known(pid, what):
    print(f"KNOWN-FINDING: property={pid} {what}", flush=True)


def read_ndjson(path):
    with open(path) as f:
        return [json.loads(l) for l in f if l.strip()]


def write_ndjson(path, rows):
    with open(path, "w") as f:
        for r in rows:
            f.write(json.dumps(r, ensure_ascii=False) + "\n")


def behaviours_from(res, tag="BEHAVIOUR"):
    """Extracts ToJson'd values printed by PrintT(<<tag, json>>)."""
    outs = []
    for m in re.finditer(r'^<<"%s", "(.*)">>$' % tag, res.out, re.M):
        s = m.group(1)
        # TLC prints the string with TLA+ escapes: \" and \\
        s = s.replace('\\\\', '\x00').replace('\\"', '"').replace('\x00', '\\')
        outs.append(json.loads(s))
    return outs
