#!/bin/sh
# usage: lib/agent_sandbox.sh <id>
# Creates/refreshes a private copy of /repo (git worktree at /tmp/agent-<id>/repo) and a private build of the
# harness against it, so that experiments (mutations, candidate fixes) never touch /repo itself.
#   edit files under /tmp/agent-<id>/repo, re-run this script (it rsyncs /verif/harness/src and rebuilds),
#   then run:  VERIF_VH=/tmp/agent-<id>/target/release/vh ./check <ID>
# To reset the copy:  git -C /tmp/agent-<id>/repo checkout -- .
# When done:          git -C /repo worktree remove --force /tmp/agent-<id>/repo; rm -rf /tmp/agent-<id>
set -e
id="$1"; [ -n "$id" ] || { echo "usage: $0 <id>"; exit 2; }
root=/tmp/agent-$id
mkdir -p $root
if [ ! -d $root/repo ]; then git -C /repo worktree add --detach $root/repo HEAD >/dev/null 2>&1; fi
mkdir -p $root/harness
rsync -a --delete --exclude target /verif/harness/ $root/harness/
sed -i "s|/repo/crates|$root/repo/crates|g" $root/harness/Cargo.toml
cd $root/harness && CARGO_TARGET_DIR=$root/target cargo build --release --offline 2>&1 | grep -E "^(error|warning: unused)" -A8 | head -60
echo "VERIF_VH=$root/target/release/vh"
