#!/usr/bin/env python3
"""Regenerates /verif/MANIFEST.json from the table below (single source of truth for the interface)."""
import json, os, subprocess
V = os.path.dirname(os.path.dirname(os.path.abspath(__file__)))
props = [json.loads(l) for l in open(os.path.join(V, "properties.jsonl"))]

CHECKS = {
 "C17": dict(
   level="model_checking", design="§3.1, §5 C17",
   text="Heap.tla (implementation-shaped machine + ghost property layer) is model-checked exhaustively by TLC in a bounded "
        "configuration; the real samlang_heap::Heap is bound to it in both directions: TLC-generated behaviours (all of depth 3/4, "
        "simulated ones of length 40) are executed on the real heap, and seeded random API histories are recorded; every recorded "
        "trace is validated by HeapTrace.tla, which evaluates Injective/Stable/NoLiveReclaim/FreshAfterReclaim/NoPanic on every "
        "observed transition. Right level because the property is a safety property of a small sequential state machine.",
   note="Trusted: hook H1 projection of the private tables; TLC; bounded constants (<=4 slots exhaustive; traces use <=5 long strings per run). "
        "Strict-mode disagreement between Heap.tla's actions and the implementation is reported as MODEL-DRIFT, never as a violation.",
   technique="TLA+ spec + TLC exhaustive model checking; trace validation of recorded runs and replay of TLC-generated behaviours"),
 "C10": dict(
   level="model_checking", design="§3.2, §5 C10",
   text="Server.tla models the server's edit operations step by step (patch sources/signatures, rebuild the import graph, affected set on "
        "the graph the code uses, recheck, overwrite cached errors) over abstract but meaningful contents; TLC checks errs = FreshErrors "
        "in every reachable state of the bounded model. Bound to the code both ways: TLC-simulated histories are instantiated as .sam texts "
        "and run on the real ServerState, seeded random histories over free-form texts likewise; ServerTrace.tla judges every recorded edit "
        "by the property's own oracle (held diagnostics = those of a freshly started server, nothing held for modules without a source).",
   note="Trusted: hook H2 (recheck set, map domains); ServerState::new as the from-scratch analysis; bounded pools (10 / 155 abstract contents, "
        "15 free-form templates, 4 module names). Strict-mode disagreement with Server.tla's actions is MODEL-DRIFT, never a violation.",
   technique="TLA+ spec + TLC exhaustive model checking; replay of TLC-simulated histories and trace validation of random histories on the real server"),
 "C11": dict(
   level="model_checking", design="§3.2, §5 C11",
   text="Server.tla's map-domain invariants (the preconditions of the requests' unwraps) are model-checked over all histories of the bounded "
        "model; the real server is driven through TLC-simulated and random histories with long identifiers at every site and 1/2/100 "
        "modules marked per GC slice, and after every edit every request kind is issued at a grid of positions under catch_unwind; "
        "ServerTrace.tla accepts a trace iff nothing panicked (no edit, request, or rendering of held diagnostics).",
   note="Requests are issued at samlang_services' API (the LSP glue is not executed). Sweep work unit stays at production value; incremental "
        "sweeping itself is C17's. Positions are sampled in quick tier, exhaustive per column in thorough tier.",
   technique="TLA+ spec + TLC model checking of request preconditions; trace validation of edit/query histories recorded from the real server"),
}

NOT_YET = "machinery for this property is not built yet in this round (see DESIGN.md §9 build order)"
NA = {
 "C05": "crash/hang-freedom of pure functions over arbitrary bytes has no state/transition content for a TLA+ specification; "
        "fuzzing would be a different technique (DESIGN.md §5 C05)",
}

hooks_commits = subprocess.run(["git", "-C", "/repo", "log", "--format=%H %s"], capture_output=True, text=True).stdout.splitlines()
hook_shas = [l.split()[0] for l in hooks_commits if "verif hook" in l]

m = {
 "version": 1,
 "setup_cmd": "cd /verif/harness && cargo build --release --offline",
 "hooks": {
  "guard": "samlang_verif",
  "enable": "rustflags --cfg samlang_verif in /verif/harness/.cargo/config.toml; the harness crate path-depends on /repo/crates/*, "
            "so every check rebuilds /repo's current working tree with the guard on",
  "baseline_off_cmd": "cd /repo && cargo test --workspace --no-fail-fast --offline",
  "source_commits": hook_shas,
  "add_only": True,
 },
 "engines": [
  {"name": "tlc", "path": "/usr/local/bin/tlc", "serves_properties": sorted(CHECKS),
   "kind_free_text": "TLC 1.8.0 explicit-state model checker over the TLA+ modules in /verif/spec"},
  {"name": "vh", "path": "/verif/harness", "serves_properties": sorted(CHECKS),
   "kind_free_text": "Rust conformance harness: drives the real samlang crates, records ndjson traces, replays TLC-generated behaviours"},
 ],
 "checks": [],
 "notes": "See DESIGN.md. ./check <id> --tier quick|thorough [--replay FILE]; VERIF_SEED seeds every random choice. "
          "Exit 0 held / 1 VIOLATION / 2 tool failure.",
 "not_applicable": [],
}
for p in props:
    pid = p["id"]
    if pid in CHECKS:
        c = CHECKS[pid]
        m["checks"].append({
          "property_id": pid,
          "quick_cmd": f"./check {pid} --tier quick",
          "thorough_cmd": f"./check {pid} --tier thorough",
          "evidence_file": f"/verif/evidence/{pid}.json",
          "replay_cmd_template": f"./check {pid} --replay {{path}}",
          "engine": "tlc+vh",
          "level_claimed": {"category": c["level"], "text": c["text"], "design_ref": c["design"]},
          "level_note": c["note"],
          "technique": c["technique"],
        })
    else:
        m["not_applicable"].append({"property_id": pid, "reason": NA.get(pid, NOT_YET)})
json.dump(m, open(os.path.join(V, "MANIFEST.json"), "w"), indent=1)
print("checks:", [c["property_id"] for c in m["checks"]], "n/a:", [n["property_id"] for n in m["not_applicable"]])
