#!/usr/bin/env python3
"""Regenerates /verif/MANIFEST.json from the table below (single source of truth for the interface)."""
import json, os, subprocess
V = os.path.dirname(os.path.dirname(os.path.abspath(__file__)))
props = [json.loads(l) for l in open(os.path.join(V, "properties.jsonl"))]

CHECKS = {
 "C17": dict(
   level="model_checking", design="§3.1, §5 C17",
   text="Heap.tla (implementation-shaped machine + ghost property layer) is model-checked exhaustively by TLC in a bounded "
        "configuration; the real samlang_heap::Heap is bound to it in both directions: TLC-generated behaviours (all of depth 3/4, "
        "simulated ones of length 40) are executed on the real heap, and seeded random API histories are recorded; every recorded "
        "trace is validated by HeapTrace.tla, which evaluates Injective/Stable/NoLiveReclaim/FreshAfterReclaim/NoPanic on every "
        "observed transition. Right level because the property is a safety property of a small sequential state machine.",
   note="Trusted: hook H1 projection of the private tables; TLC; bounded constants (<=4 slots exhaustive; traces use <=5 long strings per run). "
        "Strict-mode disagreement between Heap.tla's actions and the implementation is reported as MODEL-DRIFT, never as a violation.",
   technique="TLA+ spec + TLC exhaustive model checking; trace validation of recorded runs and replay of TLC-generated behaviours"),
 "C10": dict(
   level="model_checking", design="§3.2, §5 C10",
   text="Server.tla models the server's edit operations step by step (patch sources/signatures, rebuild the import graph, affected set on "
        "the graph the code uses, recheck, overwrite cached errors) over abstract but meaningful contents; TLC checks errs = FreshErrors "
        "in every reachable state of the bounded model. Bound to the code both ways: TLC-simulated histories are instantiated as .sam texts "
        "and run on the real ServerState, seeded random histories over free-form texts likewise; ServerTrace.tla judges every recorded edit "
        "by the property's own oracle (held diagnostics = those of a freshly started server, nothing held for modules without a source).",
   note="Trusted: hook H2 (recheck set, map domains); ServerState::new as the from-scratch analysis; bounded pools (10 / 155 abstract contents, "
        "22 free-form templates incl. ill-typed and long-identifier ones, three scripted dependency-chain prefixes, re-sent and twice-listed "
        "modules, 4 module names; two GC slice sizes). Strict-mode disagreement with Server.tla's actions is MODEL-DRIFT, never a violation. "
        "Open known findings: two diagnostics list names in interning order (member list, or-pattern bindings); both sides are rewritten to "
        "sorted lists only where that order is the only difference.",
   technique="TLA+ spec + TLC exhaustive model checking; replay of TLC-simulated histories and trace validation of random histories on the real server"),
 "C11": dict(
   level="model_checking", design="§3.2, §5 C11",
   text="Server.tla's map-domain invariants (the preconditions of the requests' unwraps) are model-checked over all histories of the bounded "
        "model; the real server is driven through TLC-simulated and random histories with long identifiers at every site and 1/2/100 "
        "modules marked per GC slice, and after every edit every request kind is issued at a grid of positions under catch_unwind; "
        "ServerTrace.tla accepts a trace iff nothing panicked (no edit, request, or rendering of held diagnostics).",
   note="Requests are issued at samlang_services' API (the LSP glue is not executed). Sweep work unit stays at production value; incremental "
        "sweeping itself is C17's. Positions are sampled in quick tier, exhaustive per column in thorough tier.",
   technique="TLA+ spec + TLC model checking of request preconditions; trace validation of edit/query histories recorded from the real server"),
 "C02": dict(
   level="translation_validation", design="§5 C02",
   text="Rule level: Arith.tla (constant folder's table = the target's, every operand pair of a small range) and LoopRules.tla (the loop "
        "optimiser's trip-count / final-value closed forms = iterating the loop, every init/step/bound/guard of a small range) are checked "
        "exhaustively by TLC; both are bound to the code by compiling literal-operand programs and counting loops at the real 32-bit range. "
        "Program level: every program is compiled from the un-optimised MIR ('raw'), under the 5 switches each alone / each one off (all 32 "
        "in the thorough tier) and with every pass once in isolation (hook H3), run on both back ends, and Observations.tla (invariant C02) "
        "accepts the record iff every build prints and ends like the reference, never crashes the compiler and never invalidates the module. "
        "Absolute reference: MIR.tla, an executable semantics of the mid-level IR (parallel loop variables, nominal IsPointer, strict 32-bit "
        "reference arithmetic), evaluates the real MIR of every build (raw, every pass alone, optimiser configurations) dumped as JSON; MIRTrace.tla "
        "compares each build with raw and names the first differing build in pipeline order.",
   note="Two references: the same compiler's un-optimised output run on both back ends (differential) and MIR.tla (absolute; bound to the code by "
        "agreeing with both back ends on the raw build, disagreement = MODEL-DRIFT). Runs whose reference overflowed 32 bits or trapped on division are "
        "excluded; TypeScript builds are compared only where the two back ends agree on the reference (otherwise C04's). Trusted: wasm_interp, ts_run.",
   technique="TLA+ rule transcriptions checked exhaustively by TLC + recorded runs of compiled programs accepted by a TLA+ observation spec"),
 "C03": dict(
   level="exploration", design="§5 C03",
   text="Observations.tla (invariant C03) accepts the recorded pipeline trace of every checker-accepted program iff no build crashed the compiler, "
        "the emitted WebAssembly validates, the emitted TypeScript is syntactically valid, and both runs end in an allowed way (return, panic "
        "with a non-empty message, Vec bounds, stack exhaustion, arithmetic trap) — never in an engine type fault nor in the empty-message panic "
        "of an unhandled match. Programs: the repository's tests, seeded type-directed generated programs over six profiles, a hand-written feature "
        "corpus (corpus/c03), single-token mutants the checker accepts, every program with one match arm deleted (rejected, or the remaining arms "
        "must cover what reaches the match), and hand-written near misses one type error away from an accepted program (the class itself for an "
        "instance, same-named classes of two modules: rejected, or they must not go wrong). Rule level: TypeRules.tla — a typing judgment and an evaluator for a core fragment (generic calls with "
        "hint flow, lambdas, tuples, struct fields, enum match); TLC checks type soundness (a typed term never gets stuck) on every term up to a size "
        "bound, and every enumerated well-typed term is compiled and run: it must validate and print the value the specification computes.",
   note="Programs are sampled (generator + repository corpus); 'valid TypeScript' = type eraser accepts + node --check; trap classification by own WasmGC interpreter.",
   technique="recorded compile-and-run traces of accepted programs judged by a TLA+ observation spec (TLC)"),
 "C04": dict(
   level="translation_validation", design="§5 C04",
   text="Arith.tla puts the WebAssembly and TypeScript operator tables next to the language's definition; TLC checks both refine it for every "
        "operand pair of a small range (outside the recorded Math.floor finding). One-operation programs with run-time operands over small and "
        "32-bit boundary values are compiled and run on both back ends and judged by ArithTrace.tla at the real range; whole programs "
        "(repository + generated) are judged by Observations.tla (invariant C04: same lines, same ending, unless implementation-defined).",
   note="Open known finding: negative non-integral quotients (Math.floor), pinned by lir_tests.rs; generated programs stay out of that region, its witness "
        "is replayed on every run. Excluded as implementation-defined: any run with an i32 overflow or a division trap. Trusted: wasm_interp, ts_run (loader.js transcribed).",
   technique="TLA+ operator-table spec checked by TLC + trace validation of compiled runs at 32 bits"),
 "C12": dict(
   level="exploration", design="§5 C12",
   text="Design level (TLC, exhaustive in small bounds): Sched.tla (temporary names from the shared atomic counter are distinct and fresh under every "
        "interleaving; merged diagnostics render independently of completion order), Heap.tla's counter protocol, EnumLayout.tla (layout sound "
        "under every processing order). Code level: every program (accepted and rejected) is compiled and run again in fresh processes with "
        "RAYON_NUM_THREADS in {1,2,3,8,16}; Observations.tla (invariant C12) accepts iff verdict, rendered diagnostics and both back ends' "
        "behaviour are identical across all repetitions.",
   note="Hash seeds and schedules are sampled on the code (fresh processes; the harness also interns module names in a different order in every "
        "process), exhaustive only on the models. Programs are compiled by the compiler's own driver (compile_sources). Open known finding: rendered "
        "diagnostics list modules in interning order (pinned by checker_integration_tests); error blocks are sorted only where that is the only difference.",
   technique="TLA+ scheduling/layout models checked by TLC + repeated fresh-process runs judged by a TLA+ observation spec"),
 "C07": dict(
   level="model_checking", design="§5 C07",
   text="Patterns.tla puts the matrix algorithm of pattern_matching.rs (specialisation, default matrix, signature completeness, usefulness, "
        "counterexample construction) next to the semantic definitions (every value of the type up to pattern depth + 1 is matched by some arm); "
        "TLC checks algorithm = semantics and counterexample soundness for every arm list up to a bound over seven type universes. Every "
        "enumerated arm list is replayed through the real checker as a generated match / let / if-let, and PatternsTrace.tla decides — with the "
        "specification's own Matches — that acceptance coincides with exhaustiveness, the reported counterexample denotes only unmatched values, "
        "and if-let is flagged useless exactly when irrefutable.",
   note="Bounded: seven fixed declaration sets, arm lists of <= 2-3 (quick) / 3-4 (thorough) patterns from generated pools. Disagreement between the "
        "transcription and the checker's internals that does not change a verdict is MODEL-DRIFT.",
   technique="TLA+ rule transcription + semantics checked exhaustively by TLC; every enumerated case replayed on the real checker and judged by a TLA+ trace spec"),
 "C06": dict(
   level="fault_enumeration", design="§5 C06, §10",
   text="Pipeline.tla is the protocol of one compilation (Start -> Parsed -> Checked -> Emitted | Refused) with the ground-truth fault set in the state; "
        "TLC checks that a faulty program is refused with an error in an offending module and that nothing is emitted. The fault model is thirteen "
        "mutation operators, each applied textually at every applicable site of accepted programs (generated + repository) with a construction "
        "argument that the mutant is ill-formed by the language rules (validated by re-parsing to exactly the intended tree); every mutant's recorded "
        "pipeline trace (front verdict, error modules, artefacts from the real compile_sources) is judged by PipelineTrace.tla. Absolute half on a core "
        "fragment: TypeRules.tla's typing judgment classifies every small term (11 hard error kinds); a term it calls ill-typed that the checker accepts "
        "is a violation (TypeRulesTrace.tla), a well-typed term the checker rejects is reported as drift only.",
   note="Single-fault mutants only; sites are all applicable sites in the quick corpus sample / 1500 generated programs in the thorough tier. "
        "'No code emitted' is observed on samlang_compiler::compile_sources, the function the CLI calls.",
   technique="TLA+ pipeline protocol spec + fault-model mutants of accepted programs, traces validated by TLC"),
 "C08": dict(
   level="model_checking", design="§5 C08, §10",
   text="Syntax.tla transcribes the printer's parenthesisation rule and the parser's precedence climbing (plus a character-level model of string "
        "literals); TLC checks Parse(Print(t)) = t for every expression tree up to depth 2 (quick: + a depth-3 sample; thorough: depth 3 exhaustively "
        "over operator sets covering every precedence triple). Every enumerated tree is replayed on the real code: fully parenthesised text -> real parser "
        "(binds the tree notion), real printer at several widths -> real parser; SyntaxTrace.tla decides that the re-parsed tree equals the original and no "
        "syntax error appeared. Same round trip on repository files, comment-inserted variants and generated modules.",
   note="Open known finding C08-reassociation (`a + (b + c)` -> `a + b + c`, pinned by the repository's own test): the enumerator stays out of exactly that "
        "region and SyntaxTrace tolerates exactly Regroup(orig); its witness is replayed every run.",
   technique="TLA+ transcription of printer and parser checked by TLC; every enumerated tree replayed through the real printer/parser and judged by a TLA+ trace spec"),
 "C09": dict(
   level="exploration", design="§5 C09, §10",
   text="Comments.tla models a module as its token sequence with a comment slot before every token, the slot class (production and kind of the following "
        "token, comment kind), and the order comments must have after the printer's import sorting; CommentsGen.tla enumerates every case (13 templates "
        "tagged with grammar productions, every single slot in three comment kinds, pairs of slots) and TLC checks the expected order is a permutation that "
        "only moves import comments. Every case is replayed on the real code: comments inserted textually, parsed, formatted once and twice; the same with a "
        "comment at every k-th token boundary of every .sam of /repo/tests and /repo/std. CommentsTrace.tla decides: every comment present with the same words "
        "in the expected order, F(F(x)) = F(x), F(x) parses.",
   note="Open known findings: 12 slot classes where a comment survives but is hoisted in front of earlier comments, and the line-comment overflow re-flow "
        "(pinned by prettier tests); each is excused only for its own (failure kind, slot class) and only while its witness still fails.",
   technique="TLA+ slot/permutation spec; TLC-enumerated cases replayed through the real parser and printer, judged by a TLA+ trace spec"),
 "C13": dict(
   level="exploration", design="§5 C13, §10",
   text="Rewrites.tla models the nine meaning-preserving rewrites (rename, reorder toplevels / members, parenthesise, wrap in block, annotate let, annotate lambda parameters, explicit type arguments, split module) as actions on a small program and checks the stutter property (verdict, and behaviour when "
        "accepted) over chains of up to 3; the harness applies the rewrites textually from AST locations to accepted and rejected programs, confirms "
        "structurally that exactly the intended edit happened, compiles and runs original and rewritten programs on both back ends, and RewritesTrace.tla "
        "(extending Observations.tla's notion of implementation-defined runs) checks the action property between consecutive steps of every recorded history.",
   note="Instances are sampled uniformly over kinds and sites; invalid instances (validity check fails) are discarded and counted, never judged — except that a rewritten text which parses and on which the checker crashes is a verdict change and is reported.",
   technique="TLA+ action-property spec + recorded rewrite histories of real programs validated by TLC"),
 "C14": dict(
   level="model_checking", design="§5 C14, §10",
   text="Positions.tla is the (line, byte column) position machine of the lexer plus the well-formedness predicates on location trees; TLC model-checks the "
        "machine exhaustively on short abstract character sequences (compositionality, monotonicity, offset round trip). PositionsTrace.tla validates, for every "
        "recorded document (repository files, generated modules, each under token-preserving layout perturbations: CRLF, tabs, multi-byte text, long lines, "
        "comments), that every location of the parsed tree and every location the services report lies inside the document, has start <= end, that parents "
        "enclose children, siblings are disjoint and every name's range spells the name.",
   note="Open known finding: find-references reports `Name<Args>` ranges for annotation uses (ssa_analysis.rs records annotation.location; pinned by "
        "ssa_analysis_tests.rs). The lexer itself is private: token positions are bound through parser node boundaries (drift level).",
   technique="TLA+ position machine model-checked by TLC + trace validation of recorded location trees and service results"),
 "C16": dict(
   level="model_checking", design="§5 C16, §10",
   text="Edits.tla models a document as lines with an import section, edit application, and the expected result of importing class K from module M; TLC "
        "enumerates the document space (0-3 imports, with/without `;`, comments and blank lines between, five layouts) and checks the model's own theorems. "
        "For every enumerated document (and documents reached through seeded update histories) the real code_actions and completion additional_edits are "
        "recorded; EditsTrace.tla decides that ranges are inside the document and disjoint, the applied text parses without new syntax errors, the class is "
        "imported from the named module and no longer unresolved, every other import and toplevel is unchanged and keeps its comments, and completion items for names the document declares itself carry no edit.",
   note="Documents are ASCII; comments of import lines may move with the sorted imports (not judged); the comments of classes and interfaces must stay with them (a doc comment is what hover shows).",
   technique="TLA+ edit/document model enumerated by TLC; every case replayed on the real server and judged by a TLA+ trace spec"),
 "C01": dict(
   level="translation_validation", design="§3.4, §5 C01, §10",
   text="Semantics.tla is an executable specification of the source language (big-step evaluator over the typed AST of every module incl. std: "
        "evaluation order, patterns, dynamic dispatch, closures, Vec store, guarded 32-bit arithmetic from Arith.tla); TLC evaluates Run(program) and "
        "SemTrace.tla accepts the recorded WebAssembly runs (un-optimised and shipped configuration) iff they print the specified lines and end the specified "
        "way, or the specified run is implementation-defined. Programs: a 35-program feature corpus, the repository's test wrappers, seeded generated programs. "
        "Rule level: EnumLayout.tla (layout choice sound for every declaration set under both processing orders; every set replayed as a program that builds "
        "and prints all values to depth 3), Arith.tla (WasmRefinesSrc) and TailRec.tla (the self-tail-recursion-to-loop rewrite and the back ends' "
        "sequential loop-variable assignment transcribed next to the recursive semantics; TLC checks every small body incl. all argument permutations and "
        "nested loops; every body is compiled raw / opt:0 / opt:31 and TailRecTrace.tla judges the printed lines against the specification).",
   note="Open known finding loop-opt (two loop shapes whose wrong guard is pinned by the optimiser's unit tests). Trusted: wasm_interp (own WasmGC interpreter; "
        "loader.js transcribed), the AST dump. Excluded by the specification: overflow, division by zero, toInt on non-numeric text, Vec.capacity, stack/budget "
        "exhaustion, == on separately allocated structurally equal class values. Non-ASCII text and ints beyond 31 bits in Vec stay out of the corpus.",
   technique="executable TLA+ semantics evaluated by TLC as reference interpreter / trace acceptor for runs of compiled programs"),
 "C18": dict(
   level="model_checking", design="§5 C18, §10",
   text="Collections.tla models Map, Set and List as mathematical finite maps, sets and sequences with one action per std operation (79) and its canonical "
        "observation; TLC model-checks its laws over keys {1,2,3} to depth 4/5 and generates operation sequences (all of length <= 2, simulated longer ones); "
        "those and seeded random sequences (length <= 60, small and wide key ranges) are compiled into samlang programs over the real std sources, run on both "
        "back ends un-optimised and optimised, and CollTrace.tla replays every operation on the abstract registers and compares every printed result.",
   note="std sources are read from /repo/std at run time (set.sam supplied as a user module). iter() is not observed (returns unit). Inherits wasm_interp / ts_run.",
   technique="TLA+ abstract collections model checked by TLC; trace validation of compiled operation sequences against it"),
 "C15": dict(
   level="model_checking", design="§5 C15, §10",
   text="Scope.tla defines binder structures (parameters, let, tuple / struct / variant patterns, or-patterns incl. nested ones, if-let, lambdas, blocks) with "
        "the specified def/use relation next to a transcription of the checker's resolution (ssa_analysis.rs); TLC checks they agree on every structure up "
        "to a cost bound and enumerates the well-scoped ones. Each is rendered as a function body and replayed on the real services: definition and "
        "references at every identifier occurrence must equal the specified relation, renaming to a fresh name must parse, keep the diagnostics and the "
        "behaviour (compiled and run), and renaming back must restore the formatted text; ScopeTrace.tla decides from the recorded observations. The same "
        "consistency checks run at every local identifier of the repository's programs and of generated programs.",
   note="Structures over 2-3 names up to cost 3-4; behaviour observed on the WebAssembly back end; parameters of interface signatures are navigated but not "
        "renamed in the structure replay.",
   technique="TLA+ scoping model checked by TLC; every enumerated binder structure replayed on the real services and judged by a TLA+ trace spec"),
}

NOT_YET = "machinery for this property is not built yet in this round (see DESIGN.md §9 build order)"
NA = {
 "C05": "crash/hang-freedom of pure functions over arbitrary bytes has no state/transition content for a TLA+ specification; "
        "fuzzing would be a different technique (DESIGN.md §5 C05)",
}

hooks_commits = subprocess.run(["git", "-C", "/repo", "log", "--format=%H %s"], capture_output=True, text=True).stdout.splitlines()
hook_shas = [l.split()[0] for l in hooks_commits if "verif hook" in l]

m = {
 "version": 1,
 "setup_cmd": "cd /verif/harness && cargo build --release --offline",
 "hooks": {
  "guard": "samlang_verif",
  "enable": "rustflags --cfg samlang_verif in /verif/harness/.cargo/config.toml; the harness crate path-depends on /repo/crates/*, "
            "so every check rebuilds /repo's current working tree with the guard on",
  "baseline_off_cmd": "cd /repo && cargo test --workspace --no-fail-fast --offline",
  "source_commits": hook_shas,
  "add_only": True,
 },
 "engines": [
  {"name": "tlc", "path": "/usr/local/bin/tlc", "serves_properties": sorted(CHECKS),
   "kind_free_text": "TLC 1.8.0 explicit-state model checker over the TLA+ modules in /verif/spec"},
  {"name": "vh", "path": "/verif/harness", "serves_properties": sorted(CHECKS),
   "kind_free_text": "Rust conformance harness: drives the real samlang crates, records ndjson traces, replays TLC-generated behaviours"},
 ],
 "checks": [],
 "notes": "See DESIGN.md. ./check <id> --tier quick|thorough [--replay FILE]; VERIF_SEED seeds every random choice. "
          "Exit 0 held / 1 VIOLATION / 2 tool failure.",
 "not_applicable": [],
}
for p in props:
    pid = p["id"]
    if pid in CHECKS:
        c = CHECKS[pid]
        m["checks"].append({
          "property_id": pid,
          "quick_cmd": f"./check {pid} --tier quick",
          "thorough_cmd": f"./check {pid} --tier thorough",
          "evidence_file": f"/verif/evidence/{pid}.json",
          "replay_cmd_template": f"./check {pid} --replay {{path}}",
          "engine": "tlc+vh",
          "level_claimed": {"category": c["level"], "text": c["text"], "design_ref": c["design"]},
          "level_note": c["note"],
          "technique": c["technique"],
        })
    else:
        m["not_applicable"].append({"property_id": pid, "reason": NA.get(pid, NOT_YET)})
json.dump(m, open(os.path.join(V, "MANIFEST.json"), "w"), indent=1)
print("checks:", [c["property_id"] for c in m["checks"]], "n/a:", [n["property_id"] for n in m["not_applicable"]])
