#!/usr/bin/env python3
"""seeded_eval.py <PID> <n> <dir with patch.diff demo.diff demo.txt meta.json> [--checks C10,C11]
Confirms a seeded change independently (scratch worktree: suite green with the patch, demonstration passes
clean and fails with the patch), then applies it to /repo, runs the registered quick check(s), records
whether it was caught, restores /repo, and stores everything under /verif/seeded/<PID>-<n>/."""
import json, os, re, shutil, subprocess, sys, time

pid, n, src = sys.argv[1], sys.argv[2], sys.argv[3]
checks = [pid]
if "--checks" in sys.argv:
    checks = sys.argv[sys.argv.index("--checks") + 1].split(",")
W = f"/tmp/seedeval-{pid}-{n}"
SLOT = os.environ.get("SEEDEVAL_SLOT", "A")
env = dict(os.environ, CARGO_TARGET_DIR=f"/tmp/seedeval-target-{SLOT}")   # shared target across evaluations (incremental)
# one evaluation per seed, even with several loops running
lock = f"/verif/out/seedlock-{pid}-{n}"
try:
    os.makedirs(lock)
except FileExistsError:
    if "--force" not in sys.argv:
        print("already evaluated or in progress:", lock)
        sys.exit(0)


def sh(cmd, cwd=None, timeout=3600, use_env=True):
    r = subprocess.run(cmd, shell=True, cwd=cwd, env=env if use_env else dict(os.environ), stdout=subprocess.PIPE, stderr=subprocess.STDOUT, text=True, timeout=timeout)
    return r.returncode, r.stdout


def demo_crates():
    """crates touched by the demonstration (its tests live there)"""
    try:
        t = open(f"{src}/demo.diff").read()
    except Exception:
        return []
    return sorted(set(re.findall(r"^\+\+\+ b/crates/([\w-]+)/", t, re.M)))


def suite(cwd, only=None):
    sel = "--workspace" if not only else " ".join(f"-p {c}" for c in only)
    rc, out = sh(f"cargo test {sel} --offline --no-fail-fast 2>&1", cwd)
    passed = sum(int(x) for x in re.findall(r"test result: \w+\. (\d+) passed", out))
    failed = sum(int(x) for x in re.findall(r"test result: \w+\. \d+ passed; (\d+) failed", out))
    failing = re.findall(r"^test (\S+) \.\.\. FAILED", out, re.M)
    compiled = "error: could not compile" not in out and "error[E" not in out
    return {"compiled": compiled, "passed": passed, "failed": failed, "failing": failing[:10]}


result = {"property": pid, "n": n}
sh(f"git -C /repo worktree remove --force {W}")
rc, out = sh(f"git -C /repo worktree add --detach {W} HEAD")
try:
    rc, out = sh(f"git apply {src}/patch.diff", W)
    result["patch_applies"] = rc == 0
    if rc != 0:
        result["error"] = out[-500:]
    else:
        result["suite_with_patch"] = suite(W)
        rc, out = sh(f"git apply {src}/demo.diff", W)
        result["demo_applies"] = rc == 0
        if rc == 0:
            dc = demo_crates() or None
            result["suite_with_patch_and_demo"] = suite(W, dc)
            sh(f"git apply -R {src}/patch.diff", W)
            result["suite_with_demo_only"] = suite(W, dc)
finally:
    sh(f"git -C /repo worktree remove --force {W}")
a, b, c = result.get("suite_with_patch", {}), result.get("suite_with_patch_and_demo", {}), result.get("suite_with_demo_only", {})
result["confirmed"] = bool(a.get("compiled") and a.get("failed") == 0 and a.get("passed", 0) >= 367
                           and b.get("failed", 0) > 0 and c.get("compiled") and c.get("failed") == 0)
# run our checks against the change.  Default: a private copy of /repo (git worktree + patch) and a private build
# of the harness against it, passed to ./check through VERIF_VH — /repo itself is not touched, so evaluations
# do not block other work.  --in-repo applies the patch to /repo itself instead (the official procedure).
if result["confirmed"] or "--force" in sys.argv:
    result["checks"] = {}
    if "--in-repo" in sys.argv:
        rc, out = sh("git -C /repo status --short")
        if out.strip():
            print("refusing: /repo is not clean:\n" + out)
            sys.exit(2)
        rc, out = sh(f"git -C /repo apply {src}/patch.diff")
        try:
            for c in checks:
                t = time.time()
                rc, out = sh(f"./check {c} --tier quick", "/verif", timeout=3600, use_env=False)
                result["checks"][c] = {"exit": rc, "violations": re.findall(r"^VIOLATION .*", out, re.M)[:5],
                                       "wall_s": round(time.time() - t), "tail": out[-600:] if rc not in (0, 1) else ""}
        finally:
            sh("git -C /repo checkout -- .")
        result["mode"] = "patch applied to /repo"
    else:
        S = f"/tmp/seedeval-sbx-{pid}-{n}"
        sh(f"git -C /repo worktree remove --force {S}/repo; rm -rf {S}; mkdir -p {S}")
        sh(f"git -C /repo worktree add --detach {S}/repo HEAD")
        rc, out = sh(f"git apply {src}/patch.diff", f"{S}/repo")
        sh(f"rsync -a --exclude target /verif/harness/ {S}/harness/ && sed -i 's|/repo/crates|{S}/repo/crates|g' {S}/harness/Cargo.toml")
        rc, out = sh(f"CARGO_TARGET_DIR=/tmp/seedeval-htarget-{SLOT} cargo build --release --offline 2>&1 | tail -3", f"{S}/harness", use_env=False)
        sh(f"cp /tmp/seedeval-htarget-{SLOT}/release/vh {S}/vh")
        try:
            for c in checks:
                t = time.time()
                std = f"VERIF_STD_DIR={S}/repo/std " if os.path.exists(f"{S}/repo/std") else ""
                rc, out = sh(f"{std}VERIF_SCRATCH=seedrun-{pid}-{n} VERIF_VH={S}/vh ./check {c} --tier quick", "/verif", timeout=3600, use_env=False)
                result["checks"][c] = {"exit": rc, "violations": re.findall(r"^VIOLATION .*", out, re.M)[:5],
                                       "wall_s": round(time.time() - t), "tail": out[-600:] if rc not in (0, 1) else ""}
        finally:
            sh(f"git -C /repo worktree remove --force {S}/repo; rm -rf {S}")
        result["mode"] = "private worktree + harness build (VERIF_VH)"
    result["caught"] = any(v["exit"] == 1 for v in result["checks"].values())
dst = f"/verif/seeded/{pid}-{n}"
os.makedirs(dst, exist_ok=True)
for f in ("patch.diff", "demo.diff", "demo.txt"):
    if os.path.exists(f"{src}/{f}") and os.path.realpath(src) != os.path.realpath(dst):
        shutil.copy(f"{src}/{f}", dst)
meta = {}
if os.path.exists(f"{src}/meta.json"):
    try:
        meta = json.load(open(f"{src}/meta.json"))
    except Exception:
        meta = {"raw": open(f"{src}/meta.json").read()}
meta["evaluation"] = result
meta["what_we_ran"] = "lib/seeded_eval.py: scratch worktree — cargo test --workspace with patch (must be green), with patch+demo (demo must fail), with demo only (green); then patch applied to /repo, ./check <id> --tier quick, /repo restored"
json.dump(meta, open(f"{dst}/meta.json", "w"), indent=1)
print(json.dumps(result, indent=1))
