// Driver for `run_ts_batch` (see ts_run.rs). `BATCH = {timeoutMs, maxOutBytes, stackMb, heapMb, programs: [{i, js}]}`
// is prepended by the harness (`stackMb` > 0: run in a Worker thread with that much stack and heap). Every
// program is compiled on its own (`new vm.Script`) and run in a fresh
// `vm` context whose only extra global is a capturing `console`; one JSON line per program goes to stdout.
'use strict';
const vm = require('vm');
const util = require('util');
const fs = require('fs');

const BUDGET = { budget: true }; // thrown by the capturing console.log when too much was printed

function writeLine(obj) {
  const buf = Buffer.from(JSON.stringify(obj) + '\n', 'utf8');
  let off = 0;
  while (off < buf.length) {
    try {
      off += fs.writeSync(1, buf, off, buf.length - off);
    } catch (e) {
      if (e.code !== 'EAGAIN') throw e;
    }
  }
}

function text(x) {
  try {
    return typeof x === 'string' ? x : String(x);
  } catch (_) {
    return '<unprintable>';
  }
}

// The emitted prelude has
//   const __Process$panic = (_, [, v]) => { throw Error(v); };
// and the Vec helpers throw with the very same `Error(...)`, so the class of the thrown value does not
// identify a panic. What does: the stack of an Error is captured where it is constructed, and the
// innermost frame of a panic is the arrow function that V8 names `__Process$panic` (compiled samlang
// functions are called `_<Module>_<Class>$<fn>`, never that). The header of `stack` is
// "Error: <message>\n" (or "Error\n" for an empty message) and is removed by length, so a message that
// contains text looking like a frame cannot fake one. The frame must also lie in this program's script.
function isPanic(e, filename) {
  if (e === null || typeof e !== 'object') return false;
  let name, message, stack;
  try {
    name = e.name;
    message = e.message;
    stack = e.stack;
  } catch (_) {
    return false;
  }
  if (name !== 'Error' || typeof message !== 'string' || typeof stack !== 'string') return false;
  const header = message === '' ? 'Error\n' : 'Error: ' + message + '\n';
  if (!stack.startsWith(header)) return false;
  const rest = stack.slice(header.length);
  const nl = rest.indexOf('\n');
  const top = nl < 0 ? rest : rest.slice(0, nl);
  return top.startsWith('    at __Process$panic (' + filename + ':');
}

function classify(e, filename) {
  if (e === BUDGET) return { k: 'budget' };
  if (e !== null && typeof e === 'object') {
    let code, name, message;
    try {
      code = e.code;
      name = e.name;
      message = e.message;
    } catch (_) {}
    if (code === 'ERR_SCRIPT_EXECUTION_TIMEOUT') return { k: 'budget' };
    if (name === 'RangeError' && typeof message === 'string' && message.includes('Maximum call stack size exceeded')) {
      return { k: 'trap', trap: 'call stack exhausted' };
    }
    if (isPanic(e, filename)) return { k: 'panic', msg: message };
    if (typeof message === 'string') {
      return { k: 'trap', trap: name === 'Error' || typeof name !== 'string' ? message : name + ': ' + message };
    }
  }
  return { k: 'trap', trap: 'thrown: ' + text(e) };
}

function runOne(p) {
  const out = [];
  let bytes = 0;
  const log = (...args) => {
    const line = util.format(...args); // what console.log would print (a single string is printed as is)
    bytes += line.length + 1;
    if (bytes > BATCH.maxOutBytes) throw BUDGET;
    out.push(line);
  };
  const filename = 'program' + p.i + '.js';
  let script;
  try {
    // Wrapped in a function: inside a vm context every lookup of a global (the program's own top-level
    // functions and constants, and Number / Math / undefined ... which the emitted code uses in nearly every
    // statement) goes through vm's interceptors, ~5x slower. As locals / parameters they are ordinary
    // variables; the values passed are the context's own intrinsics, evaluated inside the context. The eraser
    // has checked that brackets balance, so the text cannot close the wrapper early. No line shift.
    script = new vm.Script(
      '(function (Number, Math, String, Error, parseInt, undefined, console) { ' +
        p.js +
        '\n})(Number, Math, String, Error, parseInt, void 0, console);',
      { filename }
    );
  } catch (e) {
    let where = '';
    try {
      const m = /^[^\n]*:(\d+)\n/.exec(e.stack);
      if (m) where = ' (line ' + m[1] + ')';
    } catch (_) {}
    return { i: p.i, out, end: { k: 'trap', trap: 'syntax error: ' + text(e && e.message) + where } };
  }
  const context = vm.createContext({ console: { log } });
  let end;
  try {
    script.runInContext(context, { timeout: BATCH.timeoutMs, displayErrors: false });
    end = { k: 'return' };
  } catch (e) {
    end = classify(e, filename);
  }
  return { i: p.i, out, end };
}

// The main thread's stack is fixed by the OS limit (node's default allows only a few thousand samlang
// frames), and `--stack-size` above that limit crashes the process. A Worker gets a thread whose stack
// is allocated to order (`resourceLimits.stackSizeMb`, lazily committed), so that is where programs run.
const wt = require('worker_threads');
if (wt.isMainThread && BATCH.stackMb > 0) {
  const w = new wt.Worker(__filename, {
    resourceLimits: { stackSizeMb: BATCH.stackMb, maxOldGenerationSizeMb: BATCH.heapMb },
  });
  w.on('error', (e) => {
    process.stderr.write('worker error: ' + text(e && e.message) + '\n');
    // 71: the program being run exhausted the heap (a resource limit, reported as End::Budget)
    process.exitCode = e && e.code === 'ERR_WORKER_OUT_OF_MEMORY' ? 71 : 70;
  });
} else {
  for (const p of BATCH.programs) {
    writeLine(runOne(p));
  }
}
