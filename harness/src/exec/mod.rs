//! Observation instruments for compiled code (trusted base, see DESIGN.md §1).
pub mod ts_run;
pub mod wasm_interp;

/// How a run of a compiled program ended.
#[derive(Clone, Debug, PartialEq, Eq, serde::Serialize, serde::Deserialize)]
#[serde(tag = "k")]
pub enum End {
  /// main returned normally
  #[serde(rename = "return")]
  Return,
  /// Process.panic(msg)
  #[serde(rename = "panic")]
  Panic { msg: String },
  /// engine-level fault: "unreachable", "illegal cast", "null reference", "indirect call signature mismatch",
  /// "array out of bounds", "integer divide by zero", "integer overflow", "call stack exhausted", or a JS exception text
  #[serde(rename = "trap")]
  Trap { trap: String },
  /// the step budget was exhausted (never a verdict)
  #[serde(rename = "budget")]
  Budget,
}

#[derive(Clone, Debug, PartialEq, Eq, serde::Serialize, serde::Deserialize)]
pub struct Run {
  pub out: Vec<String>,
  pub end: End,
}
