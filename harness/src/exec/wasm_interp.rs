//! WasmGC interpreter over wasmparser's reader/operator stream.
//!
//! The emitted binary is validated, every function body is pre-decoded once into a flat vector of
//! compact `Op`s with resolved branch targets, and then executed by an explicit-frame-stack loop
//! (no native recursion per wasm call).  Values are untyped 64-bit slots:
//!   * i32: zero-extended, i64: as is
//!   * references: 0 = null, low two bits tag the rest: 1 = i31 (payload << 2), 2 = heap object
//!     (word offset of the header in `heap`, << 2), 3 = function (index << 2)
//! Heap objects live in one word arena: header = (length << 32 | module type index), then the
//! payload (one word per struct field / array element; i8 and i16 arrays are packed).
//! There is no garbage collector: a run that exceeds the arena limit (default 64 Mi words, override
//! with VH_WASM_HEAP_WORDS) ends as `End::Budget`, like running out of fuel.
//! Fuel counts executed `Op`s: block/loop/end/nop cost nothing, every other wasm instruction costs
//! one (a conditional branch that has to unwind operands costs two).
//! Not supported (reported as Err "unsupported opcode: ..."): floats, linear memory, SIMD, threads,
//! exceptions.  VH_WASM_TIMING=1 prints phase timings and the executed op count to stderr.
use super::{End, Run};
use std::collections::HashMap;
use wasmparser::{
  AbstractHeapType, BlockType, CompositeInnerType, DataKind, ElementItems, ElementKind,
  ExternalKind, HeapType, Operator, OperatorsReader, Parser, Payload, RefType, StorageType,
  SubType, TableInit, TypeRef, UnpackedIndex, ValType, Validator, WasmFeatures,
};

const MAX_DEPTH: usize = 20000;
const DEFAULT_HEAP_WORDS: usize = 64 << 20; // 512 MiB of arena
const MAX_ARRAY_WORDS: usize = 1 << 27; // beyond this: "requested new array is too large"
const MAX_TABLE: usize = 10_000_000;

// encoded cast target: bit31 nullable, bit30 concrete, low bits = type index / abstract code
const T_NULLABLE: u32 = 1 << 31;
const T_CONCRETE: u32 = 1 << 30;
const T_MASK: u32 = (1 << 30) - 1;
const A_ANY: u32 = 0;
const A_EQ: u32 = 1;
const A_I31: u32 = 2;
const A_STRUCT: u32 = 3;
const A_ARRAY: u32 = 4;
const A_NONE: u32 = 5;
const A_FUNC: u32 = 6;
const A_NOFUNC: u32 = 7;
const A_EXTERN: u32 = 8;
const A_NOEXTERN: u32 = 9;

const HOST_PRINTLN: u8 = 1;
const HOST_PANIC: u8 = 2;

fn features() -> WasmFeatures {
  WasmFeatures::WASM3
}

pub fn validate_wasm(wasm: &[u8]) -> Result<(), String> {
  let mut v = Validator::new_with_features(features());
  v.validate_all(wasm).map(|_| ()).map_err(|e| format!("invalid wasm module: {e}"))
}

// ---------------------------------------------------------------------------------------------
// decoded module
// ---------------------------------------------------------------------------------------------

#[derive(Clone, Copy, PartialEq, Eq, Debug)]
enum Stor {
  I8,
  I16,
  Word,
}

#[derive(Debug)]
enum TyKind {
  Func { params: u32, results: u32 },
  Struct { n: u32, fields: Vec<Stor>, packed: Vec<(u32, Stor)> },
  /// `bytes`: width of a numeric element inside a data segment (0 for references)
  Array { elem: Stor, bytes: u32 },
  Other,
}

#[derive(Debug)]
struct TypeInfo {
  kind: TyKind,
  canon: u32,
  /// canonical ids of the declared supertype chain, root first, self last
  supers: Vec<u32>,
}

#[derive(Clone, Debug)]
struct FuncInfo {
  type_idx: u32,
  entry: u32,
  n_params: u32,
  n_locals: u32,
  n_results: u32,
  frame_size: u32,
  host: u8,
}

#[derive(Clone, Copy, Debug)]
struct BrEntry {
  target: u32,
  height: u32,
  arity: u32,
}

#[derive(Clone, Copy, Debug)]
enum Op {
  Unreachable,
  Jump(u32),
  JumpAdj { target: u32, height: u32, arity: u32 },
  JmpIfZ(u32),
  JmpIfNz(u32),
  JmpIfNull(u32),
  JmpIfNonNull(u32),
  JmpIfCast { target: u32, ty: u32 },
  JmpIfNotCast { target: u32, ty: u32 },
  BrTable { base: u32, count: u32 },
  Return(u32),
  Call(u32),
  CallIndirect { ty: u32, table: u32 },
  CallRef,
  RetCall(u32),
  RetCallIndirect { ty: u32, table: u32 },
  RetCallRef,
  Drop,
  Select,
  LocalGet(u32),
  LocalSet(u32),
  LocalTee(u32),
  GlobalGet(u32),
  GlobalSet(u32),
  Const(u64),
  // i32
  I32Eqz,
  I32Eq,
  I32Ne,
  I32LtS,
  I32LtU,
  I32GtS,
  I32GtU,
  I32LeS,
  I32LeU,
  I32GeS,
  I32GeU,
  I32Clz,
  I32Ctz,
  I32Popcnt,
  I32Add,
  I32Sub,
  I32Mul,
  I32DivS,
  I32DivU,
  I32RemS,
  I32RemU,
  I32And,
  I32Or,
  I32Xor,
  I32Shl,
  I32ShrS,
  I32ShrU,
  I32Rotl,
  I32Rotr,
  I32Extend8S,
  I32Extend16S,
  I32WrapI64,
  // i64
  I64Eqz,
  I64Eq,
  I64Ne,
  I64LtS,
  I64LtU,
  I64GtS,
  I64GtU,
  I64LeS,
  I64LeU,
  I64GeS,
  I64GeU,
  I64Clz,
  I64Ctz,
  I64Popcnt,
  I64Add,
  I64Sub,
  I64Mul,
  I64DivS,
  I64DivU,
  I64RemS,
  I64RemU,
  I64And,
  I64Or,
  I64Xor,
  I64Shl,
  I64ShrS,
  I64ShrU,
  I64Rotl,
  I64Rotr,
  I64ExtendI32S,
  I64ExtendI32U,
  I64Extend8S,
  I64Extend16S,
  I64Extend32S,
  // references
  RefIsNull,
  RefAsNonNull,
  RefEq,
  RefTest(u32),
  RefCast(u32),
  RefI31,
  I31GetS,
  I31GetU,
  // structs
  StructNew { ty: u32, n: u32 },
  StructNewDefault { ty: u32, n: u32 },
  StructGet(u32),
  StructGetS8(u32),
  StructGetS16(u32),
  StructSet(u32),
  StructSet8(u32),
  StructSet16(u32),
  // arrays
  ArrayNew(u32),
  ArrayNewDefault(u32),
  ArrayNewFixed { ty: u32, n: u32 },
  ArrayNewData { ty: u32, data: u32 },
  ArrayNewElem { ty: u32, elem: u32 },
  ArrayGet,
  ArrayGetU8,
  ArrayGetS8,
  ArrayGetU16,
  ArrayGetS16,
  ArraySet,
  ArraySet8,
  ArraySet16,
  ArrayLen,
  ArrayFill(Stor),
  ArrayCopy(Stor),
  ArrayInitData { ty: u32, data: u32 },
  ArrayInitElem(u32),
  // tables / segments
  TableGet(u32),
  TableSet(u32),
  TableSize(u32),
  TableGrow(u32),
  TableFill(u32),
  TableCopy { dst: u32, src: u32 },
  TableInit { elem: u32, table: u32 },
  ElemDrop(u32),
  DataDrop(u32),
}

enum ElemMode {
  Passive,
  Declared,
  Active { table: u32, offset_fn: u32 },
}

enum ElemItem {
  Func(u32),
  Expr(u32),
}

struct ElemSeg {
  mode: ElemMode,
  items: Vec<ElemItem>,
}

struct TableDef {
  initial: u64,
  maximum: Option<u64>,
  init_fn: Option<u32>,
}

struct Module {
  types: Vec<TypeInfo>,
  funcs: Vec<FuncInfo>,
  code: Vec<Op>,
  br_tables: Vec<BrEntry>,
  global_inits: Vec<u32>,
  tables: Vec<TableDef>,
  elems: Vec<ElemSeg>,
  datas: Vec<Vec<u8>>,
  exports: HashMap<String, u32>,
  start: Option<u32>,
}

fn stor_of(st: &StorageType) -> Stor {
  match st {
    StorageType::I8 => Stor::I8,
    StorageType::I16 => Stor::I16,
    StorageType::Val(_) => Stor::Word,
  }
}

fn abstract_code(ty: AbstractHeapType) -> Result<u32, String> {
  Ok(match ty {
    AbstractHeapType::Any => A_ANY,
    AbstractHeapType::Eq => A_EQ,
    AbstractHeapType::I31 => A_I31,
    AbstractHeapType::Struct => A_STRUCT,
    AbstractHeapType::Array => A_ARRAY,
    AbstractHeapType::None => A_NONE,
    AbstractHeapType::Func => A_FUNC,
    AbstractHeapType::NoFunc => A_NOFUNC,
    AbstractHeapType::Extern => A_EXTERN,
    AbstractHeapType::NoExtern => A_NOEXTERN,
    other => return Err(format!("unsupported heap type {other:?}")),
  })
}

fn enc_ht(nullable: bool, ht: HeapType) -> Result<u32, String> {
  let n = if nullable { T_NULLABLE } else { 0 };
  match ht {
    HeapType::Abstract { shared: false, ty } => Ok(n | abstract_code(ty)?),
    HeapType::Concrete(UnpackedIndex::Module(i)) => Ok(n | T_CONCRETE | i),
    other => Err(format!("unsupported heap type {other:?}")),
  }
}

fn enc_rt(rt: RefType) -> Result<u32, String> {
  enc_ht(rt.is_nullable(), rt.heap_type())
}

// --- iso-recursive canonicalisation of the type section ---------------------------------------

struct Canon<'a> {
  start: u32,
  end: u32,
  canon: &'a [u32],
  out: Vec<u32>,
}

impl Canon<'_> {
  fn idx(&mut self, i: u32) {
    if i >= self.start && i < self.end {
      self.out.push(1);
      self.out.push(i - self.start);
    } else {
      self.out.push(2);
      self.out.push(self.canon[i as usize]);
    }
  }
  fn heap(&mut self, ht: HeapType) -> Result<(), String> {
    match ht {
      HeapType::Abstract { shared, ty } => {
        self.out.push(0);
        self.out.push(ty as u32 * 2 + shared as u32);
        Ok(())
      }
      HeapType::Concrete(UnpackedIndex::Module(i)) => {
        self.idx(i);
        Ok(())
      }
      other => Err(format!("unsupported heap type in type section: {other:?}")),
    }
  }
  fn val(&mut self, vt: ValType) -> Result<(), String> {
    match vt {
      ValType::I32 => self.out.push(10),
      ValType::I64 => self.out.push(11),
      ValType::F32 => self.out.push(12),
      ValType::F64 => self.out.push(13),
      ValType::V128 => self.out.push(14),
      ValType::Ref(rt) => {
        self.out.push(15 + rt.is_nullable() as u32);
        self.heap(rt.heap_type())?;
      }
    }
    Ok(())
  }
  fn stor(&mut self, st: &StorageType, mutable: bool) -> Result<(), String> {
    self.out.push(20 + mutable as u32);
    match st {
      StorageType::I8 => self.out.push(30),
      StorageType::I16 => self.out.push(31),
      StorageType::Val(v) => self.val(*v)?,
    }
    Ok(())
  }
  fn sub(&mut self, st: &SubType) -> Result<(), String> {
    self.out.push(40 + st.is_final as u32);
    match st.supertype_idx {
      None => self.out.push(0),
      Some(p) => {
        let i = p.as_module_index().ok_or("non-module supertype index")?;
        self.idx(i);
      }
    }
    if st.composite_type.shared {
      return Err("shared types are not supported".into());
    }
    match &st.composite_type.inner {
      CompositeInnerType::Func(f) => {
        self.out.push(50);
        self.out.push(f.params().len() as u32);
        for p in f.params() {
          self.val(*p)?;
        }
        self.out.push(f.results().len() as u32);
        for r in f.results() {
          self.val(*r)?;
        }
      }
      CompositeInnerType::Array(a) => {
        self.out.push(51);
        self.stor(&a.0.element_type, a.0.mutable)?;
      }
      CompositeInnerType::Struct(s) => {
        self.out.push(52);
        self.out.push(s.fields.len() as u32);
        for f in s.fields.iter() {
          self.stor(&f.element_type, f.mutable)?;
        }
      }
      CompositeInnerType::Cont(_) => return Err("continuation types are not supported".into()),
    }
    Ok(())
  }
}

fn val_bytes(st: &StorageType) -> u32 {
  match st {
    StorageType::I8 => 1,
    StorageType::I16 => 2,
    StorageType::Val(ValType::I32) | StorageType::Val(ValType::F32) => 4,
    StorageType::Val(ValType::I64) | StorageType::Val(ValType::F64) => 8,
    _ => 0,
  }
}

struct TypeTable {
  types: Vec<TypeInfo>,
  canon: Vec<u32>,
  groups: HashMap<Vec<u32>, u32>,
  next_canon: u32,
}

impl TypeTable {
  fn add_group(&mut self, subs: Vec<SubType>) -> Result<(), String> {
    let start = self.types.len() as u32;
    let end = start + subs.len() as u32;
    let mut c = Canon { start, end, canon: &self.canon, out: vec![subs.len() as u32] };
    for s in &subs {
      c.sub(s)?;
    }
    let key = c.out;
    let base = match self.groups.get(&key) {
      Some(b) => *b,
      None => {
        let b = self.next_canon;
        self.next_canon += subs.len() as u32;
        self.groups.insert(key, b);
        b
      }
    };
    for (k, s) in subs.iter().enumerate() {
      let canon = base + k as u32;
      self.canon.push(canon);
      let kind = match &s.composite_type.inner {
        CompositeInnerType::Func(f) => {
          TyKind::Func { params: f.params().len() as u32, results: f.results().len() as u32 }
        }
        CompositeInnerType::Array(a) => {
          TyKind::Array { elem: stor_of(&a.0.element_type), bytes: val_bytes(&a.0.element_type) }
        }
        CompositeInnerType::Struct(st) => {
          let fields: Vec<Stor> = st.fields.iter().map(|f| stor_of(&f.element_type)).collect();
          let packed = fields
            .iter()
            .enumerate()
            .filter(|(_, s)| **s != Stor::Word)
            .map(|(i, s)| (i as u32, *s))
            .collect();
          TyKind::Struct { n: fields.len() as u32, fields, packed }
        }
        CompositeInnerType::Cont(_) => TyKind::Other,
      };
      let mut supers = match s.supertype_idx {
        None => Vec::new(),
        Some(p) => {
          let i = p.as_module_index().ok_or("non-module supertype index")? as usize;
          // validation guarantees the supertype was defined earlier (or earlier in this group)
          self.types.get(i).ok_or("forward supertype reference")?.supers.clone()
        }
      };
      supers.push(canon);
      self.types.push(TypeInfo { kind, canon, supers });
    }
    Ok(())
  }
}

// ---------------------------------------------------------------------------------------------
// function body -> Op vector
// ---------------------------------------------------------------------------------------------

#[derive(Clone, Copy, PartialEq, Eq)]
enum CK {
  Func,
  Block,
  Loop,
  If,
}

enum Fix {
  Code(usize),
  Table(usize),
}

struct Ctrl {
  kind: CK,
  height: u32,
  n_params: u32,
  n_results: u32,
  loop_pc: u32,
  fixups: Vec<Fix>,
  else_fix: Option<usize>,
}

struct Builder {
  tt: TypeTable,
  /// type index of every function in the index space (imports first)
  func_types: Vec<u32>,
  code: Vec<Op>,
  br_tables: Vec<BrEntry>,
}

struct Body {
  entry: u32,
  max_h: u32,
}

fn set_target(op: &mut Op, t: u32) {
  match op {
    Op::Jump(x) | Op::JmpIfZ(x) | Op::JmpIfNz(x) | Op::JmpIfNull(x) | Op::JmpIfNonNull(x) => *x = t,
    Op::JumpAdj { target, .. } | Op::JmpIfCast { target, .. } | Op::JmpIfNotCast { target, .. } => {
      *target = t
    }
    _ => unreachable!("set_target on non-jump"),
  }
}

struct Fc<'b> {
  b: &'b mut Builder,
  ctrls: Vec<Ctrl>,
  h: u32,
  max_h: u32,
  n_locals: u32,
  live: bool,
  dead_depth: u32,
}

impl Fc<'_> {
  fn pop(&mut self, n: u32) -> Result<(), String> {
    self.h = self.h.checked_sub(n).ok_or("operand stack underflow while decoding (invalid module?)")?;
    Ok(())
  }
  fn push(&mut self, n: u32) {
    self.h += n;
    if self.h > self.max_h {
      self.max_h = self.h;
    }
  }
  fn emit(&mut self, op: Op, pops: u32, pushes: u32) -> Result<(), String> {
    self.pop(pops)?;
    self.push(pushes);
    self.b.code.push(op);
    Ok(())
  }
  fn dead(&mut self) {
    self.live = false;
    self.dead_depth = 0;
  }
  fn func_sig(&self, ty: u32) -> Result<(u32, u32), String> {
    match self.b.tt.types.get(ty as usize).map(|t| &t.kind) {
      Some(TyKind::Func { params, results }) => Ok((*params, *results)),
      _ => Err(format!("type {ty} is not a function type")),
    }
  }
  fn block_sig(&self, bt: BlockType) -> Result<(u32, u32), String> {
    match bt {
      BlockType::Empty => Ok((0, 0)),
      BlockType::Type(_) => Ok((0, 1)),
      BlockType::FuncType(i) => self.func_sig(i),
    }
  }
  fn push_ctrl(&mut self, kind: CK, p: u32, r: u32) -> Result<(), String> {
    let height = self.h.checked_sub(p).ok_or("block parameters underflow")?;
    self.ctrls.push(Ctrl {
      kind,
      height,
      n_params: p,
      n_results: r,
      loop_pc: self.b.code.len() as u32,
      fixups: Vec::new(),
      else_fix: None,
    });
    Ok(())
  }
  /// (ctrl index, label arity, label height, known target)
  fn label(&self, depth: u32) -> Result<(usize, u32, u32, Option<u32>), String> {
    let n = self.ctrls.len();
    let i = n.checked_sub(1 + depth as usize).ok_or("branch depth out of range")?;
    let c = &self.ctrls[i];
    if c.kind == CK::Loop {
      Ok((i, c.n_params, c.height, Some(c.loop_pc)))
    } else {
      Ok((i, c.n_results, c.height, None))
    }
  }
  /// emits an unconditional transfer to the label with whatever stack adjustment is needed
  fn emit_jump(&mut self, depth: u32) -> Result<(), String> {
    let (ci, arity, lh, known) = self.label(depth)?;
    let at = self.b.code.len();
    let t = known.unwrap_or(0);
    if self.h == lh + arity {
      self.b.code.push(Op::Jump(t));
    } else {
      self.b.code.push(Op::JumpAdj { target: t, height: self.n_locals + lh, arity });
    }
    if known.is_none() {
      self.ctrls[ci].fixups.push(Fix::Code(at));
    }
    Ok(())
  }
  fn needs_adjust(&self, depth: u32) -> Result<bool, String> {
    let (_, arity, lh, _) = self.label(depth)?;
    Ok(self.h != lh + arity)
  }
  /// conditional branch: `direct(t)` jumps to the label when the condition holds (used when no
  /// stack adjustment is needed), otherwise `inverse(skip)` jumps over an adjusting jump.
  fn emit_cond(
    &mut self,
    depth: u32,
    direct: impl Fn(u32) -> Op,
    inverse: impl Fn(u32) -> Op,
  ) -> Result<(), String> {
    if !self.needs_adjust(depth)? {
      let (ci, _, _, known) = self.label(depth)?;
      let at = self.b.code.len();
      self.b.code.push(direct(known.unwrap_or(0)));
      if known.is_none() {
        self.ctrls[ci].fixups.push(Fix::Code(at));
      }
    } else {
      let at = self.b.code.len();
      self.b.code.push(inverse(0));
      self.emit_jump(depth)?;
      let skip = self.b.code.len() as u32;
      set_target(&mut self.b.code[at], skip);
    }
    Ok(())
  }
  fn patch(&mut self, f: Fix, t: u32) {
    match f {
      Fix::Code(i) => set_target(&mut self.b.code[i], t),
      Fix::Table(i) => self.b.br_tables[i].target = t,
    }
  }
  fn array_kind(&self, ty: u32) -> Result<(Stor, u32), String> {
    match self.b.tt.types.get(ty as usize).map(|t| &t.kind) {
      Some(TyKind::Array { elem, bytes }) => Ok((*elem, *bytes)),
      _ => Err(format!("type {ty} is not an array type")),
    }
  }
  fn struct_field(&self, ty: u32, f: u32) -> Result<(u32, Stor), String> {
    match self.b.tt.types.get(ty as usize).map(|t| &t.kind) {
      Some(TyKind::Struct { n, fields, .. }) => {
        Ok((*n, *fields.get(f as usize).ok_or("struct field out of range")?))
      }
      _ => Err(format!("type {ty} is not a struct type")),
    }
  }
  fn struct_n(&self, ty: u32) -> Result<u32, String> {
    match self.b.tt.types.get(ty as usize).map(|t| &t.kind) {
      Some(TyKind::Struct { n, .. }) => Ok(*n),
      _ => Err(format!("type {ty} is not a struct type")),
    }
  }
}

impl Builder {
  /// Compiles one expression/function body.  `n_results` is the arity of the implicit outer label.
  fn compile(
    &mut self,
    mut ops: OperatorsReader<'_>,
    n_locals: u32,
    n_results: u32,
  ) -> Result<Body, String> {
    use Operator as O;
    let entry = self.code.len() as u32;
    let mut c =
      Fc { b: self, ctrls: Vec::new(), h: 0, max_h: 0, n_locals, live: true, dead_depth: 0 };
    c.push_ctrl(CK::Func, 0, n_results)?;
    while !ops.eof() {
      let op = ops.read().map_err(|e| format!("malformed code: {e}"))?;
      if c.ctrls.is_empty() {
        return Err("operators after the final end".into());
      }
      if !c.live {
        match &op {
          O::Block { .. } | O::Loop { .. } | O::If { .. } => {
            c.dead_depth += 1;
            continue;
          }
          O::TryTable { .. } | O::Try { .. } => {
            return Err(format!("unsupported opcode: {op:?}"));
          }
          O::End if c.dead_depth > 0 => {
            c.dead_depth -= 1;
            continue;
          }
          O::Else if c.dead_depth > 0 => continue,
          O::End | O::Else => {}
          _ => continue,
        }
      }
      match op {
        O::Unreachable => {
          c.emit(Op::Unreachable, 0, 0)?;
          c.dead();
        }
        O::Nop => {}
        O::Block { blockty } => {
          let (p, r) = c.block_sig(blockty)?;
          c.push_ctrl(CK::Block, p, r)?;
        }
        O::Loop { blockty } => {
          let (p, r) = c.block_sig(blockty)?;
          c.push_ctrl(CK::Loop, p, r)?;
        }
        O::If { blockty } => {
          let (p, r) = c.block_sig(blockty)?;
          c.pop(1)?;
          let at = c.b.code.len();
          c.b.code.push(Op::JmpIfZ(0));
          c.push_ctrl(CK::If, p, r)?;
          c.ctrls.last_mut().unwrap().else_fix = Some(at);
        }
        O::Else => {
          if c.live {
            let at = c.b.code.len();
            c.b.code.push(Op::Jump(0));
            c.ctrls.last_mut().unwrap().fixups.push(Fix::Code(at));
          }
          let here = c.b.code.len() as u32;
          let top = c.ctrls.last_mut().unwrap();
          let ef = top.else_fix.take().ok_or("else without if")?;
          let (h, p) = (top.height, top.n_params);
          set_target(&mut c.b.code[ef], here);
          c.h = h + p;
          c.live = true;
        }
        O::End => {
          let top = c.ctrls.pop().unwrap();
          let here = c.b.code.len() as u32;
          if let Some(ef) = top.else_fix {
            set_target(&mut c.b.code[ef], here);
          }
          for f in top.fixups {
            c.patch(f, here);
          }
          c.h = top.height + top.n_results;
          if c.h > c.max_h {
            c.max_h = c.h;
          }
          c.live = true;
          if c.ctrls.is_empty() {
            c.b.code.push(Op::Return(top.n_results));
          }
        }
        O::Br { relative_depth } => {
          c.emit_jump(relative_depth)?;
          c.dead();
        }
        O::BrIf { relative_depth } => {
          c.pop(1)?;
          c.emit_cond(relative_depth, Op::JmpIfNz, Op::JmpIfZ)?;
        }
        O::BrTable { targets } => {
          c.pop(1)?;
          let mut depths = Vec::new();
          for t in targets.targets() {
            depths.push(t.map_err(|e| e.to_string())?);
          }
          depths.push(targets.default());
          let base = c.b.br_tables.len() as u32;
          for d in &depths {
            let (ci, arity, lh, known) = c.label(*d)?;
            let at = c.b.br_tables.len();
            c.b.br_tables.push(BrEntry {
              target: known.unwrap_or(0),
              height: c.n_locals + lh,
              arity,
            });
            if known.is_none() {
              c.ctrls[ci].fixups.push(Fix::Table(at));
            }
          }
          c.b.code.push(Op::BrTable { base, count: depths.len() as u32 });
          c.dead();
        }
        O::Return => {
          let r = c.ctrls[0].n_results;
          c.emit(Op::Return(r), 0, 0)?;
          c.dead();
        }
        O::Call { function_index } => {
          let ty = *c.b.func_types.get(function_index as usize).ok_or("call: bad function index")?;
          let (p, r) = c.func_sig(ty)?;
          c.emit(Op::Call(function_index), p, r)?;
        }
        O::CallIndirect { type_index, table_index } => {
          let (p, r) = c.func_sig(type_index)?;
          c.emit(Op::CallIndirect { ty: type_index, table: table_index }, p + 1, r)?;
        }
        O::CallRef { type_index } => {
          let (p, r) = c.func_sig(type_index)?;
          c.emit(Op::CallRef, p + 1, r)?;
        }
        O::ReturnCall { function_index } => {
          let ty = *c.b.func_types.get(function_index as usize).ok_or("call: bad function index")?;
          let (p, _) = c.func_sig(ty)?;
          c.emit(Op::RetCall(function_index), p, 0)?;
          c.dead();
        }
        O::ReturnCallIndirect { type_index, table_index } => {
          let (p, _) = c.func_sig(type_index)?;
          c.emit(Op::RetCallIndirect { ty: type_index, table: table_index }, p + 1, 0)?;
          c.dead();
        }
        O::ReturnCallRef { type_index } => {
          let (p, _) = c.func_sig(type_index)?;
          c.emit(Op::RetCallRef, p + 1, 0)?;
          c.dead();
        }
        O::Drop => c.emit(Op::Drop, 1, 0)?,
        O::Select | O::TypedSelect { .. } => c.emit(Op::Select, 3, 1)?,
        O::LocalGet { local_index } => c.emit(Op::LocalGet(local_index), 0, 1)?,
        O::LocalSet { local_index } => c.emit(Op::LocalSet(local_index), 1, 0)?,
        O::LocalTee { local_index } => c.emit(Op::LocalTee(local_index), 1, 1)?,
        O::GlobalGet { global_index } => c.emit(Op::GlobalGet(global_index), 0, 1)?,
        O::GlobalSet { global_index } => c.emit(Op::GlobalSet(global_index), 1, 0)?,
        O::I32Const { value } => c.emit(Op::Const(value as u32 as u64), 0, 1)?,
        O::I64Const { value } => c.emit(Op::Const(value as u64), 0, 1)?,
        O::RefNull { .. } => c.emit(Op::Const(0), 0, 1)?,
        O::RefFunc { function_index } => {
          c.emit(Op::Const(((function_index as u64) << 2) | 3), 0, 1)?
        }
        O::I32Eqz => c.emit(Op::I32Eqz, 1, 1)?,
        O::I32Eq => c.emit(Op::I32Eq, 2, 1)?,
        O::I32Ne => c.emit(Op::I32Ne, 2, 1)?,
        O::I32LtS => c.emit(Op::I32LtS, 2, 1)?,
        O::I32LtU => c.emit(Op::I32LtU, 2, 1)?,
        O::I32GtS => c.emit(Op::I32GtS, 2, 1)?,
        O::I32GtU => c.emit(Op::I32GtU, 2, 1)?,
        O::I32LeS => c.emit(Op::I32LeS, 2, 1)?,
        O::I32LeU => c.emit(Op::I32LeU, 2, 1)?,
        O::I32GeS => c.emit(Op::I32GeS, 2, 1)?,
        O::I32GeU => c.emit(Op::I32GeU, 2, 1)?,
        O::I32Clz => c.emit(Op::I32Clz, 1, 1)?,
        O::I32Ctz => c.emit(Op::I32Ctz, 1, 1)?,
        O::I32Popcnt => c.emit(Op::I32Popcnt, 1, 1)?,
        O::I32Add => c.emit(Op::I32Add, 2, 1)?,
        O::I32Sub => c.emit(Op::I32Sub, 2, 1)?,
        O::I32Mul => c.emit(Op::I32Mul, 2, 1)?,
        O::I32DivS => c.emit(Op::I32DivS, 2, 1)?,
        O::I32DivU => c.emit(Op::I32DivU, 2, 1)?,
        O::I32RemS => c.emit(Op::I32RemS, 2, 1)?,
        O::I32RemU => c.emit(Op::I32RemU, 2, 1)?,
        O::I32And => c.emit(Op::I32And, 2, 1)?,
        O::I32Or => c.emit(Op::I32Or, 2, 1)?,
        O::I32Xor => c.emit(Op::I32Xor, 2, 1)?,
        O::I32Shl => c.emit(Op::I32Shl, 2, 1)?,
        O::I32ShrS => c.emit(Op::I32ShrS, 2, 1)?,
        O::I32ShrU => c.emit(Op::I32ShrU, 2, 1)?,
        O::I32Rotl => c.emit(Op::I32Rotl, 2, 1)?,
        O::I32Rotr => c.emit(Op::I32Rotr, 2, 1)?,
        O::I32Extend8S => c.emit(Op::I32Extend8S, 1, 1)?,
        O::I32Extend16S => c.emit(Op::I32Extend16S, 1, 1)?,
        O::I32WrapI64 => c.emit(Op::I32WrapI64, 1, 1)?,
        O::I64Eqz => c.emit(Op::I64Eqz, 1, 1)?,
        O::I64Eq => c.emit(Op::I64Eq, 2, 1)?,
        O::I64Ne => c.emit(Op::I64Ne, 2, 1)?,
        O::I64LtS => c.emit(Op::I64LtS, 2, 1)?,
        O::I64LtU => c.emit(Op::I64LtU, 2, 1)?,
        O::I64GtS => c.emit(Op::I64GtS, 2, 1)?,
        O::I64GtU => c.emit(Op::I64GtU, 2, 1)?,
        O::I64LeS => c.emit(Op::I64LeS, 2, 1)?,
        O::I64LeU => c.emit(Op::I64LeU, 2, 1)?,
        O::I64GeS => c.emit(Op::I64GeS, 2, 1)?,
        O::I64GeU => c.emit(Op::I64GeU, 2, 1)?,
        O::I64Clz => c.emit(Op::I64Clz, 1, 1)?,
        O::I64Ctz => c.emit(Op::I64Ctz, 1, 1)?,
        O::I64Popcnt => c.emit(Op::I64Popcnt, 1, 1)?,
        O::I64Add => c.emit(Op::I64Add, 2, 1)?,
        O::I64Sub => c.emit(Op::I64Sub, 2, 1)?,
        O::I64Mul => c.emit(Op::I64Mul, 2, 1)?,
        O::I64DivS => c.emit(Op::I64DivS, 2, 1)?,
        O::I64DivU => c.emit(Op::I64DivU, 2, 1)?,
        O::I64RemS => c.emit(Op::I64RemS, 2, 1)?,
        O::I64RemU => c.emit(Op::I64RemU, 2, 1)?,
        O::I64And => c.emit(Op::I64And, 2, 1)?,
        O::I64Or => c.emit(Op::I64Or, 2, 1)?,
        O::I64Xor => c.emit(Op::I64Xor, 2, 1)?,
        O::I64Shl => c.emit(Op::I64Shl, 2, 1)?,
        O::I64ShrS => c.emit(Op::I64ShrS, 2, 1)?,
        O::I64ShrU => c.emit(Op::I64ShrU, 2, 1)?,
        O::I64Rotl => c.emit(Op::I64Rotl, 2, 1)?,
        O::I64Rotr => c.emit(Op::I64Rotr, 2, 1)?,
        O::I64ExtendI32S => c.emit(Op::I64ExtendI32S, 1, 1)?,
        O::I64ExtendI32U => c.emit(Op::I64ExtendI32U, 1, 1)?,
        O::I64Extend8S => c.emit(Op::I64Extend8S, 1, 1)?,
        O::I64Extend16S => c.emit(Op::I64Extend16S, 1, 1)?,
        O::I64Extend32S => c.emit(Op::I64Extend32S, 1, 1)?,
        O::RefIsNull => c.emit(Op::RefIsNull, 1, 1)?,
        O::RefAsNonNull => c.emit(Op::RefAsNonNull, 1, 1)?,
        O::RefEq => c.emit(Op::RefEq, 2, 1)?,
        O::RefTestNonNull { hty } => c.emit(Op::RefTest(enc_ht(false, hty)?), 1, 1)?,
        O::RefTestNullable { hty } => c.emit(Op::RefTest(enc_ht(true, hty)?), 1, 1)?,
        O::RefCastNonNull { hty } => c.emit(Op::RefCast(enc_ht(false, hty)?), 1, 1)?,
        O::RefCastNullable { hty } => c.emit(Op::RefCast(enc_ht(true, hty)?), 1, 1)?,
        O::BrOnNull { relative_depth } => {
          // null: ref is popped and the branch taken; otherwise the ref stays
          c.pop(1)?;
          let at = c.b.code.len();
          if !c.needs_adjust(relative_depth)? {
            let (ci, _, _, known) = c.label(relative_depth)?;
            c.b.code.push(Op::JmpIfNull(known.unwrap_or(0)));
            if known.is_none() {
              c.ctrls[ci].fixups.push(Fix::Code(at));
            }
          } else {
            c.b.code.push(Op::JmpIfNull(at as u32 + 2));
            let j = c.b.code.len();
            c.b.code.push(Op::Jump(0));
            c.emit_jump(relative_depth)?;
            let after = c.b.code.len() as u32;
            set_target(&mut c.b.code[j], after);
          }
          c.push(1);
        }
        O::BrOnNonNull { relative_depth } => {
          // non-null: branch taken with the ref as the last label value; otherwise it is popped
          let at = c.b.code.len();
          if !c.needs_adjust(relative_depth)? {
            let (ci, _, _, known) = c.label(relative_depth)?;
            c.b.code.push(Op::JmpIfNonNull(known.unwrap_or(0)));
            if known.is_none() {
              c.ctrls[ci].fixups.push(Fix::Code(at));
            }
          } else {
            c.b.code.push(Op::JmpIfNonNull(at as u32 + 2));
            let j = c.b.code.len();
            c.b.code.push(Op::Jump(0));
            c.emit_jump(relative_depth)?;
            let after = c.b.code.len() as u32;
            set_target(&mut c.b.code[j], after);
          }
          c.pop(1)?;
        }
        O::BrOnCast { relative_depth, to_ref_type, .. } => {
          let ty = enc_rt(to_ref_type)?;
          c.emit_cond(
            relative_depth,
            |t| Op::JmpIfCast { target: t, ty },
            |t| Op::JmpIfNotCast { target: t, ty },
          )?;
        }
        O::BrOnCastFail { relative_depth, to_ref_type, .. } => {
          let ty = enc_rt(to_ref_type)?;
          c.emit_cond(
            relative_depth,
            |t| Op::JmpIfNotCast { target: t, ty },
            |t| Op::JmpIfCast { target: t, ty },
          )?;
        }
        O::AnyConvertExtern | O::ExternConvertAny => {}
        O::RefI31 => c.emit(Op::RefI31, 1, 1)?,
        O::I31GetS => c.emit(Op::I31GetS, 1, 1)?,
        O::I31GetU => c.emit(Op::I31GetU, 1, 1)?,
        O::StructNew { struct_type_index } => {
          let n = c.struct_n(struct_type_index)?;
          c.emit(Op::StructNew { ty: struct_type_index, n }, n, 1)?;
        }
        O::StructNewDefault { struct_type_index } => {
          let n = c.struct_n(struct_type_index)?;
          c.emit(Op::StructNewDefault { ty: struct_type_index, n }, 0, 1)?;
        }
        O::StructGet { struct_type_index, field_index }
        | O::StructGetU { struct_type_index, field_index } => {
          c.struct_field(struct_type_index, field_index)?;
          c.emit(Op::StructGet(field_index), 1, 1)?;
        }
        O::StructGetS { struct_type_index, field_index } => {
          let (_, st) = c.struct_field(struct_type_index, field_index)?;
          let op = match st {
            Stor::I8 => Op::StructGetS8(field_index),
            Stor::I16 => Op::StructGetS16(field_index),
            Stor::Word => Op::StructGet(field_index),
          };
          c.emit(op, 1, 1)?;
        }
        O::StructSet { struct_type_index, field_index } => {
          let (_, st) = c.struct_field(struct_type_index, field_index)?;
          let op = match st {
            Stor::I8 => Op::StructSet8(field_index),
            Stor::I16 => Op::StructSet16(field_index),
            Stor::Word => Op::StructSet(field_index),
          };
          c.emit(op, 2, 0)?;
        }
        O::ArrayNew { array_type_index } => {
          c.array_kind(array_type_index)?;
          c.emit(Op::ArrayNew(array_type_index), 2, 1)?;
        }
        O::ArrayNewDefault { array_type_index } => {
          c.array_kind(array_type_index)?;
          c.emit(Op::ArrayNewDefault(array_type_index), 1, 1)?;
        }
        O::ArrayNewFixed { array_type_index, array_size } => {
          c.array_kind(array_type_index)?;
          c.emit(Op::ArrayNewFixed { ty: array_type_index, n: array_size }, array_size, 1)?;
        }
        O::ArrayNewData { array_type_index, array_data_index } => {
          c.array_kind(array_type_index)?;
          c.emit(Op::ArrayNewData { ty: array_type_index, data: array_data_index }, 2, 1)?;
        }
        O::ArrayNewElem { array_type_index, array_elem_index } => {
          c.array_kind(array_type_index)?;
          c.emit(Op::ArrayNewElem { ty: array_type_index, elem: array_elem_index }, 2, 1)?;
        }
        O::ArrayGet { array_type_index } => {
          c.array_kind(array_type_index)?;
          c.emit(Op::ArrayGet, 2, 1)?;
        }
        O::ArrayGetS { array_type_index } => {
          let op = match c.array_kind(array_type_index)?.0 {
            Stor::I8 => Op::ArrayGetS8,
            Stor::I16 => Op::ArrayGetS16,
            Stor::Word => Op::ArrayGet,
          };
          c.emit(op, 2, 1)?;
        }
        O::ArrayGetU { array_type_index } => {
          let op = match c.array_kind(array_type_index)?.0 {
            Stor::I8 => Op::ArrayGetU8,
            Stor::I16 => Op::ArrayGetU16,
            Stor::Word => Op::ArrayGet,
          };
          c.emit(op, 2, 1)?;
        }
        O::ArraySet { array_type_index } => {
          let op = match c.array_kind(array_type_index)?.0 {
            Stor::I8 => Op::ArraySet8,
            Stor::I16 => Op::ArraySet16,
            Stor::Word => Op::ArraySet,
          };
          c.emit(op, 3, 0)?;
        }
        O::ArrayLen => c.emit(Op::ArrayLen, 1, 1)?,
        O::ArrayFill { array_type_index } => {
          let st = c.array_kind(array_type_index)?.0;
          c.emit(Op::ArrayFill(st), 4, 0)?;
        }
        O::ArrayCopy { array_type_index_dst, .. } => {
          let st = c.array_kind(array_type_index_dst)?.0;
          c.emit(Op::ArrayCopy(st), 5, 0)?;
        }
        O::ArrayInitData { array_type_index, array_data_index } => {
          c.array_kind(array_type_index)?;
          c.emit(Op::ArrayInitData { ty: array_type_index, data: array_data_index }, 4, 0)?;
        }
        O::ArrayInitElem { array_elem_index, .. } => {
          c.emit(Op::ArrayInitElem(array_elem_index), 4, 0)?;
        }
        O::TableGet { table } => c.emit(Op::TableGet(table), 1, 1)?,
        O::TableSet { table } => c.emit(Op::TableSet(table), 2, 0)?,
        O::TableSize { table } => c.emit(Op::TableSize(table), 0, 1)?,
        O::TableGrow { table } => c.emit(Op::TableGrow(table), 2, 1)?,
        O::TableFill { table } => c.emit(Op::TableFill(table), 3, 0)?,
        O::TableCopy { dst_table, src_table } => {
          c.emit(Op::TableCopy { dst: dst_table, src: src_table }, 3, 0)?
        }
        O::TableInit { elem_index, table } => {
          c.emit(Op::TableInit { elem: elem_index, table }, 3, 0)?
        }
        O::ElemDrop { elem_index } => c.emit(Op::ElemDrop(elem_index), 0, 0)?,
        O::DataDrop { data_index } => c.emit(Op::DataDrop(data_index), 0, 0)?,
        other => return Err(format!("unsupported opcode: {other:?}")),
      }
    }
    if !c.ctrls.is_empty() {
      return Err("function body ended inside a block".into());
    }
    Ok(Body { entry, max_h: c.max_h })
  }
}

// ---------------------------------------------------------------------------------------------
// module decoding
// ---------------------------------------------------------------------------------------------

fn decode(wasm: &[u8]) -> Result<Module, String> {
  let mut b = Builder {
    tt: TypeTable { types: Vec::new(), canon: Vec::new(), groups: HashMap::new(), next_canon: 0 },
    func_types: Vec::new(),
    code: Vec::new(),
    br_tables: Vec::new(),
  };
  let mut funcs: Vec<FuncInfo> = Vec::new();
  // const expressions are compiled into pseudo functions, appended after the real ones
  let mut pseudo: Vec<FuncInfo> = Vec::new();
  let mut n_imports = 0usize;
  let mut next_body = 0usize;
  let mut global_inits = Vec::new();
  let mut tables = Vec::new();
  let mut elems = Vec::new();
  let mut datas = Vec::new();
  let mut exports = HashMap::new();
  let mut start = None;
  // pseudo function ids are provisional (offset by PSEUDO_BASE) until the function count is known
  const PSEUDO_BASE: u32 = 1 << 30;

  fn const_expr(
    b: &mut Builder,
    pseudo: &mut Vec<FuncInfo>,
    ops: OperatorsReader<'_>,
  ) -> Result<u32, String> {
    let body = b.compile(ops, 0, 1)?;
    pseudo.push(FuncInfo {
      type_idx: u32::MAX,
      entry: body.entry,
      n_params: 0,
      n_locals: 0,
      n_results: 1,
      frame_size: body.max_h + 2,
      host: 0,
    });
    Ok(PSEUDO_BASE + pseudo.len() as u32 - 1)
  }

  for payload in Parser::new(0).parse_all(wasm) {
    let payload = payload.map_err(|e| format!("malformed module: {e}"))?;
    match payload {
      Payload::Version { .. } => {}
      Payload::TypeSection(r) => {
        for g in r {
          let g = g.map_err(|e| e.to_string())?;
          b.tt.add_group(g.into_types().collect())?;
        }
      }
      Payload::ImportSection(r) => {
        for imp in r.into_imports() {
          let imp = imp.map_err(|e| e.to_string())?;
          match imp.ty {
            TypeRef::Func(t) | TypeRef::FuncExact(t) => {
              let host = match (imp.module, imp.name) {
                ("builtins", "__Process$println") => HOST_PRINTLN,
                ("builtins", "__Process$panic") => HOST_PANIC,
                (m, n) => return Err(format!("unknown function import {m}.{n}")),
              };
              let (p, r) = match b.tt.types.get(t as usize).map(|x| &x.kind) {
                Some(TyKind::Func { params, results }) => (*params, *results),
                _ => return Err("import type is not a function".into()),
              };
              if p != 2 || r != 1 {
                return Err(format!("import {} has an unexpected signature", imp.name));
              }
              b.func_types.push(t);
              funcs.push(FuncInfo {
                type_idx: t,
                entry: 0,
                n_params: p,
                n_locals: p,
                n_results: r,
                frame_size: p,
                host,
              });
              n_imports += 1;
            }
            other => return Err(format!("unsupported import {}.{}: {other:?}", imp.module, imp.name)),
          }
        }
      }
      Payload::FunctionSection(r) => {
        for t in r {
          let t = t.map_err(|e| e.to_string())?;
          let (p, res) = match b.tt.types.get(t as usize).map(|x| &x.kind) {
            Some(TyKind::Func { params, results }) => (*params, *results),
            _ => return Err("function type index is not a function type".into()),
          };
          b.func_types.push(t);
          funcs.push(FuncInfo {
            type_idx: t,
            entry: u32::MAX,
            n_params: p,
            n_locals: p,
            n_results: res,
            frame_size: 0,
            host: 0,
          });
        }
      }
      Payload::TableSection(r) => {
        for t in r {
          let t = t.map_err(|e| e.to_string())?;
          if t.ty.table64 || t.ty.shared {
            return Err("table64/shared tables are not supported".into());
          }
          let init_fn = match t.init {
            TableInit::RefNull => None,
            TableInit::Expr(e) => Some(const_expr(&mut b, &mut pseudo, e.get_operators_reader())?),
          };
          tables.push(TableDef { initial: t.ty.initial, maximum: t.ty.maximum, init_fn });
        }
      }
      Payload::MemorySection(r) => {
        if r.count() > 0 {
          return Err("linear memory is not supported by this interpreter".into());
        }
      }
      Payload::TagSection(r) => {
        if r.count() > 0 {
          return Err("exception tags are not supported by this interpreter".into());
        }
      }
      Payload::GlobalSection(r) => {
        for g in r {
          let g = g.map_err(|e| e.to_string())?;
          global_inits.push(const_expr(&mut b, &mut pseudo, g.init_expr.get_operators_reader())?);
        }
      }
      Payload::ExportSection(r) => {
        for e in r {
          let e = e.map_err(|e| e.to_string())?;
          if matches!(e.kind, ExternalKind::Func | ExternalKind::FuncExact) {
            exports.insert(e.name.to_string(), e.index);
          }
        }
      }
      Payload::StartSection { func, .. } => start = Some(func),
      Payload::ElementSection(r) => {
        for e in r {
          let e = e.map_err(|e| e.to_string())?;
          let mode = match e.kind {
            ElementKind::Passive => ElemMode::Passive,
            ElementKind::Declared => ElemMode::Declared,
            ElementKind::Active { table_index, offset_expr } => ElemMode::Active {
              table: table_index.unwrap_or(0),
              offset_fn: const_expr(&mut b, &mut pseudo, offset_expr.get_operators_reader())?,
            },
          };
          let mut items = Vec::new();
          match e.items {
            ElementItems::Functions(fs) => {
              for f in fs {
                items.push(ElemItem::Func(f.map_err(|e| e.to_string())?));
              }
            }
            ElementItems::Expressions(_, es) => {
              for x in es {
                let x = x.map_err(|e| e.to_string())?;
                items.push(ElemItem::Expr(const_expr(&mut b, &mut pseudo, x.get_operators_reader())?));
              }
            }
          }
          elems.push(ElemSeg { mode, items });
        }
      }
      Payload::DataCountSection { .. } => {}
      Payload::DataSection(r) => {
        for d in r {
          let d = d.map_err(|e| e.to_string())?;
          match d.kind {
            DataKind::Passive => datas.push(d.data.to_vec()),
            DataKind::Active { .. } => {
              return Err("active data segments (linear memory) are not supported".into())
            }
          }
        }
      }
      Payload::CodeSectionStart { .. } => {}
      Payload::CodeSectionEntry(body) => {
        let fi = n_imports + next_body;
        next_body += 1;
        if fi >= funcs.len() {
          return Err("more code entries than functions".into());
        }
        let mut n_locals = funcs[fi].n_params;
        let mut lr = body.get_locals_reader().map_err(|e| e.to_string())?;
        for _ in 0..lr.get_count() {
          let (cnt, _ty) = lr.read().map_err(|e| e.to_string())?;
          n_locals = n_locals.checked_add(cnt).ok_or("too many locals")?;
        }
        let ops = body.get_operators_reader().map_err(|e| e.to_string())?;
        let compiled = b
          .compile(ops, n_locals, funcs[fi].n_results)
          .map_err(|e| format!("function {fi}: {e}"))?;
        let f = &mut funcs[fi];
        f.entry = compiled.entry;
        f.n_locals = n_locals;
        f.frame_size = n_locals + compiled.max_h + 2;
      }
      Payload::CustomSection(_) => {}
      Payload::End(_) => {}
      other => return Err(format!("unsupported module section: {other:?}")),
    }
  }
  if n_imports + next_body != funcs.len() {
    return Err("function and code section lengths differ".into());
  }
  let n_real = funcs.len() as u32;
  let fix = |id: u32| id - PSEUDO_BASE + n_real;
  funcs.extend(pseudo);
  for g in &mut global_inits {
    *g = fix(*g);
  }
  for t in &mut tables {
    t.init_fn = t.init_fn.map(fix);
  }
  for e in &mut elems {
    if let ElemMode::Active { offset_fn, .. } = &mut e.mode {
      *offset_fn = fix(*offset_fn);
    }
    for it in &mut e.items {
      if let ElemItem::Expr(x) = it {
        *x = fix(*x);
      }
    }
  }
  Ok(Module {
    types: b.tt.types,
    funcs,
    code: b.code,
    br_tables: b.br_tables,
    global_inits,
    tables,
    elems,
    datas,
    exports,
    start,
  })
}

// ---------------------------------------------------------------------------------------------
// machine
// ---------------------------------------------------------------------------------------------

enum Stop {
  Trap(&'static str),
  Panic(String),
  /// fuel or arena exhausted
  Budget,
  /// a problem of the tool, not of the program
  Tool(String),
}

enum Exit {
  Done,
  Host(u8),
}

#[derive(Clone, Copy)]
struct Frame {
  pc: u32,
  fp: u32,
}

struct Table {
  elems: Vec<u64>,
  maximum: Option<u64>,
}

struct Machine<'m> {
  m: &'m Module,
  stack: Vec<u64>,
  sp: usize,
  fp: usize,
  pc: usize,
  frames: Vec<Frame>,
  heap: Vec<u64>,
  heap_limit: usize,
  globals: Vec<u64>,
  tables: Vec<Table>,
  elems: Vec<Vec<u64>>,
  datas: Vec<&'m [u8]>,
  out: Vec<String>,
  fuel: u64,
  str_len: Option<u32>,
  str_get: Option<u32>,
}

#[inline(always)]
fn pk_words(st: Stor, len: usize) -> usize {
  match st {
    Stor::I8 => (len + 7) / 8,
    Stor::I16 => (len + 3) / 4,
    Stor::Word => len,
  }
}

/// `base` = index of the first payload word
#[inline(always)]
fn pk_get(heap: &[u64], base: usize, st: Stor, i: usize) -> u64 {
  match st {
    Stor::I8 => (heap[base + (i >> 3)] >> ((i & 7) * 8)) & 0xff,
    Stor::I16 => (heap[base + (i >> 2)] >> ((i & 3) * 16)) & 0xffff,
    Stor::Word => heap[base + i],
  }
}

#[inline(always)]
fn pk_set(heap: &mut [u64], base: usize, st: Stor, i: usize, v: u64) {
  match st {
    Stor::I8 => {
      let sh = (i & 7) * 8;
      let w = &mut heap[base + (i >> 3)];
      *w = (*w & !(0xffu64 << sh)) | ((v & 0xff) << sh);
    }
    Stor::I16 => {
      let sh = (i & 3) * 16;
      let w = &mut heap[base + (i >> 2)];
      *w = (*w & !(0xffffu64 << sh)) | ((v & 0xffff) << sh);
    }
    Stor::Word => heap[base + i] = v,
  }
}

#[inline]
fn alloc(heap: &mut Vec<u64>, limit: usize, ty: u32, len: u32, words: usize) -> Result<usize, Stop> {
  let o = heap.len();
  if o + 1 + words > limit {
    return Err(Stop::Budget);
  }
  heap.push(((len as u64) << 32) | ty as u64);
  heap.resize(o + 1 + words, 0);
  Ok(o)
}

fn new_array(heap: &mut Vec<u64>, limit: usize, ty: u32, st: Stor, len: u32) -> Result<usize, Stop> {
  let words = pk_words(st, len as usize);
  if words > MAX_ARRAY_WORDS {
    return Err(Stop::Trap("requested new array is too large"));
  }
  alloc(heap, limit, ty, len, words)
}

#[inline(always)]
fn obj_ref(o: usize) -> u64 {
  ((o as u64) << 2) | 2
}

const NULL_REF: &str = "null reference";
const OOB: &str = "array out of bounds";
const TABLE_OOB: &str = "out of bounds table access";

impl<'m> Machine<'m> {
  #[inline]
  fn subtype(&self, a: usize, b: usize) -> bool {
    if a == b {
      return true;
    }
    let tb = &self.m.types[b];
    let d = tb.supers.len() - 1;
    let sa = &self.m.types[a].supers;
    sa.len() > d && sa[d] == tb.canon
  }

  fn ref_matches(&self, v: u64, enc: u32) -> bool {
    if v == 0 {
      return enc & T_NULLABLE != 0;
    }
    let tag = v & 3;
    if enc & T_CONCRETE != 0 {
      let t = (enc & T_MASK) as usize;
      let vt = match tag {
        2 => (self.heap[(v >> 2) as usize] & 0xffff_ffff) as usize,
        3 => {
          let ft = self.m.funcs[(v >> 2) as usize].type_idx;
          if ft == u32::MAX {
            return false;
          }
          ft as usize
        }
        _ => return false,
      };
      self.subtype(vt, t)
    } else {
      match enc & T_MASK {
        A_ANY | A_EQ => tag == 1 || tag == 2,
        A_I31 => tag == 1,
        A_STRUCT => {
          tag == 2
            && matches!(
              self.m.types[(self.heap[(v >> 2) as usize] & 0xffff_ffff) as usize].kind,
              TyKind::Struct { .. }
            )
        }
        A_ARRAY => {
          tag == 2
            && matches!(
              self.m.types[(self.heap[(v >> 2) as usize] & 0xffff_ffff) as usize].kind,
              TyKind::Array { .. }
            )
        }
        A_FUNC => tag == 3,
        A_EXTERN => true,
        _ => false, // none, nofunc, noextern
      }
    }
  }

  fn array_kind(&self, ty: u32) -> (Stor, u32) {
    match &self.m.types[ty as usize].kind {
      TyKind::Array { elem, bytes } => (*elem, *bytes),
      _ => (Stor::Word, 0),
    }
  }

  /// Pushes a frame for `f` with `args` on top of the current stack and runs it to completion.
  fn invoke(&mut self, f: u32, args: &[u64]) -> Result<Option<u64>, Stop> {
    let m = self.m;
    let fi = &m.funcs[f as usize];
    if fi.host != 0 {
      return Err(Stop::Tool("cannot invoke a host import directly".into()));
    }
    if args.len() != fi.n_params as usize {
      return Err(Stop::Tool(format!("function {f} expects {} arguments", fi.n_params)));
    }
    if self.frames.len() >= MAX_DEPTH {
      return Err(Stop::Trap("call stack exhausted"));
    }
    let base = self.frames.len();
    self.frames.push(Frame { pc: self.pc as u32, fp: self.fp as u32 });
    let fp = self.sp;
    let need = fp + (fi.frame_size.max(fi.n_results) as usize) + 1;
    if self.stack.len() < need {
      self.stack.resize(need.max(self.stack.len() * 2), 0);
    }
    self.stack[fp..fp + args.len()].copy_from_slice(args);
    for s in &mut self.stack[fp + args.len()..fp + fi.n_locals as usize] {
      *s = 0;
    }
    self.fp = fp;
    self.sp = fp + fi.n_locals as usize;
    self.pc = fi.entry as usize;
    self.run_until(base)?;
    let nr = fi.n_results as usize;
    let r = if nr > 0 { Some(self.stack[self.sp - nr]) } else { None };
    self.sp -= nr;
    Ok(r)
  }

  fn run_until(&mut self, base: usize) -> Result<(), Stop> {
    loop {
      match self.exec(base)? {
        Exit::Done => return Ok(()),
        Exit::Host(h) => self.host_call(h)?,
      }
    }
  }

  /// loader.js: gcArrayToString — length via `__strLen`, every code via `__strGet`,
  /// then String.fromCharCode(...codes) (ToUint16 of each code).
  fn gc_array_to_string(&mut self, arr: u64) -> Result<String, Stop> {
    let (sl, sg) = match (self.str_len, self.str_get) {
      (Some(a), Some(b)) => (a, b),
      _ => return Err(Stop::Tool("module does not export __strLen/__strGet".into())),
    };
    let len = self.invoke(sl, &[arr])?.unwrap_or(0) as u32 as i32;
    let mut units: Vec<u16> = Vec::with_capacity(len.max(0) as usize);
    let mut i: i32 = 0;
    while i < len {
      let code = self.invoke(sg, &[arr, i as u32 as u64])?.unwrap_or(0) as u32 as i32;
      units.push(code as u16);
      i += 1;
    }
    Ok(String::from_utf16_lossy(&units))
  }

  fn host_call(&mut self, h: u8) -> Result<(), Stop> {
    // both imports: (param (ref eq)) (param (ref $_Str)) (result i32)
    let arr = self.stack[self.sp - 1];
    self.sp -= 2;
    let text = self.gc_array_to_string(arr)?;
    match h {
      HOST_PRINTLN => {
        self.out.push(text);
        self.stack[self.sp] = 0;
        self.sp += 1;
        Ok(())
      }
      HOST_PANIC => Err(Stop::Panic(text)),
      _ => Err(Stop::Tool("unknown host function".into())),
    }
  }

  fn instantiate(&mut self) -> Result<(), Stop> {
    let m = self.m;
    for g in &m.global_inits {
      let v = self.invoke(*g, &[])?.unwrap_or(0);
      self.globals.push(v);
    }
    for t in &m.tables {
      if t.initial as usize > MAX_TABLE {
        return Err(Stop::Tool("table too large".into()));
      }
      let init = match t.init_fn {
        None => 0,
        Some(f) => self.invoke(f, &[])?.unwrap_or(0),
      };
      self.tables.push(Table { elems: vec![init; t.initial as usize], maximum: t.maximum });
    }
    for e in &m.elems {
      let mut items = Vec::with_capacity(e.items.len());
      for it in &e.items {
        items.push(match it {
          ElemItem::Func(f) => ((*f as u64) << 2) | 3,
          ElemItem::Expr(x) => self.invoke(*x, &[])?.unwrap_or(0),
        });
      }
      self.elems.push(items);
    }
    for (i, e) in m.elems.iter().enumerate() {
      match e.mode {
        ElemMode::Passive => {}
        ElemMode::Declared => self.elems[i] = Vec::new(),
        ElemMode::Active { table, offset_fn } => {
          let off = self.invoke(offset_fn, &[])?.unwrap_or(0) as u32 as usize;
          let items = std::mem::take(&mut self.elems[i]);
          let t = self
            .tables
            .get_mut(table as usize)
            .ok_or_else(|| Stop::Tool("element segment for an unknown table".into()))?;
          if off + items.len() > t.elems.len() {
            return Err(Stop::Trap(TABLE_OOB));
          }
          t.elems[off..off + items.len()].copy_from_slice(&items);
        }
      }
    }
    if let Some(s) = m.start {
      self.invoke(s, &[])?;
    }
    Ok(())
  }
}

impl<'m> Machine<'m> {
  /// Runs from (pc, fp, sp) until the frame stack shrinks to `base` (Done) or a host import is
  /// called (Host; its arguments are on top of the stack and the state is saved in self).
  fn exec(&mut self, base: usize) -> Result<Exit, Stop> {
    let m: &'m Module = self.m;
    let code: &[Op] = &m.code;
    let mut pc = self.pc;
    let mut fp = self.fp;
    let mut sp = self.sp;
    let mut fuel = self.fuel;
    let limit = self.heap_limit;

    macro_rules! trap {
      ($s:expr) => {{
        self.fuel = fuel;
        return Err(Stop::Trap($s));
      }};
    }
    macro_rules! un32 {
      ($st:expr, $sp:expr, |$a:ident| $e:expr) => {{
        let $a = $st[$sp - 1] as u32 as i32;
        let r: i32 = $e;
        $st[$sp - 1] = r as u32 as u64;
      }};
    }
    macro_rules! bin32 {
      ($st:expr, $sp:expr, |$a:ident, $b:ident| $e:expr) => {{
        let $b = $st[$sp - 1] as u32 as i32;
        let $a = $st[$sp - 2] as u32 as i32;
        $sp -= 1;
        let r: i32 = $e;
        $st[$sp - 1] = r as u32 as u64;
      }};
    }
    macro_rules! cmp32 {
      ($st:expr, $sp:expr, |$a:ident, $b:ident| $e:expr) => {{
        let $b = $st[$sp - 1] as u32 as i32;
        let $a = $st[$sp - 2] as u32 as i32;
        $sp -= 1;
        let r: bool = $e;
        $st[$sp - 1] = r as u64;
      }};
    }
    macro_rules! un64 {
      ($st:expr, $sp:expr, |$a:ident| $e:expr) => {{
        let $a = $st[$sp - 1] as i64;
        let r: i64 = $e;
        $st[$sp - 1] = r as u64;
      }};
    }
    macro_rules! bin64 {
      ($st:expr, $sp:expr, |$a:ident, $b:ident| $e:expr) => {{
        let $b = $st[$sp - 1] as i64;
        let $a = $st[$sp - 2] as i64;
        $sp -= 1;
        let r: i64 = $e;
        $st[$sp - 1] = r as u64;
      }};
    }
    macro_rules! cmp64 {
      ($st:expr, $sp:expr, |$a:ident, $b:ident| $e:expr) => {{
        let $b = $st[$sp - 1] as i64;
        let $a = $st[$sp - 2] as i64;
        $sp -= 1;
        let r: bool = $e;
        $st[$sp - 1] = r as u64;
      }};
    }

    'run: loop {
      if fuel == 0 {
        self.fuel = 0;
        return Err(Stop::Budget);
      }
      fuel -= 1;
      let op = code[pc];
      pc += 1;
      let (callee, tail): (usize, bool) = 'call: {
        match op {
        Op::Unreachable => trap!("unreachable"),
        Op::Jump(t) => {
          pc = t as usize;
          continue 'run;
        }
        Op::JumpAdj { target, height, arity } => {
          let dst = fp + height as usize;
          let n = arity as usize;
          self.stack.copy_within(sp - n..sp, dst);
          sp = dst + n;
          pc = target as usize;
          continue 'run;
        }
        Op::JmpIfZ(t) => {
          sp -= 1;
          if self.stack[sp] as u32 == 0 {
            pc = t as usize;
          }
          continue 'run;
        }
        Op::JmpIfNz(t) => {
          sp -= 1;
          if self.stack[sp] as u32 != 0 {
            pc = t as usize;
          }
          continue 'run;
        }
        Op::JmpIfNull(t) => {
          if self.stack[sp - 1] == 0 {
            sp -= 1;
            pc = t as usize;
          }
          continue 'run;
        }
        Op::JmpIfNonNull(t) => {
          if self.stack[sp - 1] != 0 {
            pc = t as usize;
          } else {
            sp -= 1;
          }
          continue 'run;
        }
        Op::JmpIfCast { target, ty } => {
          if self.ref_matches(self.stack[sp - 1], ty) {
            pc = target as usize;
          }
          continue 'run;
        }
        Op::JmpIfNotCast { target, ty } => {
          if !self.ref_matches(self.stack[sp - 1], ty) {
            pc = target as usize;
          }
          continue 'run;
        }
        Op::BrTable { base: tb, count } => {
          sp -= 1;
          let i = self.stack[sp] as u32;
          let k = if i < count - 1 { i } else { count - 1 };
          let e = m.br_tables[(tb + k) as usize];
          let dst = fp + e.height as usize;
          let n = e.arity as usize;
          self.stack.copy_within(sp - n..sp, dst);
          sp = dst + n;
          pc = e.target as usize;
          continue 'run;
        }
        Op::Return(n) => {
          let n = n as usize;
          self.stack.copy_within(sp - n..sp, fp);
          sp = fp + n;
          let fr = self.frames.pop().expect("frame underflow");
          pc = fr.pc as usize;
          fp = fr.fp as usize;
          if self.frames.len() == base {
            self.pc = pc;
            self.fp = fp;
            self.sp = sp;
            self.fuel = fuel;
            return Ok(Exit::Done);
          }
          continue 'run;
        }
        Op::Call(f) => break 'call (f as usize, false),
        Op::RetCall(f) => break 'call (f as usize, true),
        Op::CallIndirect { ty, table } | Op::RetCallIndirect { ty, table } => {
          sp -= 1;
          let i = self.stack[sp] as u32 as usize;
          let t = &self.tables[table as usize];
          if i >= t.elems.len() {
            trap!("undefined element");
          }
          let r = t.elems[i];
          if r == 0 {
            trap!("uninitialized element");
          }
          let f = (r >> 2) as usize;
          let ft = m.funcs[f].type_idx;
          if ft != ty && (ft == u32::MAX || !self.subtype(ft as usize, ty as usize)) {
            trap!("indirect call signature mismatch");
          }
          break 'call (f, matches!(op, Op::RetCallIndirect { .. }));
        }
        Op::CallRef | Op::RetCallRef => {
          sp -= 1;
          let r = self.stack[sp];
          if r == 0 {
            trap!(NULL_REF);
          }
          break 'call ((r >> 2) as usize, matches!(op, Op::RetCallRef));
        }
        Op::Drop => {
          sp -= 1;
          continue 'run;
        }
        Op::Select => {
          let c = self.stack[sp - 1] as u32;
          let b = self.stack[sp - 2];
          sp -= 2;
          if c == 0 {
            self.stack[sp - 1] = b;
          }
          continue 'run;
        }
        Op::LocalGet(i) => {
          self.stack[sp] = self.stack[fp + i as usize];
          sp += 1;
          continue 'run;
        }
        Op::LocalSet(i) => {
          sp -= 1;
          self.stack[fp + i as usize] = self.stack[sp];
          continue 'run;
        }
        Op::LocalTee(i) => {
          self.stack[fp + i as usize] = self.stack[sp - 1];
          continue 'run;
        }
        Op::GlobalGet(i) => {
          self.stack[sp] = self.globals[i as usize];
          sp += 1;
          continue 'run;
        }
        Op::GlobalSet(i) => {
          sp -= 1;
          self.globals[i as usize] = self.stack[sp];
          continue 'run;
        }
        Op::Const(v) => {
          self.stack[sp] = v;
          sp += 1;
          continue 'run;
        }
        // ---- i32 ----
        Op::I32Eqz => {
          self.stack[sp - 1] = (self.stack[sp - 1] as u32 == 0) as u64;
          continue 'run;
        }
        Op::I32Eq => cmp32!(self.stack, sp, |a, b| a == b),
        Op::I32Ne => cmp32!(self.stack, sp, |a, b| a != b),
        Op::I32LtS => cmp32!(self.stack, sp, |a, b| a < b),
        Op::I32LtU => cmp32!(self.stack, sp, |a, b| (a as u32) < (b as u32)),
        Op::I32GtS => cmp32!(self.stack, sp, |a, b| a > b),
        Op::I32GtU => cmp32!(self.stack, sp, |a, b| (a as u32) > (b as u32)),
        Op::I32LeS => cmp32!(self.stack, sp, |a, b| a <= b),
        Op::I32LeU => cmp32!(self.stack, sp, |a, b| (a as u32) <= (b as u32)),
        Op::I32GeS => cmp32!(self.stack, sp, |a, b| a >= b),
        Op::I32GeU => cmp32!(self.stack, sp, |a, b| (a as u32) >= (b as u32)),
        Op::I32Clz => un32!(self.stack, sp, |a| a.leading_zeros() as i32),
        Op::I32Ctz => un32!(self.stack, sp, |a| a.trailing_zeros() as i32),
        Op::I32Popcnt => un32!(self.stack, sp, |a| a.count_ones() as i32),
        // 32-bit overflow is implementation-defined in samlang: remember that it happened so that
        // the verifier can exclude the run (conservative: any i32 add/sub/mul of the module counts)
        Op::I32Add => bin32!(self.stack, sp, |a, b| {
          if a.checked_add(b).is_none() {
            OVERFLOW_SEEN.store(true, std::sync::atomic::Ordering::Relaxed);
          }
          a.wrapping_add(b)
        }),
        Op::I32Sub => bin32!(self.stack, sp, |a, b| {
          if a.checked_sub(b).is_none() {
            OVERFLOW_SEEN.store(true, std::sync::atomic::Ordering::Relaxed);
          }
          a.wrapping_sub(b)
        }),
        Op::I32Mul => bin32!(self.stack, sp, |a, b| {
          if a.checked_mul(b).is_none() {
            OVERFLOW_SEEN.store(true, std::sync::atomic::Ordering::Relaxed);
          }
          a.wrapping_mul(b)
        }),
        Op::I32DivS => {
          let b = self.stack[sp - 1] as u32 as i32;
          let a = self.stack[sp - 2] as u32 as i32;
          if b == 0 {
            trap!("integer divide by zero");
          }
          if a == i32::MIN && b == -1 {
            trap!("integer overflow");
          }
          sp -= 1;
          self.stack[sp - 1] = (a / b) as u32 as u64;
        }
        Op::I32DivU => {
          let b = self.stack[sp - 1] as u32;
          let a = self.stack[sp - 2] as u32;
          if b == 0 {
            trap!("integer divide by zero");
          }
          sp -= 1;
          self.stack[sp - 1] = (a / b) as u64;
        }
        Op::I32RemS => {
          let b = self.stack[sp - 1] as u32 as i32;
          let a = self.stack[sp - 2] as u32 as i32;
          if b == 0 {
            trap!("integer divide by zero");
          }
          sp -= 1;
          self.stack[sp - 1] = a.wrapping_rem(b) as u32 as u64;
        }
        Op::I32RemU => {
          let b = self.stack[sp - 1] as u32;
          let a = self.stack[sp - 2] as u32;
          if b == 0 {
            trap!("integer divide by zero");
          }
          sp -= 1;
          self.stack[sp - 1] = (a % b) as u64;
        }
        Op::I32And => bin32!(self.stack, sp, |a, b| a & b),
        Op::I32Or => bin32!(self.stack, sp, |a, b| a | b),
        Op::I32Xor => bin32!(self.stack, sp, |a, b| a ^ b),
        Op::I32Shl => bin32!(self.stack, sp, |a, b| a.wrapping_shl(b as u32)),
        Op::I32ShrS => bin32!(self.stack, sp, |a, b| a.wrapping_shr(b as u32)),
        Op::I32ShrU => bin32!(self.stack, sp, |a, b| (a as u32).wrapping_shr(b as u32) as i32),
        Op::I32Rotl => bin32!(self.stack, sp, |a, b| (a as u32).rotate_left(b as u32 & 31) as i32),
        Op::I32Rotr => bin32!(self.stack, sp, |a, b| (a as u32).rotate_right(b as u32 & 31) as i32),
        Op::I32Extend8S => un32!(self.stack, sp, |a| a as i8 as i32),
        Op::I32Extend16S => un32!(self.stack, sp, |a| a as i16 as i32),
        Op::I32WrapI64 => {
          self.stack[sp - 1] = self.stack[sp - 1] as u32 as u64;
        }
        // ---- i64 ----
        Op::I64Eqz => {
          self.stack[sp - 1] = (self.stack[sp - 1] == 0) as u64;
        }
        Op::I64Eq => cmp64!(self.stack, sp, |a, b| a == b),
        Op::I64Ne => cmp64!(self.stack, sp, |a, b| a != b),
        Op::I64LtS => cmp64!(self.stack, sp, |a, b| a < b),
        Op::I64LtU => cmp64!(self.stack, sp, |a, b| (a as u64) < (b as u64)),
        Op::I64GtS => cmp64!(self.stack, sp, |a, b| a > b),
        Op::I64GtU => cmp64!(self.stack, sp, |a, b| (a as u64) > (b as u64)),
        Op::I64LeS => cmp64!(self.stack, sp, |a, b| a <= b),
        Op::I64LeU => cmp64!(self.stack, sp, |a, b| (a as u64) <= (b as u64)),
        Op::I64GeS => cmp64!(self.stack, sp, |a, b| a >= b),
        Op::I64GeU => cmp64!(self.stack, sp, |a, b| (a as u64) >= (b as u64)),
        Op::I64Clz => un64!(self.stack, sp, |a| a.leading_zeros() as i64),
        Op::I64Ctz => un64!(self.stack, sp, |a| a.trailing_zeros() as i64),
        Op::I64Popcnt => un64!(self.stack, sp, |a| a.count_ones() as i64),
        Op::I64Add => bin64!(self.stack, sp, |a, b| a.wrapping_add(b)),
        Op::I64Sub => bin64!(self.stack, sp, |a, b| a.wrapping_sub(b)),
        Op::I64Mul => bin64!(self.stack, sp, |a, b| a.wrapping_mul(b)),
        Op::I64DivS => {
          let b = self.stack[sp - 1] as i64;
          let a = self.stack[sp - 2] as i64;
          if b == 0 {
            trap!("integer divide by zero");
          }
          if a == i64::MIN && b == -1 {
            trap!("integer overflow");
          }
          sp -= 1;
          self.stack[sp - 1] = (a / b) as u64;
        }
        Op::I64DivU => {
          let b = self.stack[sp - 1];
          let a = self.stack[sp - 2];
          if b == 0 {
            trap!("integer divide by zero");
          }
          sp -= 1;
          self.stack[sp - 1] = a / b;
        }
        Op::I64RemS => {
          let b = self.stack[sp - 1] as i64;
          let a = self.stack[sp - 2] as i64;
          if b == 0 {
            trap!("integer divide by zero");
          }
          sp -= 1;
          self.stack[sp - 1] = a.wrapping_rem(b) as u64;
        }
        Op::I64RemU => {
          let b = self.stack[sp - 1];
          let a = self.stack[sp - 2];
          if b == 0 {
            trap!("integer divide by zero");
          }
          sp -= 1;
          self.stack[sp - 1] = a % b;
        }
        Op::I64And => bin64!(self.stack, sp, |a, b| a & b),
        Op::I64Or => bin64!(self.stack, sp, |a, b| a | b),
        Op::I64Xor => bin64!(self.stack, sp, |a, b| a ^ b),
        Op::I64Shl => bin64!(self.stack, sp, |a, b| a.wrapping_shl(b as u32)),
        Op::I64ShrS => bin64!(self.stack, sp, |a, b| a.wrapping_shr(b as u32)),
        Op::I64ShrU => bin64!(self.stack, sp, |a, b| (a as u64).wrapping_shr(b as u32) as i64),
        Op::I64Rotl => bin64!(self.stack, sp, |a, b| (a as u64).rotate_left(b as u32 & 63) as i64),
        Op::I64Rotr => bin64!(self.stack, sp, |a, b| (a as u64).rotate_right(b as u32 & 63) as i64),
        Op::I64ExtendI32S => {
          self.stack[sp - 1] = self.stack[sp - 1] as u32 as i32 as i64 as u64;
        }
        Op::I64ExtendI32U => {
          self.stack[sp - 1] = self.stack[sp - 1] as u32 as u64;
        }
        Op::I64Extend8S => un64!(self.stack, sp, |a| a as i8 as i64),
        Op::I64Extend16S => un64!(self.stack, sp, |a| a as i16 as i64),
        Op::I64Extend32S => un64!(self.stack, sp, |a| a as i32 as i64),
        // ---- references ----
        Op::RefIsNull => {
          self.stack[sp - 1] = (self.stack[sp - 1] == 0) as u64;
        }
        Op::RefAsNonNull => {
          if self.stack[sp - 1] == 0 {
            trap!(NULL_REF);
          }
        }
        Op::RefEq => {
          sp -= 1;
          self.stack[sp - 1] = (self.stack[sp - 1] == self.stack[sp]) as u64;
        }
        Op::RefTest(ty) => {
          self.stack[sp - 1] = self.ref_matches(self.stack[sp - 1], ty) as u64;
        }
        Op::RefCast(ty) => {
          if !self.ref_matches(self.stack[sp - 1], ty) {
            trap!("illegal cast");
          }
        }
        Op::RefI31 => {
          let v = self.stack[sp - 1] as u32;
          self.stack[sp - 1] = (((v & 0x7fff_ffff) as u64) << 2) | 1;
        }
        Op::I31GetS => {
          let r = self.stack[sp - 1];
          if r == 0 {
            trap!(NULL_REF);
          }
          let x = (r >> 2) as u32;
          self.stack[sp - 1] = (((x << 1) as i32) >> 1) as u32 as u64;
        }
        Op::I31GetU => {
          let r = self.stack[sp - 1];
          if r == 0 {
            trap!(NULL_REF);
          }
          self.stack[sp - 1] = ((r >> 2) as u32 & 0x7fff_ffff) as u64;
        }
        // ---- structs ----
        Op::StructNew { ty, n } => {
          let n = n as usize;
          let o = alloc(&mut self.heap, limit, ty, n as u32, n)?;
          self.heap[o + 1..o + 1 + n].copy_from_slice(&self.stack[sp - n..sp]);
          if let TyKind::Struct { packed, .. } = &m.types[ty as usize].kind {
            for (i, st) in packed {
              let mask = if *st == Stor::I8 { 0xff } else { 0xffff };
              self.heap[o + 1 + *i as usize] &= mask;
            }
          }
          sp -= n;
          self.stack[sp] = obj_ref(o);
          sp += 1;
        }
        Op::StructNewDefault { ty, n } => {
          let o = alloc(&mut self.heap, limit, ty, n, n as usize)?;
          self.stack[sp] = obj_ref(o);
          sp += 1;
        }
        Op::StructGet(f) => {
          let r = self.stack[sp - 1];
          if r == 0 {
            trap!(NULL_REF);
          }
          self.stack[sp - 1] = self.heap[(r >> 2) as usize + 1 + f as usize];
        }
        Op::StructGetS8(f) => {
          let r = self.stack[sp - 1];
          if r == 0 {
            trap!(NULL_REF);
          }
          self.stack[sp - 1] = self.heap[(r >> 2) as usize + 1 + f as usize] as i8 as i32 as u32 as u64;
        }
        Op::StructGetS16(f) => {
          let r = self.stack[sp - 1];
          if r == 0 {
            trap!(NULL_REF);
          }
          self.stack[sp - 1] = self.heap[(r >> 2) as usize + 1 + f as usize] as i16 as i32 as u32 as u64;
        }
        Op::StructSet(f) | Op::StructSet8(f) | Op::StructSet16(f) => {
          let v = self.stack[sp - 1];
          let r = self.stack[sp - 2];
          sp -= 2;
          if r == 0 {
            trap!(NULL_REF);
          }
          let v = match op {
            Op::StructSet8(_) => v & 0xff,
            Op::StructSet16(_) => v & 0xffff,
            _ => v,
          };
          self.heap[(r >> 2) as usize + 1 + f as usize] = v;
        }
        // ---- arrays ----
        Op::ArrayNew(ty) => {
          let len = self.stack[sp - 1] as u32;
          let init = self.stack[sp - 2];
          sp -= 2;
          let (st, _) = self.array_kind(ty);
          let o = new_array(&mut self.heap, limit, ty, st, len)?;
          let words = pk_words(st, len as usize);
          let w = match st {
            Stor::Word => init,
            Stor::I8 => (init & 0xff).wrapping_mul(0x0101_0101_0101_0101),
            Stor::I16 => (init & 0xffff).wrapping_mul(0x0001_0001_0001_0001),
          };
          if w != 0 {
            self.heap[o + 1..o + 1 + words].fill(w);
          }
          self.stack[sp] = obj_ref(o);
          sp += 1;
        }
        Op::ArrayNewDefault(ty) => {
          let len = self.stack[sp - 1] as u32;
          let (st, _) = self.array_kind(ty);
          let o = new_array(&mut self.heap, limit, ty, st, len)?;
          self.stack[sp - 1] = obj_ref(o);
        }
        Op::ArrayNewFixed { ty, n } => {
          let (st, _) = self.array_kind(ty);
          let o = new_array(&mut self.heap, limit, ty, st, n)?;
          let n = n as usize;
          for k in 0..n {
            pk_set(&mut self.heap, o + 1, st, k, self.stack[sp - n + k]);
          }
          sp -= n;
          self.stack[sp] = obj_ref(o);
          sp += 1;
        }
        Op::ArrayNewData { ty, data } => {
          let size = self.stack[sp - 1] as u32 as usize;
          let off = self.stack[sp - 2] as u32 as usize;
          sp -= 2;
          let (st, bytes) = self.array_kind(ty);
          let bytes = bytes as usize;
          if bytes == 0 {
            return Err(Stop::Tool("array.new_data on a non-numeric array".into()));
          }
          let d: &[u8] = self.datas[data as usize];
          if off + size * bytes > d.len() {
            trap!("data segment out of bounds");
          }
          let o = new_array(&mut self.heap, limit, ty, st, size as u32)?;
          for k in 0..size {
            let mut v = 0u64;
            for j in 0..bytes {
              v |= (d[off + k * bytes + j] as u64) << (8 * j);
            }
            pk_set(&mut self.heap, o + 1, st, k, v);
          }
          self.stack[sp] = obj_ref(o);
          sp += 1;
        }
        Op::ArrayNewElem { ty, elem } => {
          let size = self.stack[sp - 1] as u32 as usize;
          let off = self.stack[sp - 2] as u32 as usize;
          sp -= 2;
          if off + size > self.elems[elem as usize].len() {
            trap!("element segment out of bounds");
          }
          let o = new_array(&mut self.heap, limit, ty, Stor::Word, size as u32)?;
          self.heap[o + 1..o + 1 + size].copy_from_slice(&self.elems[elem as usize][off..off + size]);
          self.stack[sp] = obj_ref(o);
          sp += 1;
        }
        Op::ArrayGet | Op::ArrayGetU8 | Op::ArrayGetS8 | Op::ArrayGetU16 | Op::ArrayGetS16 => {
          let i = self.stack[sp - 1] as u32 as usize;
          let r = self.stack[sp - 2];
          sp -= 1;
          if r == 0 {
            trap!(NULL_REF);
          }
          let o = (r >> 2) as usize;
          if i >= (self.heap[o] >> 32) as usize {
            trap!(OOB);
          }
          self.stack[sp - 1] = match op {
            Op::ArrayGet => self.heap[o + 1 + i],
            Op::ArrayGetU8 => pk_get(&self.heap, o + 1, Stor::I8, i),
            Op::ArrayGetS8 => pk_get(&self.heap, o + 1, Stor::I8, i) as i8 as i32 as u32 as u64,
            Op::ArrayGetU16 => pk_get(&self.heap, o + 1, Stor::I16, i),
            _ => pk_get(&self.heap, o + 1, Stor::I16, i) as i16 as i32 as u32 as u64,
          };
        }
        Op::ArraySet | Op::ArraySet8 | Op::ArraySet16 => {
          let v = self.stack[sp - 1];
          let i = self.stack[sp - 2] as u32 as usize;
          let r = self.stack[sp - 3];
          sp -= 3;
          if r == 0 {
            trap!(NULL_REF);
          }
          let o = (r >> 2) as usize;
          if i >= (self.heap[o] >> 32) as usize {
            trap!(OOB);
          }
          match op {
            Op::ArraySet => self.heap[o + 1 + i] = v,
            Op::ArraySet8 => pk_set(&mut self.heap, o + 1, Stor::I8, i, v),
            _ => pk_set(&mut self.heap, o + 1, Stor::I16, i, v),
          }
        }
        Op::ArrayLen => {
          let r = self.stack[sp - 1];
          if r == 0 {
            trap!(NULL_REF);
          }
          self.stack[sp - 1] = self.heap[(r >> 2) as usize] >> 32;
        }
        Op::ArrayFill(st) => {
          let n = self.stack[sp - 1] as u32 as usize;
          let v = self.stack[sp - 2];
          let i = self.stack[sp - 3] as u32 as usize;
          let r = self.stack[sp - 4];
          sp -= 4;
          if r == 0 {
            trap!(NULL_REF);
          }
          let o = (r >> 2) as usize;
          if i + n > (self.heap[o] >> 32) as usize {
            trap!(OOB);
          }
          for k in i..i + n {
            pk_set(&mut self.heap, o + 1, st, k, v);
          }
        }
        Op::ArrayCopy(st) => {
          let n = self.stack[sp - 1] as u32 as usize;
          let si = self.stack[sp - 2] as u32 as usize;
          let src = self.stack[sp - 3];
          let di = self.stack[sp - 4] as u32 as usize;
          let dst = self.stack[sp - 5];
          sp -= 5;
          if src == 0 || dst == 0 {
            trap!(NULL_REF);
          }
          let so = (src >> 2) as usize;
          let d_o = (dst >> 2) as usize;
          if di + n > (self.heap[d_o] >> 32) as usize || si + n > (self.heap[so] >> 32) as usize {
            trap!(OOB);
          }
          if st == Stor::Word {
            self.heap.copy_within(so + 1 + si..so + 1 + si + n, d_o + 1 + di);
          } else if so == d_o && di > si {
            for k in (0..n).rev() {
              let v = pk_get(&self.heap, so + 1, st, si + k);
              pk_set(&mut self.heap, d_o + 1, st, di + k, v);
            }
          } else {
            for k in 0..n {
              let v = pk_get(&self.heap, so + 1, st, si + k);
              pk_set(&mut self.heap, d_o + 1, st, di + k, v);
            }
          }
        }
        Op::ArrayInitData { ty, data } => {
          let n = self.stack[sp - 1] as u32 as usize;
          let si = self.stack[sp - 2] as u32 as usize;
          let di = self.stack[sp - 3] as u32 as usize;
          let r = self.stack[sp - 4];
          sp -= 4;
          if r == 0 {
            trap!(NULL_REF);
          }
          let o = (r >> 2) as usize;
          if di + n > (self.heap[o] >> 32) as usize {
            trap!(OOB);
          }
          let (st, bytes) = self.array_kind(ty);
          let bytes = bytes as usize;
          let d: &[u8] = self.datas[data as usize];
          if bytes == 0 || si + n * bytes > d.len() {
            trap!("data segment out of bounds");
          }
          for k in 0..n {
            let mut v = 0u64;
            for j in 0..bytes {
              v |= (d[si + k * bytes + j] as u64) << (8 * j);
            }
            pk_set(&mut self.heap, o + 1, st, di + k, v);
          }
        }
        Op::ArrayInitElem(e) => {
          let n = self.stack[sp - 1] as u32 as usize;
          let si = self.stack[sp - 2] as u32 as usize;
          let di = self.stack[sp - 3] as u32 as usize;
          let r = self.stack[sp - 4];
          sp -= 4;
          if r == 0 {
            trap!(NULL_REF);
          }
          let o = (r >> 2) as usize;
          if di + n > (self.heap[o] >> 32) as usize {
            trap!(OOB);
          }
          if si + n > self.elems[e as usize].len() {
            trap!("element segment out of bounds");
          }
          self.heap[o + 1 + di..o + 1 + di + n].copy_from_slice(&self.elems[e as usize][si..si + n]);
        }
        // ---- tables ----
        Op::TableGet(t) => {
          let i = self.stack[sp - 1] as u32 as usize;
          let t = &self.tables[t as usize];
          if i >= t.elems.len() {
            trap!(TABLE_OOB);
          }
          self.stack[sp - 1] = t.elems[i];
        }
        Op::TableSet(t) => {
          let v = self.stack[sp - 1];
          let i = self.stack[sp - 2] as u32 as usize;
          sp -= 2;
          let t = &mut self.tables[t as usize];
          if i >= t.elems.len() {
            trap!(TABLE_OOB);
          }
          t.elems[i] = v;
        }
        Op::TableSize(t) => {
          self.stack[sp] = self.tables[t as usize].elems.len() as u64;
          sp += 1;
        }
        Op::TableGrow(t) => {
          let n = self.stack[sp - 1] as u32 as usize;
          let v = self.stack[sp - 2];
          sp -= 1;
          let t = &mut self.tables[t as usize];
          let old = t.elems.len();
          let max = t.maximum.map(|x| x as usize).unwrap_or(MAX_TABLE).min(MAX_TABLE);
          self.stack[sp - 1] = if old + n > max {
            u32::MAX as u64
          } else {
            t.elems.resize(old + n, v);
            old as u64
          };
        }
        Op::TableFill(t) => {
          let n = self.stack[sp - 1] as u32 as usize;
          let v = self.stack[sp - 2];
          let i = self.stack[sp - 3] as u32 as usize;
          sp -= 3;
          let t = &mut self.tables[t as usize];
          if i + n > t.elems.len() {
            trap!(TABLE_OOB);
          }
          t.elems[i..i + n].fill(v);
        }
        Op::TableCopy { dst, src } => {
          let n = self.stack[sp - 1] as u32 as usize;
          let s = self.stack[sp - 2] as u32 as usize;
          let d = self.stack[sp - 3] as u32 as usize;
          sp -= 3;
          if s + n > self.tables[src as usize].elems.len() || d + n > self.tables[dst as usize].elems.len() {
            trap!(TABLE_OOB);
          }
          if dst == src {
            self.tables[dst as usize].elems.copy_within(s..s + n, d);
          } else {
            let tmp: Vec<u64> = self.tables[src as usize].elems[s..s + n].to_vec();
            self.tables[dst as usize].elems[d..d + n].copy_from_slice(&tmp);
          }
        }
        Op::TableInit { elem, table } => {
          let n = self.stack[sp - 1] as u32 as usize;
          let s = self.stack[sp - 2] as u32 as usize;
          let d = self.stack[sp - 3] as u32 as usize;
          sp -= 3;
          if s + n > self.elems[elem as usize].len() || d + n > self.tables[table as usize].elems.len() {
            trap!(TABLE_OOB);
          }
          self.tables[table as usize].elems[d..d + n].copy_from_slice(&self.elems[elem as usize][s..s + n]);
        }
        Op::ElemDrop(e) => {
          self.elems[e as usize] = Vec::new();
        }
        Op::DataDrop(d) => {
          self.datas[d as usize] = &[];
        }
        }
        continue 'run;
      };
      // shared call sequence
      {
        let fi = &m.funcs[callee];
        if fi.host != 0 {
          if tail {
            return Err(Stop::Tool("return_call of a host import is not supported".into()));
          }
          self.pc = pc;
          self.fp = fp;
          self.sp = sp;
          self.fuel = fuel;
          return Ok(Exit::Host(fi.host));
        }
        let np = fi.n_params as usize;
        if tail {
          self.stack.copy_within(sp - np..sp, fp);
        } else {
          if self.frames.len() >= MAX_DEPTH {
            trap!("call stack exhausted");
          }
          self.frames.push(Frame { pc: pc as u32, fp: fp as u32 });
          fp = sp - np;
        }
        let need = fp + fi.frame_size as usize;
        if self.stack.len() < need {
          let n = need.max(self.stack.len() * 2);
          self.stack.resize(n, 0);
        }
        let nl = fi.n_locals as usize;
        for s in &mut self.stack[fp + np..fp + nl] {
          *s = 0;
        }
        sp = fp + nl;
        pc = fi.entry as usize;
      }
    }
  }
}

// ---------------------------------------------------------------------------------------------
// entry points
// ---------------------------------------------------------------------------------------------

fn heap_limit() -> usize {
  std::env::var("VH_WASM_HEAP_WORDS").ok().and_then(|s| s.parse().ok()).unwrap_or(DEFAULT_HEAP_WORDS)
}

fn run_module(m: &Module, main_fn: &str, fuel: u64) -> Result<Run, String> {
  let main = *m.exports.get(main_fn).ok_or_else(|| format!("missing function export {main_fn}"))?;
  let mi = m.funcs.get(main as usize).ok_or("export index out of range")?;
  if mi.host != 0 || mi.n_params != 0 {
    return Err(format!("export {main_fn} is not a zero-argument wasm function"));
  }
  let mut mach = Machine {
    m,
    stack: vec![0; 1 << 16],
    sp: 0,
    fp: 0,
    pc: 0,
    frames: Vec::with_capacity(1024),
    heap: Vec::with_capacity(1 << 16),
    heap_limit: heap_limit(),
    globals: Vec::new(),
    tables: Vec::new(),
    elems: Vec::new(),
    datas: m.datas.iter().map(|d| d.as_slice()).collect(),
    out: Vec::new(),
    fuel,
    str_len: m.exports.get("__strLen").copied(),
    str_get: m.exports.get("__strGet").copied(),
  };
  let r = match mach.instantiate() {
    Ok(()) => mach.invoke(main, &[]).map(|_| ()),
    Err(e) => Err(e),
  };
  let end = match r {
    Ok(()) => End::Return,
    Err(Stop::Trap(t)) => End::Trap { trap: t.to_string() },
    Err(Stop::Panic(msg)) => End::Panic { msg },
    Err(Stop::Budget) => End::Budget,
    Err(Stop::Tool(e)) => return Err(e),
  };
  if std::env::var("VH_WASM_TIMING").is_ok() {
    eprintln!("executed {} ops, heap {} words, stack {} slots", fuel - mach.fuel, mach.heap.len(), mach.stack.len());
  }
  Ok(Run { out: mach.out, end })
}

/// Instantiates the module and calls the exported zero-argument function `main_fn`.
/// `Err` is reserved for tool problems (invalid module, unsupported opcode, missing export).
/// Set when an i32 add/sub/mul of the last `run_wasm` call on this process overflowed
/// (reset at the start of every run; runs are sequential per process).
pub static OVERFLOW_SEEN: std::sync::atomic::AtomicBool = std::sync::atomic::AtomicBool::new(false);

pub fn run_wasm(wasm: &[u8], main_fn: &str, fuel: u64) -> Result<Run, String> {
  OVERFLOW_SEEN.store(false, std::sync::atomic::Ordering::Relaxed);
  let t0 = std::time::Instant::now();
  validate_wasm(wasm)?;
  let t1 = std::time::Instant::now();
  let module = decode(wasm)?;
  if std::env::var("VH_WASM_TIMING").is_ok() {
    eprintln!("validate {:?} decode {:?} ops {}", t1 - t0, t1.elapsed(), module.code.len());
  }
  // The interpreter keeps its own frame stack; native recursion only happens for host -> export
  // re-entry (println -> __strGet), but give it room anyway.
  std::thread::scope(|s| {
    std::thread::Builder::new()
      .name("wasm-interp".into())
      .stack_size(256 << 20)
      .spawn_scoped(s, || run_module(&module, main_fn, fuel))
      .map_err(|e| format!("cannot spawn interpreter thread: {e}"))?
      .join()
      .map_err(|_| "wasm interpreter panicked (internal error)".to_string())?
  })
}

/// `vh wasm-run --wasm FILE --main NAME [--fuel N]`: prints the Run as one JSON line.
pub fn main(args: &[String]) {
  use crate::util::{arg, arg_or};
  let (Some(path), Some(main_fn)) = (arg(args, "--wasm"), arg(args, "--main")) else {
    eprintln!("usage: vh wasm-run --wasm FILE --main NAME [--fuel N]");
    std::process::exit(2);
  };
  let fuel: u64 = arg_or(args, "--fuel", "1000000000").parse().unwrap_or_else(|_| {
    eprintln!("--fuel expects an integer");
    std::process::exit(2);
  });
  let bytes = std::fs::read(&path).unwrap_or_else(|e| {
    eprintln!("cannot read {path}: {e}");
    std::process::exit(2);
  });
  match run_wasm(&bytes, main_fn.trim(), fuel) {
    Ok(run) => println!("{}", serde_json::to_string(&run).unwrap()),
    Err(e) => {
      eprintln!("wasm-run: {e}");
      std::process::exit(1);
    }
  }
}
