//! WasmGC interpreter over wasmparser's operator stream (to be filled in).
use super::Run;

pub fn run_wasm(_wasm: &[u8], _main_fn: &str, _fuel: u64) -> Result<Run, String> {
  Err("wasm_interp not implemented".to_string())
}
