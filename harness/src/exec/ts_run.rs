//! Type-erasure of the emitted TypeScript and execution under node.
//!
//! node 20 cannot run TypeScript, so the text printed by `lir::Sources::pretty_print`
//! (crates/samlang-ast/src/lir.rs) is parsed with a strict line grammar that mirrors that printer,
//! every type position is cut out, and the remaining JavaScript is run in a fresh `vm` context.
//! Anything that is not in the grammar is an `Err`; nothing is guessed.
//!
//! Accepted grammar (`T` = type, `A` = atom, indentation is exactly two spaces per open block):
//! ```text
//! file     := (top "\n")*
//! top      := ""                                                (blank)
//!           | "type " Id " = " T ";"                            (dropped)
//!           | "const " Id " = (" [pat ": " T {", " pat ": " T}] "): " T " => " body     (prelude helper, one line)
//!           | "const " Id ": " T " = [0, " Template " as unknown as number];"           (string constant)
//!           | "function " Id "(" [Id ": " T {", " Id ": " T}] "): " T " {"  stmt*  "  return " A ";"  "}"
//!           | Id "();"                                          (call of main)
//! pat      := Id | "[" {" " | "," | Id} "]"
//! body     := any text without "`", ":", "?" outside '..' / ".." strings, in which every
//!             " as " T is dropped (e.g. `{ throw Error(v as unknown as string); };`)
//! stmt     := "let " Id " = typeof " A " === 'object';"
//!           | "let " Id " = !" A ";"
//!           | "let " Id " = Math.floor(" A " / " A ");"
//!           | "let " Id " = Number(" A " " cmp " " A ");"     cmp := < <= > >= == !=
//!           | "let " Id " = Number(" A "[1] " ("===" | "!==") " " A "[1]);"
//!           | "let " Id " = " A " " bin " " A ";"               bin := * % + - & | << >>> ^
//!           | "let " Id " = " A " as unknown as " T ";"
//!           | "let " Id " = " free ";"                          (fallback, see `free_expr`)
//!           | "let " Id ": " T ";"
//!           | "let " Id ": " T " = undefined as any;"
//!           | "let " Id ": " T " = " A ";"
//!           | "let " Id ": " T " = " A "[" digits "];"
//!           | "let " Id ": " T " = " A "(" [A {", " A}] ");"
//!           | "let " Id ": " T " = [" [A {", " A}] "];"
//!           | "var " Id ": " T ";"
//!           | A "(" [A {", " A}] ");"
//!           | Id " = " A ";"
//!           | "if (" ["!"] A ") {" stmt* ["} else {" stmt*] "}"
//!           | "while (true) {" stmt* "}"
//!           | "break;"                                          (only inside a while)
//! A        := ["-"] digits | Id
//! Id       := [A-Za-z_$][A-Za-z0-9_$]*
//! T        := prim {"[]"}
//! prim     := Id | "[" [T {", " T}] "]" | "(" [Id ": " T {", " Id ": " T}] ") => " T
//! Template := "`" { char | "\" char | "${" js-tokens "}" } "`"   (copied verbatim, may span lines)
//! ```
use super::{End, Run};
use std::io::Read;
use std::sync::atomic::{AtomicUsize, Ordering};

// ---------------------------------------------------------------------------------------------
// eraser
// ---------------------------------------------------------------------------------------------

#[derive(Clone, Copy, PartialEq, Eq, Debug)]
enum Blk {
  Fn,
  If,
  Else,
  While,
}

struct Cur<'a> {
  t: &'a str,
  b: &'a [u8],
  i: usize,
  /// byte ranges of `t` that are type syntax and get dropped
  cuts: Vec<(usize, usize)>,
}

fn is_id_start(c: u8) -> bool {
  c.is_ascii_alphabetic() || c == b'_' || c == b'$'
}

fn is_id_char(c: u8) -> bool {
  c.is_ascii_alphanumeric() || c == b'_' || c == b'$'
}

const MAX_TYPE_DEPTH: usize = 256;

impl<'a> Cur<'a> {
  fn new(t: &'a str) -> Cur<'a> {
    Cur { t, b: t.as_bytes(), i: 0, cuts: vec![] }
  }

  fn err<T>(&self, what: &str) -> Result<T, String> {
    self.err_at(self.i, what)
  }

  fn err_at<T>(&self, at: usize, what: &str) -> Result<T, String> {
    let at = at.min(self.b.len());
    let line = self.b[..at].iter().filter(|c| **c == b'\n').count() + 1;
    let ls = self.b[..at].iter().rposition(|c| *c == b'\n').map(|p| p + 1).unwrap_or(0);
    let le = self.b[at..].iter().position(|c| *c == b'\n').map(|p| p + at).unwrap_or(self.b.len());
    let mut text = String::from_utf8_lossy(&self.b[ls..le]).to_string();
    if text.len() > 160 {
      let mut cut = 160;
      while !text.is_char_boundary(cut) {
        cut -= 1;
      }
      text.truncate(cut);
      text.push_str("...");
    }
    Err(format!("line {line} col {}: {what} in `{text}`", at - ls + 1))
  }

  fn peek(&self) -> Option<u8> {
    self.b.get(self.i).copied()
  }

  fn at(&self, s: &str) -> bool {
    self.b[self.i..].starts_with(s.as_bytes())
  }

  fn eat(&mut self, s: &str) -> bool {
    if self.at(s) {
      self.i += s.len();
      true
    } else {
      false
    }
  }

  fn expect(&mut self, s: &str) -> Result<(), String> {
    if self.eat(s) {
      Ok(())
    } else {
      self.err(&format!("expected {s:?}"))
    }
  }

  fn at_eol(&self) -> bool {
    matches!(self.peek(), None | Some(b'\n'))
  }

  /// end of the current line: consumes the newline if there is one
  fn expect_eol(&mut self) -> Result<(), String> {
    match self.peek() {
      None => Ok(()),
      Some(b'\n') => {
        self.i += 1;
        Ok(())
      }
      _ => self.err("expected end of line"),
    }
  }

  fn ident(&mut self) -> Result<&'a str, String> {
    let s = self.i;
    match self.peek() {
      Some(c) if is_id_start(c) => self.i += 1,
      _ => return self.err("expected identifier"),
    }
    while matches!(self.peek(), Some(c) if is_id_char(c)) {
      self.i += 1;
    }
    Ok(&self.t[s..self.i])
  }

  fn digits(&mut self) -> Result<(), String> {
    let s = self.i;
    while matches!(self.peek(), Some(c) if c.is_ascii_digit()) {
      self.i += 1;
    }
    if s == self.i {
      return self.err("expected digits");
    }
    Ok(())
  }

  /// `A := ["-"] digits | Id`
  fn atom(&mut self) -> Result<(), String> {
    match self.peek() {
      Some(b'-') => {
        self.i += 1;
        self.digits()
      }
      Some(c) if c.is_ascii_digit() => self.digits(),
      _ => self.ident().map(|_| ()),
    }
  }

  /// `[A {", " A}]` up to (not including) `close`
  fn atom_list(&mut self, close: &str) -> Result<(), String> {
    if self.at(close) {
      return Ok(());
    }
    loop {
      self.atom()?;
      if !self.eat(", ") {
        return Ok(());
      }
    }
  }

  fn skip_type(&mut self, depth: usize) -> Result<(), String> {
    if depth > MAX_TYPE_DEPTH {
      return self.err("type nested too deeply");
    }
    if self.eat("(") {
      if !self.eat(")") {
        loop {
          self.ident()?;
          self.expect(": ")?;
          self.skip_type(depth + 1)?;
          if self.eat(", ") {
            continue;
          }
          self.expect(")")?;
          break;
        }
      }
      self.expect(" => ")?;
      // the return type extends as far as possible, so no `[]` suffix applies to the arrow itself
      return self.skip_type(depth + 1);
    }
    if self.eat("[") {
      if !self.eat("]") {
        loop {
          self.skip_type(depth + 1)?;
          if self.eat(", ") {
            continue;
          }
          self.expect("]")?;
          break;
        }
      }
    } else {
      self.ident().map_err(|_| self.err::<()>("expected a type").unwrap_err())?;
    }
    while self.eat("[]") {}
    Ok(())
  }

  /// `": " T` — dropped
  fn annotation(&mut self) -> Result<(), String> {
    let s = self.i;
    self.expect(": ")?;
    self.skip_type(0)?;
    self.cuts.push((s, self.i));
    Ok(())
  }

  /// `" as unknown as " T` — dropped
  fn cast_suffix(&mut self) -> Result<(), String> {
    let s = self.i;
    self.expect(" as unknown as ")?;
    self.skip_type(0)?;
    self.cuts.push((s, self.i));
    Ok(())
  }

  /// A template literal starting at the opening backtick; copied verbatim. Lexed the way a
  /// JavaScript scanner would (escapes, `${ }` substitutions with nested strings / templates /
  /// comments), because the printer pastes the samlang literal text between the backticks
  /// without escaping anything.
  fn template(&mut self, depth: usize) -> Result<(), String> {
    if depth > 64 {
      return self.err("template nested too deeply");
    }
    let start = self.i;
    self.expect("`")?;
    loop {
      match self.peek() {
        None => return self.err_at(start, "unterminated template literal"),
        Some(b'\\') => {
          if self.i + 1 >= self.b.len() {
            return self.err_at(start, "unterminated template literal");
          }
          self.i += 2;
        }
        Some(b'`') => {
          self.i += 1;
          return Ok(());
        }
        Some(b'$') if self.b.get(self.i + 1) == Some(&b'{') => {
          self.i += 2;
          self.substitution(depth, start)?;
        }
        Some(_) => self.i += 1,
      }
    }
  }

  /// the inside of `${ ... }` up to and including the matching `}`; copied verbatim
  fn substitution(&mut self, depth: usize, start: usize) -> Result<(), String> {
    let mut braces = 0usize;
    loop {
      match self.peek() {
        None => return self.err_at(start, "unterminated ${ in template literal"),
        Some(b'{') => {
          braces += 1;
          self.i += 1;
        }
        Some(b'}') => {
          self.i += 1;
          if braces == 0 {
            return Ok(());
          }
          braces -= 1;
        }
        Some(b'`') => self.template(depth + 1)?,
        Some(q @ (b'\'' | b'"')) => {
          let s = self.i;
          self.i += 1;
          loop {
            match self.peek() {
              None | Some(b'\n') => return self.err_at(s, "unterminated string inside ${ }"),
              Some(b'\\') => self.i += 2,
              Some(c) if c == q => {
                self.i += 1;
                break;
              }
              Some(_) => self.i += 1,
            }
          }
        }
        Some(b'/') => {
          if self.at("//") {
            while !self.at_eol() {
              self.i += 1;
            }
          } else if self.at("/*") {
            match self.t[self.i + 2..].find("*/") {
              Some(p) => self.i += 2 + p + 2,
              None => return self.err("unterminated comment inside ${ }"),
            }
          } else {
            // division or regular expression literal: cannot be told apart without a parser
            return self.err("unsupported: '/' inside ${ } of a template literal");
          }
        }
        Some(_) => self.i += 1,
      }
    }
  }

  /// Fallback for the right-hand side of an un-annotated `let x = ...;` / `x = ...;`: an expression
  /// that provably contains no TypeScript-only syntax, so nothing has to be erased (keeps the
  /// eraser usable when the printer's arithmetic forms change, e.g. `Math.trunc(a / b)`,
  /// `(a + b) | 0`). Only identifiers, integers, `'object'`, spaces and `+-*/%&|^<>=!()[],.~`;
  /// no `as`/`satisfies` word, no `<` or `>` touching an identifier (type arguments / assertions),
  /// no `//` or `/*`. Setting the environment variable `VH_TS_STRICT` disables this fallback.
  fn free_expr(&mut self) -> Result<(), String> {
    if std::env::var_os("VH_TS_STRICT").is_some() {
      return self.err("not one of the printer's expression forms (VH_TS_STRICT is set)");
    }
    let s = self.i;
    let mut parens = 0i32;
    loop {
      let Some(c) = self.peek() else { return self.err("expected ';'") };
      match c {
        b';' => break,
        b'\n' => return self.err("expected ';'"),
        b'\'' => self.expect("'object'")?,
        c if is_id_start(c) => {
          let before = self.i;
          let id = self.ident()?;
          if matches!(id, "as" | "satisfies" | "is" | "keyof" | "infer" | "function" | "new" | "class") {
            return self.err_at(before, "unsupported word in expression");
          }
          if before > s && matches!(self.b[before - 1], b'<' | b'>') {
            return self.err_at(before, "unsupported '<'/'>' next to an identifier");
          }
          if matches!(self.peek(), Some(b'<' | b'>')) {
            return self.err("unsupported '<'/'>' next to an identifier");
          }
        }
        c if c.is_ascii_digit() => self.digits()?,
        b'/' => {
          if self.at("//") || self.at("/*") {
            return self.err("unsupported comment");
          }
          self.i += 1;
        }
        b'(' | b'[' => {
          parens += 1;
          self.i += 1;
        }
        b')' | b']' => {
          parens -= 1;
          if parens < 0 {
            return self.err("unbalanced bracket");
          }
          self.i += 1;
        }
        b' ' | b'+' | b'-' | b'*' | b'%' | b'&' | b'|' | b'^' | b'<' | b'>' | b'=' | b'!' | b',' | b'.' | b'~' => {
          self.i += 1
        }
        _ => return self.err("unsupported character in expression"),
      }
    }
    if parens != 0 {
      return self.err("unbalanced bracket");
    }
    if self.i == s {
      return self.err("expected expression");
    }
    Ok(())
  }

  /// runs `f`; on failure rewinds (position and cuts) and reports the failure
  fn attempt(&mut self, f: impl FnOnce(&mut Self) -> Result<(), String>) -> Result<(), String> {
    let (i, n) = (self.i, self.cuts.len());
    let r = f(self);
    if r.is_err() {
      self.i = i;
      self.cuts.truncate(n);
    }
    r
  }

  // ------------------------------------------------------------------ top level

  fn type_line(&mut self) -> Result<(), String> {
    let s = self.i;
    self.expect("type ")?;
    self.ident()?;
    self.expect(" = ")?;
    self.skip_type(0)?;
    self.expect(";")?;
    self.cuts.push((s, self.i));
    self.expect_eol()
  }

  fn const_line(&mut self) -> Result<(), String> {
    self.expect("const ")?;
    self.ident()?;
    if self.at(": ") {
      // const GLOBAL_STRING_n: _Str = [0, `...` as unknown as number];
      self.annotation()?;
      self.expect(" = [0, ")?;
      self.template(0)?;
      let s = self.i;
      if !self.eat(" as unknown as number") {
        return self.err("expected \" as unknown as number];\" after the template literal (a backtick or ${ in the string constant changes how the line lexes)");
      }
      self.cuts.push((s, self.i));
      self.expect("];")?;
      return self.expect_eol();
    }
    // prelude helper: const f = (pats): T => body
    self.expect(" = (")?;
    if !self.eat(")") {
      loop {
        if self.eat("[") {
          loop {
            match self.peek() {
              Some(b']') => {
                self.i += 1;
                break;
              }
              Some(b' ' | b',') => self.i += 1,
              Some(c) if is_id_start(c) => {
                self.ident()?;
              }
              _ => return self.err("unsupported parameter pattern"),
            }
          }
        } else {
          self.ident()?;
        }
        self.annotation()?;
        if self.eat(", ") {
          continue;
        }
        self.expect(")")?;
        break;
      }
    }
    self.annotation()?;
    self.expect(" => ")?;
    self.helper_body()?;
    self.expect_eol()
  }

  /// body of a one-line prelude helper, up to the end of the line
  fn helper_body(&mut self) -> Result<(), String> {
    let start = self.i;
    let mut depth = 0i32;
    while let Some(c) = self.peek() {
      match c {
        b'\n' => break,
        q @ (b'\'' | b'"') => {
          let s = self.i;
          self.i += 1;
          loop {
            match self.peek() {
              None | Some(b'\n') => return self.err_at(s, "unterminated string"),
              Some(b'\\') => self.i += 2,
              Some(c) if c == q => {
                self.i += 1;
                break;
              }
              Some(_) => self.i += 1,
            }
          }
        }
        b'`' | b':' | b'?' | b'\\' | b'#' | b'@' => return self.err("unsupported character in helper body"),
        b'/' if self.at("//") || self.at("/*") => return self.err("unsupported comment in helper body"),
        b'(' | b'[' | b'{' => {
          depth += 1;
          self.i += 1;
        }
        b')' | b']' | b'}' => {
          depth -= 1;
          if depth < 0 {
            return self.err("unbalanced bracket in helper body");
          }
          self.i += 1;
        }
        c if is_id_start(c) => {
          let before = self.i;
          let id = self.ident()?;
          if id == "as" {
            // `<expr> as T`
            if before == start || self.b[before - 1] != b' ' || !self.eat(" ") {
              return self.err_at(before, "unsupported use of `as`");
            }
            self.skip_type(0)?;
            self.cuts.push((before - 1, self.i));
          } else if matches!(id, "satisfies" | "function" | "class" | "interface" | "enum" | "declare" | "type") {
            return self.err_at(before, "unsupported word in helper body");
          } else if matches!(self.peek(), Some(b'<')) || (before > start && self.b[before - 1] == b'<') {
            return self.err_at(before, "unsupported '<' next to an identifier in helper body");
          }
        }
        c if c.is_ascii_digit() => self.digits()?,
        c if c.is_ascii() => self.i += 1,
        _ => return self.err("non-ASCII character in helper body"),
      }
    }
    if depth != 0 {
      return self.err("unbalanced bracket in helper body");
    }
    if self.i == start || self.b[self.i - 1] != b';' {
      return self.err("helper must end with ';'");
    }
    Ok(())
  }

  fn function(&mut self) -> Result<(), String> {
    self.expect("function ")?;
    self.ident()?;
    self.expect("(")?;
    if !self.eat(")") {
      loop {
        self.ident()?;
        self.annotation()?;
        if self.eat(", ") {
          continue;
        }
        self.expect(")")?;
        break;
      }
    }
    self.annotation()?;
    self.expect(" {")?;
    self.expect_eol()?;
    let mut stack = vec![Blk::Fn];
    let mut returned = false;
    while !stack.is_empty() {
      if self.peek().is_none() {
        return self.err("unexpected end of text inside a function");
      }
      // closers sit one level further out
      let closing = {
        let mut j = self.i;
        while self.b.get(j) == Some(&b' ') {
          j += 1;
        }
        self.b.get(j) == Some(&b'}')
      };
      let level = if closing { stack.len() - 1 } else { stack.len() };
      for _ in 0..level {
        self.expect("  ")?;
      }
      if self.peek() == Some(b' ') {
        return self.err("unexpected indentation");
      }
      if closing {
        if self.eat("} else {") {
          if *stack.last().unwrap() != Blk::If {
            return self.err("`else` without `if`");
          }
          *stack.last_mut().unwrap() = Blk::Else;
        } else {
          self.expect("}")?;
          if stack.len() == 1 && !returned {
            return self.err("function body does not end with `return`");
          }
          stack.pop();
        }
        self.expect_eol()?;
        continue;
      }
      if returned {
        return self.err("statement after `return`");
      }
      if self.eat("return ") {
        if stack.len() != 1 {
          return self.err("`return` inside a nested block");
        }
        self.atom()?;
        self.expect(";")?;
        returned = true;
      } else if self.eat("if (") {
        self.eat("!");
        self.atom()?;
        self.expect(") {")?;
        stack.push(Blk::If);
      } else if self.eat("while (true) {") {
        stack.push(Blk::While);
      } else if self.eat("break;") {
        if !stack.contains(&Blk::While) {
          return self.err("`break` outside of a loop");
        }
      } else if self.eat("var ") {
        self.ident()?;
        self.annotation()?;
        self.expect(";")?;
      } else if self.eat("let ") {
        self.let_stmt()?;
      } else {
        // call without result, or assignment
        self.ident()?;
        if self.eat("(") {
          self.atom_list(")")?;
          self.expect(");")?;
        } else {
          self.expect(" = ")?;
          if self.attempt(|c| {
            c.atom()?;
            c.expect(";")
          })
          .is_err()
          {
            self.free_expr()?;
            self.expect(";")?;
          }
        }
      }
      self.expect_eol()?;
    }
    Ok(())
  }

  fn let_stmt(&mut self) -> Result<(), String> {
    self.ident()?;
    if self.at(": ") {
      self.annotation()?;
      if self.eat(";") {
        return Ok(());
      }
      self.expect(" = ")?;
      if self.at("undefined as any;") {
        self.i += "undefined".len();
        let s = self.i;
        self.i += " as any".len();
        self.cuts.push((s, self.i));
        return self.expect(";");
      }
      if self.eat("[") {
        self.atom_list("]")?;
        return self.expect("];");
      }
      self.atom()?;
      if self.eat("[") {
        self.digits()?;
        return self.expect("];");
      }
      if self.eat("(") {
        self.atom_list(")")?;
        return self.expect(");");
      }
      return self.expect(";");
    }
    self.expect(" = ")?;
    let strict = self.attempt(|c| {
      if c.eat("typeof ") {
        c.atom()?;
        return c.expect(" === 'object';");
      }
      if c.eat("!") {
        c.atom()?;
        return c.expect(";");
      }
      if c.eat("Math.floor(") {
        c.atom()?;
        c.expect(" / ")?;
        c.atom()?;
        return c.expect(");");
      }
      if c.eat("Number(") {
        c.atom()?;
        if c.eat("[1] ") {
          if !(c.eat("===") || c.eat("!==")) {
            return c.err("expected === or !==");
          }
          c.expect(" ")?;
          c.atom()?;
          return c.expect("[1]);");
        }
        c.expect(" ")?;
        if !["<=", ">=", "==", "!=", "<", ">"].iter().any(|op| c.eat(op)) {
          return c.err("expected a comparison operator");
        }
        c.expect(" ")?;
        c.atom()?;
        return c.expect(");");
      }
      c.atom()?;
      if c.at(" as ") {
        c.cast_suffix()?;
        return c.expect(";");
      }
      c.expect(" ")?;
      if !["<<", ">>>", "*", "%", "+", "-", "&", "|", "^"].iter().any(|op| c.eat(op)) {
        return c.err("expected a binary operator");
      }
      c.expect(" ")?;
      c.atom()?;
      c.expect(";")
    });
    match strict {
      Ok(()) => Ok(()),
      Err(first) => {
        if self.attempt(|c| {
          c.free_expr()?;
          c.expect(";")
        })
        .is_err()
        {
          return Err(first);
        }
        Ok(())
      }
    }
  }

  fn file(&mut self) -> Result<(), String> {
    while self.peek().is_some() {
      if self.at("type ") {
        self.type_line()?;
      } else if self.at("const ") {
        self.const_line()?;
      } else if self.at("function ") {
        self.function()?;
      } else if self.at_eol() {
        self.expect_eol()?;
      } else {
        // `main();`
        self.ident()?;
        self.expect("();")?;
        self.expect_eol()?;
      }
    }
    Ok(())
  }
}

/// TypeScript -> JavaScript; `Err` if the text falls outside the grammar the printer emits.
/// Line numbers are preserved (erased `type` lines become empty lines).
pub fn erase_types(ts: &str) -> Result<String, String> {
  let mut c = Cur::new(ts);
  c.file()?;
  let mut out = String::with_capacity(ts.len());
  let mut at = 0;
  for (s, e) in &c.cuts {
    debug_assert!(*s >= at && e >= s);
    out.push_str(&ts[at..*s]);
    at = *e;
  }
  out.push_str(&ts[at..]);
  Ok(out)
}

// ---------------------------------------------------------------------------------------------
// node
// ---------------------------------------------------------------------------------------------

const DRIVER: &str = include_str!("ts_driver.js");
const TMP_ROOT: &str = "/verif/out/tmp";
/// captured output above this many bytes ends the program with `End::Budget`
const MAX_OUT_BYTES: u64 = 64 << 20;

static COUNTER: AtomicUsize = AtomicUsize::new(0);

struct TmpDir(std::path::PathBuf);

impl TmpDir {
  fn new() -> Result<TmpDir, String> {
    let n = COUNTER.fetch_add(1, Ordering::SeqCst);
    let p = std::path::PathBuf::from(format!("{TMP_ROOT}/ts-{}-{n}", std::process::id()));
    std::fs::create_dir_all(&p).map_err(|e| format!("create {}: {e}", p.display()))?;
    Ok(TmpDir(p))
  }
}

impl Drop for TmpDir {
  fn drop(&mut self) {
    let _ = std::fs::remove_dir_all(&self.0);
  }
}

/// Stack of the thread the programs run on (node Worker `resourceLimits.stackSizeMb`); `VH_TS_STACK_MB=0`
/// runs them on node's main thread with its default stack (only a few thousand samlang frames).
fn stack_mb() -> u64 {
  std::env::var("VH_TS_STACK_MB").ok().and_then(|s| s.parse().ok()).unwrap_or(256)
}

/// Heap limit of that Worker (`resourceLimits.maxOldGenerationSizeMb`); exhausting it is `End::Budget`.
fn heap_mb() -> u64 {
  std::env::var("VH_TS_HEAP_MB").ok().and_then(|s| s.parse().ok()).unwrap_or(2048)
}

fn node_bin() -> String {
  std::env::var("VH_NODE").unwrap_or_else(|_| "node".to_string())
}

/// `erase_types` + `node --check` on the result (approximation of "syntactically valid TypeScript").
pub fn check_ts_syntax(ts: &str) -> Result<(), String> {
  let js = erase_types(ts).map_err(|e| format!("erase: {e}"))?;
  let dir = TmpDir::new()?;
  let file = dir.0.join("check.cjs");
  std::fs::write(&file, js).map_err(|e| format!("write {}: {e}", file.display()))?;
  let out = std::process::Command::new(node_bin())
    .arg("--check")
    .arg(&file)
    .stdin(std::process::Stdio::null())
    .output()
    .map_err(|e| format!("spawn node: {e}"))?;
  if out.status.success() {
    Ok(())
  } else {
    let err = String::from_utf8_lossy(&out.stderr);
    // keep "file:line", the offending line, the caret line and the SyntaxError line
    let brief: Vec<&str> = err.lines().filter(|l| !l.trim().is_empty()).take(4).collect();
    Err(format!("node --check: {}", brief.join(" | ").replace(&format!("{}/", dir.0.display()), "")))
  }
}

#[derive(serde::Deserialize)]
struct DriverLine {
  i: usize,
  out: Vec<String>,
  end: End,
}

/// Runs node on `driver` and returns (stdout, stderr, exit description); kills it after `deadline_ms`.
fn run_node(driver: &std::path::Path, deadline_ms: u64) -> Result<(Vec<u8>, String, String), String> {
  let mut child = std::process::Command::new(node_bin())
    .arg(driver)
    .stdin(std::process::Stdio::null())
    .stdout(std::process::Stdio::piped())
    .stderr(std::process::Stdio::piped())
    .spawn()
    .map_err(|e| format!("spawn node: {e}"))?;
  let mut so = child.stdout.take().unwrap();
  let mut se = child.stderr.take().unwrap();
  let t_out = std::thread::spawn(move || {
    let mut v = vec![];
    let _ = so.read_to_end(&mut v);
    v
  });
  let t_err = std::thread::spawn(move || {
    let mut v = vec![];
    let _ = se.read_to_end(&mut v);
    v
  });
  let start = std::time::Instant::now();
  let mut sleep_us = 200;
  let status = loop {
    match child.try_wait() {
      Ok(Some(st)) => break format!("{st}"),
      Ok(None) => {}
      Err(e) => return Err(format!("wait for node: {e}")),
    }
    if start.elapsed().as_millis() as u64 > deadline_ms {
      let _ = child.kill();
      let _ = child.wait();
      break format!("killed by the harness after {deadline_ms} ms");
    }
    std::thread::sleep(std::time::Duration::from_micros(sleep_us));
    sleep_us = (sleep_us * 2).min(5000);
  };
  let stdout = t_out.join().map_err(|_| "stdout reader panicked".to_string())?;
  let stderr = String::from_utf8_lossy(&t_err.join().map_err(|_| "stderr reader panicked".to_string())?).to_string();
  Ok((stdout, stderr, status))
}

/// Runs every program in its own fresh `vm` context inside ONE node process. A program whose text
/// cannot be erased or compiled ends with `Trap{"syntax error: ..."}`. If node itself dies while
/// running program k that program ends with `Trap{"node died: ..."}` (`Budget` if it was the heap limit)
/// and a second node process is started for the programs after k.
///
/// Limits: `timeout_ms` per program (vm watchdog; `Budget`), 64 MiB of captured output (`Budget`),
/// `VH_TS_STACK_MB` (default 256) of stack, `VH_TS_HEAP_MB` (default 2048) of heap.
pub fn run_ts_batch(programs: &[String], timeout_ms: u64) -> Result<Vec<Run>, String> {
  let mut results: Vec<Option<Run>> = vec![None; programs.len()];
  let mut erased: Vec<Option<String>> = Vec::with_capacity(programs.len());
  for (k, p) in programs.iter().enumerate() {
    match erase_types(p) {
      Ok(js) => erased.push(Some(js)),
      Err(e) => {
        results[k] = Some(Run { out: vec![], end: End::Trap { trap: format!("syntax error: erase: {e}") } });
        erased.push(None);
      }
    }
  }
  let mut first = 0usize;
  loop {
    let todo: Vec<usize> = (first..programs.len()).filter(|k| results[*k].is_none()).collect();
    if todo.is_empty() {
      break;
    }
    let dir = TmpDir::new()?;
    let driver = dir.0.join("driver.cjs");
    let batch = serde_json::json!({
      "timeoutMs": timeout_ms.clamp(1, 0x7fff_ffff),
      "maxOutBytes": MAX_OUT_BYTES,
      "stackMb": stack_mb(),
      "heapMb": heap_mb(),
      "programs": todo.iter().map(|k| serde_json::json!({"i": k, "js": erased[*k].as_ref().unwrap()})).collect::<Vec<_>>(),
    });
    // JSON is a subset of JavaScript expressions (ES2019)
    let text = format!("const BATCH = {};\n{DRIVER}", serde_json::to_string(&batch).map_err(|e| e.to_string())?);
    std::fs::write(&driver, text).map_err(|e| format!("write {}: {e}", driver.display()))?;
    let deadline = (todo.len() as u64).saturating_mul(timeout_ms.saturating_add(2000)).saturating_add(30_000);
    let (stdout, stderr, status) = run_node(&driver, deadline)?;
    drop(dir);
    let mut done = 0usize;
    for line in stdout.split(|c| *c == b'\n') {
      if line.is_empty() {
        continue;
      }
      let Ok(d) = serde_json::from_slice::<DriverLine>(line) else {
        break; // a partial line: node died while writing
      };
      if done >= todo.len() || d.i != todo[done] {
        return Err(format!("driver protocol error: unexpected result for program {}", d.i));
      }
      results[d.i] = Some(Run { out: d.out, end: d.end });
      done += 1;
    }
    if done == todo.len() {
      break;
    }
    // node died while running todo[done]
    let k = todo[done];
    let tail: String = {
      let t = stderr.trim();
      let lines: Vec<&str> = t.lines().filter(|l| !l.trim().is_empty()).collect();
      lines.iter().rev().take(3).rev().cloned().collect::<Vec<_>>().join(" | ")
    };
    let end = if status == "exit status: 71" {
      End::Budget // heap limit of the Worker reached (see ts_driver.js); output so far is lost
    } else {
      End::Trap { trap: format!("node died: {status}: {tail}") }
    };
    results[k] = Some(Run { out: vec![], end });
    first = k + 1;
  }
  Ok(results.into_iter().map(|r| r.expect("every program has a result")).collect())
}

// ---------------------------------------------------------------------------------------------
// CLI
// ---------------------------------------------------------------------------------------------

/// `vh ts-run --ts FILE [--timeout-ms N]`: prints the `Run` as one JSON line.
/// `--ts` may be repeated as a comma separated list; then one line per program is printed.
pub fn main_run(args: &[String]) {
  use crate::util::{arg, arg_or};
  let files = arg(args, "--ts").expect("--ts FILE");
  let timeout: u64 = arg_or(args, "--timeout-ms", "10000").parse().expect("--timeout-ms N");
  let programs: Vec<String> = files
    .split(',')
    .map(|f| std::fs::read_to_string(f).unwrap_or_else(|e| panic!("read {f}: {e}")))
    .collect();
  match run_ts_batch(&programs, timeout) {
    Ok(runs) => {
      for r in runs {
        println!("{}", serde_json::to_string(&r).unwrap());
      }
    }
    Err(e) => {
      eprintln!("ts-run: {e}");
      std::process::exit(1);
    }
  }
}

/// `vh ts-erase --ts FILE [--check]`: prints the JavaScript (with `--check`: only checks the syntax).
pub fn main_erase(args: &[String]) {
  use crate::util::{arg, flag};
  let file = arg(args, "--ts").expect("--ts FILE");
  let ts = std::fs::read_to_string(&file).unwrap_or_else(|e| panic!("read {file}: {e}"));
  if flag(args, "--check") {
    match check_ts_syntax(&ts) {
      Ok(()) => println!("ok"),
      Err(e) => {
        eprintln!("ts-erase: {e}");
        std::process::exit(1);
      }
    }
    return;
  }
  match erase_types(&ts) {
    Ok(js) => print!("{js}"),
    Err(e) => {
      eprintln!("ts-erase: {e}");
      std::process::exit(1);
    }
  }
}

#[cfg(test)]
mod tests {
  use super::*;

  fn wrap(stmts: &str) -> String {
    format!("function _M_Main$f(a: number, b: _Str): number {{\n{stmts}  return 0;\n}}\n")
  }

  #[test]
  fn erases_the_real_prelude() {
    let js = erase_types(&samlang_ast::lir::ts_prolog()).unwrap();
    assert!(js.starts_with("\n\n\nconst __Str$concat = ([, a], [, b]) => [1, a + b];\n"), "{js}");
    assert!(js.contains("const __Process$panic = (_, [, v]) => { throw Error(v); };\n"), "{js}");
    assert!(js.contains("const __Str$fromInt = (_, v) => [1, String(v)];\n"), "{js}");
    assert!(!js.contains(" as ") && !js.contains(": "), "{js}");
  }

  #[test]
  fn erases_every_statement_form() {
    let ts = "type i31 = number;\n\
type _M_T = [(t0: any, t1: (t0: number) => _Str) => number, any, i31, [number, _M_T][]];\n\
const GLOBAL_STRING_0: _Str = [0, `a: number as unknown as T \\` ${`x${1}`} '\"` as unknown as number];\n\
function _M_Main$f(a: number, f: (t0: any) => (t0: number) => number): _Str {\n  \
let p = typeof a === 'object';\n  \
let n = !p;\n  \
let d = Math.floor(a / -3);\n  \
let c = Number(a <= 2147483647);\n  \
let s = Number(GLOBAL_STRING_0[1] !== b[1]);\n  \
let x = a >>> 1;\n  \
let y = a + -2147483648;\n  \
let k = f as unknown as (t0: any) => number;\n  \
let i: number = a[12];\n  \
let r: _M_T = f(a, 1, GLOBAL_STRING_0);\n  \
f();\n  \
var v: (t0: any) => number;\n  \
if (p) {\n    v = 1;\n  } else {\n    v = f;\n  }\n  \
if (!n) {\n    let late: any = undefined as any;\n    late = a;\n  }\n  \
let acc: number = 0;\n  \
let out: _Str;\n  \
while (true) {\n    if (c) {\n      out = GLOBAL_STRING_0;\n      break;\n    }\n    acc = x;\n  }\n  \
let st: _M_T = [f, 0, 3, a];\n  \
let e: _M_T = [];\n  \
return out;\n}\n\n_M_Main$f();\n";
    let js = erase_types(ts).unwrap();
    let want = "\n\n\
const GLOBAL_STRING_0 = [0, `a: number as unknown as T \\` ${`x${1}`} '\"`];\n\
function _M_Main$f(a, f) {\n  \
let p = typeof a === 'object';\n  \
let n = !p;\n  \
let d = Math.floor(a / -3);\n  \
let c = Number(a <= 2147483647);\n  \
let s = Number(GLOBAL_STRING_0[1] !== b[1]);\n  \
let x = a >>> 1;\n  \
let y = a + -2147483648;\n  \
let k = f;\n  \
let i = a[12];\n  \
let r = f(a, 1, GLOBAL_STRING_0);\n  \
f();\n  \
var v;\n  \
if (p) {\n    v = 1;\n  } else {\n    v = f;\n  }\n  \
if (!n) {\n    let late = undefined;\n    late = a;\n  }\n  \
let acc = 0;\n  \
let out;\n  \
while (true) {\n    if (c) {\n      out = GLOBAL_STRING_0;\n      break;\n    }\n    acc = x;\n  }\n  \
let st = [f, 0, 3, a];\n  \
let e = [];\n  \
return out;\n}\n\n_M_Main$f();\n";
    assert_eq!(js, want);
    assert_eq!(js.lines().count(), ts.lines().count());
  }

  #[test]
  fn fallback_accepts_type_free_arithmetic_only() {
    for ok in ["  let x = Math.trunc(a / b);\n", "  let x = (a + b) | 0;\n", "  let x = Math.imul(a, b);\n", "  let x = a < b;\n"] {
      erase_types(&wrap(ok)).unwrap_or_else(|e| panic!("{ok}: {e}"));
    }
    for bad in [
      "  let x = a as number;\n",
      "  let x = <number>a;\n",
      "  let x = f<number>(a);\n",
      "  let x = a ? b : c;\n",
      "  let x = \"s\";\n",
      "  let x = `s`;\n",
      "  let x = a!;\n  let y = {};\n",
      "  let x = a // c\n;\n",
    ] {
      assert!(erase_types(&wrap(bad)).is_err(), "{bad}");
    }
  }

  #[test]
  fn rejects_what_the_printer_never_emits() {
    for bad in [
      "  let x: number | string = a;\n",
      "  let x: Array<number> = a;\n",
      "  let x: { a: number } = a;\n",
      "  let x: number = a as number;\n",
      "  let x: number = a.b;\n",
      "  let x: number = a[b];\n",
      "  let x: number = f(a + 1);\n",
      "  let x: number = f(a,b);\n",
      "  const x = a;\n",
      "  for (;;) {\n  }\n",
      "  if (a) {\n  let x = !a;\n  }\n",
      "  if (a) {\n    return 1;\n  }\n",
      "  break;\n",
      "  } else {\n",
      "  while (a) {\n  }\n",
      "  if (a == 1) {\n  }\n",
      "  x = a\n",
      "  let x = !a; let y = !a;\n",
      "\tlet x = !a;\n",
      "  let é = !a;\n",
      "  return 1;\n",
    ] {
      assert!(erase_types(&wrap(bad)).is_err(), "{bad}");
    }
    for bad in [
      "interface A {}\n",
      "type A = number | string;\n",
      "type A<T> = T;\n",
      "type A = number\n",
      "function f(a?: number): number {\n  return 0;\n}\n",
      "function f(a: number) {\n  return 0;\n}\n",
      "function f(a: number): number {\n}\n",
      "function f(a: number): number {\n  return 0;\n",
      "const f = (a: number): number => a ? 1 : 2;\n",
      "const f = (a: number): number => { let x: number = a; return x; };\n",
      "const f = (a: number): number => `x`;\n",
      "const f = <T>(a: T): T => a;\n",
      "const GLOBAL_STRING_0: _Str = [0, `a`b` as unknown as number];\n",
      "const GLOBAL_STRING_0: _Str = [0, `a${b` as unknown as number];\n",
      "const GLOBAL_STRING_0: _Str = [0, `a${1/2}` as unknown as number];\n",
      "const GLOBAL_STRING_0: _Str = [0, `a` as unknown as number]; f();\n",
      "const GLOBAL_STRING_0: _Str = [0, `a`];\n",
      "let x = 1;\n",
      "f(1);\n",
    ] {
      assert!(erase_types(bad).is_err(), "{bad}");
    }
  }

  #[test]
  fn string_constants_are_copied_verbatim() {
    let line = "const GLOBAL_STRING_7: _Str = [0, `q\"q \\\\ \\n \\\" : as unknown as number]; é 漢 😀 ${'}`'} $ { } \\${ \\`` as unknown as number];\n";
    let js = erase_types(line).unwrap();
    assert_eq!(js, line.replace(": _Str", "").replace("` as unknown as number];\n", "`];\n"));
  }
}
