//! Type-erasure of the emitted TypeScript and execution under node (to be filled in).
use super::Run;

pub fn run_ts_batch(_programs: &[String], _timeout_ms: u64) -> Result<Vec<Run>, String> {
  Err("ts_run not implemented".to_string())
}
