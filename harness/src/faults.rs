//! C06 — the fault model: single-fault mutants of accepted programs, each ill-formed by the
//! language definition (spec.md), and the front-end driver that records one Pipeline trace per mutant.
//!
//! `vh mutate --in PROGRAMS.ndjson --out MUTANTS.ndjson --seed S --per-program K [--full] [--judge RECS.ndjson]
//!            [--avoid kind:sub,...] [--only kind,...]`
//! `vh front-run --in PROGRAMS.ndjson --out RECS.ndjson`   (full programs; used by --replay)
//!
//! Every mutation is a *textual* splice at byte offsets computed from AST locations (zero-based
//! line, byte column, end exclusive).  A mutant is only emitted when the edited module re-parses
//! (no syntax error) to exactly the original tree with the intended sub-tree replaced: both trees
//! are flattened to a token sequence ("skeleton") and the mutant's skeleton must equal the original
//! skeleton with the operator's splice applied.  That makes the construction argument independent of
//! the checker *and* of the correctness of locations: whatever the locations were, the emitted text
//! parses to a tree that contains the ill-formed construct and nothing else changed.
use crate::compile::module_ref;
use crate::util::{arg, arg_or, flag, Rng};
use samlang_ast::source::{
  annotation, expr, pattern, ClassMemberDeclaration, Literal, Module, Toplevel, TypeDefinition,
};
use samlang_ast::{Location, Position};
use samlang_checker::type_::{PrimitiveTypeKind, Type};
use samlang_heap::{Heap, ModuleReference, PStr};
use serde_json::{json, Value};
use std::collections::{BTreeMap, BTreeSet, HashMap, HashSet};
use std::io::Write;
use std::sync::Arc;

type T = Arc<Type>;

/// `--arm-drop`: emit C03's arm-deletion mutants instead of C06's non-exhaustive-match faults.
static ARM_DROP: std::sync::atomic::AtomicBool = std::sync::atomic::AtomicBool::new(false);

/// The checker runs its modules on rayon worker threads: the panic message is kept in a global.
static LAST_PANIC: std::sync::Mutex<Option<String>> = std::sync::Mutex::new(None);

fn silence_panics() {
  if std::env::var("VH_LOUD").is_ok() {
    return;
  }
  std::panic::set_hook(Box::new(|info| {
    let msg = if let Some(s) = info.payload().downcast_ref::<&str>() {
      s.to_string()
    } else if let Some(s) = info.payload().downcast_ref::<String>() {
      s.clone()
    } else {
      "<non-string panic>".to_string()
    };
    let loc = info.location().map(|l| format!("{}:{}", l.file(), l.line())).unwrap_or_default();
    if let Ok(mut g) = LAST_PANIC.lock() {
      if g.is_none() {
        *g = Some(format!("{msg} @ {loc}"));
      }
    }
  }));
}

fn guarded<X>(f: impl FnOnce() -> X) -> Result<X, String> {
  if let Ok(mut g) = LAST_PANIC.lock() {
    *g = None;
  }
  match std::panic::catch_unwind(std::panic::AssertUnwindSafe(f)) {
    Ok(v) => Ok(v),
    Err(_) => Err(LAST_PANIC.lock().ok().and_then(|mut g| g.take()).unwrap_or_else(|| "<panic>".to_string())),
  }
}

// ------------------------------------------------------------------------------------------------
// skeleton: a flat, unambiguous rendering of a parsed module
// ------------------------------------------------------------------------------------------------

#[derive(Hash, PartialEq, Eq, Clone, Copy, Debug)]
struct Key(u32, u32, u32, u32, &'static str);

fn key(l: &Location, tag: &'static str) -> Key {
  Key(l.start.0, l.start.1, l.end.0, l.end.1, tag)
}

struct Skel<'a> {
  heap: &'a Heap,
  t: Vec<String>,
  idx: HashMap<Key, (usize, usize)>,
  dup: HashSet<Key>,
}

impl<'a> Skel<'a> {
  fn new(heap: &'a Heap) -> Skel<'a> {
    Skel { heap, t: vec![], idx: HashMap::new(), dup: HashSet::new() }
  }
  fn mark(&mut self, k: Key, a: usize) {
    let b = self.t.len();
    if self.idx.insert(k, (a, b)).is_some() {
      self.dup.insert(k);
    }
  }
  fn s(&self, p: PStr) -> String {
    p.as_str(self.heap).to_string()
  }
  fn p(&mut self, s: String) {
    self.t.push(s)
  }
  fn close(&mut self) {
    self.t.push(")".to_string())
  }

  fn targs(&mut self, owner: &Location, ta: &Option<annotation::TypeArguments>) {
    match ta {
      None => {
        let a = self.t.len();
        self.p("NoTargs".into());
        self.mark(key(owner, "notargs"), a);
      }
      Some(ta) => {
        let a = self.t.len();
        self.p(format!("Targs/{}(", ta.arguments.len()));
        for x in &ta.arguments {
          self.annot(x);
        }
        self.close();
        self.mark(key(&ta.location, "targs"), a);
      }
    }
  }

  fn annot_id(&mut self, id: &annotation::Id) {
    let a = self.t.len();
    self.p(format!("TId({})(", self.s(id.id.name)));
    self.targs(&id.location, &id.type_arguments);
    self.close();
    self.mark(key(&id.location, "annot"), a);
  }

  fn annot(&mut self, x: &annotation::T) {
    match x {
      annotation::T::Primitive(l, _, k) => {
        let a = self.t.len();
        self.p(format!("T({})", k.kind_str()));
        self.mark(key(l, "annot"), a);
      }
      annotation::T::Id(id) => self.annot_id(id),
      annotation::T::Generic(l, id) => {
        let a = self.t.len();
        self.p(format!("TGen({})", self.s(id.name)));
        self.mark(key(l, "annot"), a);
      }
      annotation::T::Fn(f) => {
        let a = self.t.len();
        self.p(format!("TFn/{}(", f.parameters.annotations.len()));
        for p in &f.parameters.annotations {
          self.annot(p);
        }
        self.annot(&f.return_type);
        self.close();
        self.mark(key(&f.location, "annot"), a);
      }
    }
  }

  fn opt_annot(&mut self, x: &Option<annotation::T>) {
    match x {
      None => self.p("NoAnnot".into()),
      Some(a) => self.annot(a),
    }
  }

  fn tuple_pat<X: Clone>(&mut self, tp: &pattern::TuplePattern<X>) {
    self.p(format!("PTuple/{}(", tp.elements.len()));
    for e in &tp.elements {
      self.pat(&e.pattern);
    }
    self.close();
  }

  fn pat<X: Clone>(&mut self, p: &pattern::MatchingPattern<X>) {
    match p {
      pattern::MatchingPattern::Tuple(tp) => self.tuple_pat(tp),
      pattern::MatchingPattern::Object { elements, .. } => {
        self.p(format!("PObj/{}(", elements.len()));
        for e in elements {
          self.p(format!("PField({},{})", self.s(e.field_name.name), e.shorthand));
          self.pat(&e.pattern);
        }
        self.close();
      }
      pattern::MatchingPattern::Variant(v) => {
        self.p(format!("PVariant({})(", self.s(v.tag.name)));
        match &v.data_variables {
          None => self.p("NoData".into()),
          Some(tp) => self.tuple_pat(tp),
        }
        self.close();
      }
      pattern::MatchingPattern::Id(id, _) => self.p(format!("PId({})", self.s(id.name))),
      pattern::MatchingPattern::Wildcard { .. } => self.p("PWild".into()),
      pattern::MatchingPattern::Or { patterns, .. } => {
        self.p(format!("POr/{}(", patterns.len()));
        for q in patterns {
          self.pat(q);
        }
        self.close();
      }
    }
  }

  fn block<X: Clone>(&mut self, b: &expr::Block<X>) {
    let a = self.t.len();
    self.p(format!("Block/{}(", b.statements.len()));
    for s in &b.statements {
      match s {
        expr::Statement::Declaration(d) => {
          self.p("Let(".into());
          self.pat(&d.pattern);
          self.opt_annot(&d.annotation);
          self.expr(&d.assigned_expression);
          self.close();
        }
        expr::Statement::Expression(e) => {
          self.p("Stmt(".into());
          self.expr(e);
          self.close();
        }
      }
    }
    match &b.expression {
      None => self.p("NoFinal".into()),
      Some(e) => self.expr(e),
    }
    self.close();
    self.mark(key(&b.common.loc, "expr"), a);
  }

  fn if_else<X: Clone>(&mut self, e: &expr::IfElse<X>) {
    let a = self.t.len();
    self.p("If(".into());
    match e.condition.as_ref() {
      expr::IfElseCondition::Expression(c) => self.expr(c),
      expr::IfElseCondition::Guard(p, c) => {
        self.p("Guard(".into());
        self.pat(p);
        self.expr(c);
        self.close();
      }
    }
    self.block(&e.e1);
    match e.e2.as_ref() {
      expr::IfElseOrBlock::IfElse(n) => self.if_else(n),
      expr::IfElseOrBlock::Block(b) => self.block(b),
    }
    self.close();
    self.mark(key(&e.common.loc, "expr"), a);
  }

  fn member_access<X: Clone>(
    &mut self,
    loc: &Location,
    name: PStr,
    obj: &expr::E<X>,
    ta: &Option<annotation::TypeArguments>,
  ) {
    let a = self.t.len();
    self.p(format!("Field({})(", self.s(name)));
    self.expr(obj);
    self.targs(loc, ta);
    self.close();
    self.mark(key(loc, "expr"), a);
  }

  fn expr<X: Clone>(&mut self, e: &expr::E<X>) {
    match e {
      expr::E::Literal(c, l) => {
        let a = self.t.len();
        let tok = match l {
          Literal::Bool(b) => format!("Bool({b})"),
          Literal::Int(i) => format!("Int({i})"),
          Literal::String(s) => format!("Str({})", self.s(*s)),
        };
        self.p(tok);
        self.mark(key(&c.loc, "expr"), a);
      }
      expr::E::LocalId(c, id) => {
        let a = self.t.len();
        self.p(format!("Var({})", self.s(id.name)));
        self.mark(key(&c.loc, "expr"), a);
      }
      expr::E::ClassId(c, _, id) => {
        let a = self.t.len();
        self.p(format!("Class({})", self.s(id.name)));
        self.mark(key(&c.loc, "expr"), a);
      }
      expr::E::Tuple(c, es) => {
        let a = self.t.len();
        self.p(format!("Tuple/{}(", es.expressions.len()));
        for x in &es.expressions {
          self.expr(x);
        }
        self.close();
        self.mark(key(&c.loc, "expr"), a);
      }
      expr::E::FieldAccess(f) => {
        self.member_access(&f.common.loc, f.field_name.name, &f.object, &f.explicit_type_arguments)
      }
      expr::E::MethodAccess(f) => {
        self.member_access(&f.common.loc, f.method_name.name, &f.object, &f.explicit_type_arguments)
      }
      expr::E::Unary(u) => {
        let a = self.t.len();
        self.p(format!("Un({})(", u.operator.kind_str()));
        self.expr(&u.argument);
        self.close();
        self.mark(key(&u.common.loc, "expr"), a);
      }
      expr::E::Call(c) => {
        let a = self.t.len();
        self.p(format!("Call/{}(", c.arguments.expressions.len()));
        self.expr(&c.callee);
        for x in &c.arguments.expressions {
          self.expr(x);
        }
        self.close();
        self.mark(key(&c.common.loc, "expr"), a);
      }
      expr::E::Binary(b) => {
        let a = self.t.len();
        self.p(format!("Bin({})(", b.operator.kind_str()));
        self.expr(&b.e1);
        self.expr(&b.e2);
        self.close();
        self.mark(key(&b.common.loc, "expr"), a);
      }
      expr::E::IfElse(i) => self.if_else(i),
      expr::E::Match(m) => {
        let a = self.t.len();
        self.p(format!("Match/{}(", m.cases.len()));
        self.expr(&m.matched);
        for c in &m.cases {
          let ca = self.t.len();
          self.p("Arm(".into());
          self.pat(&c.pattern);
          self.expr(&c.body);
          self.close();
          self.mark(key(&c.loc, "arm"), ca);
        }
        self.close();
        self.mark(key(&m.common.loc, "expr"), a);
      }
      expr::E::Lambda(l) => {
        let a = self.t.len();
        self.p(format!("Lam/{}(", l.parameters.parameters.len()));
        for p in &l.parameters.parameters {
          self.p(format!("P({})", self.s(p.name.name)));
          self.opt_annot(&p.annotation);
        }
        self.expr(&l.body);
        self.close();
        self.mark(key(&l.common.loc, "expr"), a);
      }
      expr::E::Block(b) => self.block(b),
    }
  }

  fn tparams(&mut self, tp: &Option<annotation::TypeParameters>) {
    match tp {
      None => self.p("NoTParams".into()),
      Some(tp) => {
        self.p(format!("TParams/{}(", tp.parameters.len()));
        for p in &tp.parameters {
          self.p(format!("TP({})", self.s(p.name.name)));
          match &p.bound {
            None => self.p("NoBound".into()),
            Some(b) => self.annot_id(b),
          }
        }
        self.close();
      }
    }
  }

  fn member_decl<X: Clone>(&mut self, d: &ClassMemberDeclaration, body: Option<&expr::E<X>>) {
    let a = self.t.len();
    self.p(format!(
      "Member({},{},{})(",
      self.s(d.name.name),
      if d.is_public { "public" } else { "private" },
      if d.is_method { "method" } else { "function" }
    ));
    self.tparams(&d.type_parameters);
    self.p(format!("Params/{}(", d.parameters.parameters.len()));
    for p in d.parameters.parameters.iter() {
      self.p(format!("P({})", self.s(p.name.name)));
      self.annot(&p.annotation);
    }
    self.close();
    self.annot(&d.return_type);
    if let Some(b) = body {
      self.expr(b);
    }
    self.close();
    self.mark(key(&d.loc, "member"), a);
  }

  fn module<X: Clone>(&mut self, m: &Module<X>) {
    for i in &m.imports {
      let a = self.t.len();
      self.p(format!(
        "Import({})/{}(",
        i.imported_module.pretty_print(self.heap),
        i.imported_members.len()
      ));
      for n in &i.imported_members {
        self.p(format!("N({})", self.s(n.name)));
      }
      self.close();
      self.mark(key(&i.loc, "import"), a);
    }
    for t in &m.toplevels {
      let a = self.t.len();
      let vis = if t.is_private() { "private" } else { "public" };
      self.p(format!(
        "{}({},{})(",
        if t.is_class() { "Class" } else { "Interface" },
        self.s(t.name().name),
        vis
      ));
      self.tparams(&t.type_parameters().cloned());
      match t.extends_or_implements_nodes() {
        None => self.p("NoImpl".into()),
        Some(n) => {
          let ia = self.t.len();
          self.p(format!("Impl/{}(", n.nodes.len()));
          for x in &n.nodes {
            self.annot_id(x);
          }
          self.close();
          self.mark(key(&n.location, "impl"), ia);
        }
      }
      match t.type_definition() {
        None => self.p("NoTypeDef".into()),
        Some(TypeDefinition::Struct { fields, .. }) => {
          self.p(format!("Struct/{}(", fields.len()));
          for f in fields {
            self.p(format!("F({},{})", self.s(f.name.name), f.is_public));
            self.annot(&f.annotation);
          }
          self.close();
        }
        Some(TypeDefinition::Enum { variants, .. }) => {
          self.p(format!("Enum/{}(", variants.len()));
          for v in variants {
            let n = v.associated_data_types.as_ref().map(|l| l.annotations.len());
            self.p(format!("V({})/{:?}(", self.s(v.name.name), n));
            for x in v.associated_data_types.iter().flat_map(|l| &l.annotations) {
              self.annot(x);
            }
            self.close();
          }
          self.close();
        }
      }
      match t {
        Toplevel::Interface(i) => {
          for d in &i.members.members {
            self.member_decl::<X>(d, None);
          }
        }
        Toplevel::Class(c) => {
          for d in &c.members.members {
            self.member_decl(&d.decl, Some(&d.body));
          }
        }
      }
      self.close();
      self.mark(key(&t.loc(), "toplevel"), a);
    }
  }
}

// ------------------------------------------------------------------------------------------------
// text positions
// ------------------------------------------------------------------------------------------------

struct Text<'a> {
  s: &'a str,
  lines: Vec<usize>,
}

impl<'a> Text<'a> {
  fn new(s: &'a str) -> Text<'a> {
    let mut lines = vec![0];
    for (i, b) in s.bytes().enumerate() {
      if b == b'\n' {
        lines.push(i + 1);
      }
    }
    Text { s, lines }
  }
  fn off(&self, p: Position) -> Option<usize> {
    let l = *self.lines.get(p.0 as usize)?;
    let o = l + p.1 as usize;
    if o <= self.s.len() && self.s.is_char_boundary(o) {
      Some(o)
    } else {
      None
    }
  }
  fn span(&self, l: &Location) -> Option<(usize, usize)> {
    let a = self.off(l.start)?;
    let b = self.off(l.end)?;
    if a <= b {
      Some((a, b))
    } else {
      None
    }
  }
  fn get(&self, l: &Location) -> Option<&'a str> {
    let (a, b) = self.span(l)?;
    Some(&self.s[a..b])
  }
}

// ------------------------------------------------------------------------------------------------
// sites
// ------------------------------------------------------------------------------------------------

#[derive(Clone, Debug)]
struct Splice {
  at: usize,
  del: usize,
  ins: Vec<String>,
}

#[derive(Clone, Debug)]
struct Site {
  kind: &'static str,
  sub: &'static str,
  /// the modules that contain the ill-formed construct
  offending: Vec<String>,
  /// the module whose text is edited
  edit: ModuleReference,
  start: usize,
  end: usize,
  replacement: String,
  /// expected change of the edited module's skeleton
  ops: Vec<Splice>,
  /// the mutant has a (lexical) syntax error by construction: validate textually only
  lexical: bool,
}

struct Program {
  heap: Heap,
  handles: HashMap<ModuleReference, String>,
  /// dotted names of the modules that may be edited (the program's own sources)
  user: BTreeSet<String>,
  parsed: HashMap<ModuleReference, Module<()>>,
  checked: HashMap<ModuleReference, Module<T>>,
}

fn load(sources: &BTreeMap<String, String>, with_std: bool) -> Result<Program, String> {
  let mut heap = Heap::new();
  let mut handles: HashMap<ModuleReference, String> =
    if with_std { samlang_parser::builtin_std_raw_sources(&mut heap) } else { HashMap::new() };
  for (name, text) in sources {
    let m = module_ref(&mut heap, name);
    handles.insert(m, text.clone());
  }
  let mut error_set = samlang_errors::ErrorSet::new();
  let mut parsed = HashMap::new();
  for (m, text) in &handles {
    parsed.insert(*m, samlang_parser::parse_source_module_from_text(text, *m, &mut heap, &mut error_set));
  }
  let checked = samlang_checker::type_check_sources(&parsed, &mut error_set).0;
  if error_set.has_errors() {
    return Err("rejected".into());
  }
  Ok(Program { heap, handles, user: sources.keys().cloned().collect(), parsed, checked })
}

type ClassTable<'a> = HashMap<(ModuleReference, PStr), &'a Toplevel<T>>;

/// (declaring module, class, member, is static function) -> modules (other than the declaring one) with a use
type Uses = HashMap<(ModuleReference, PStr, PStr, bool), BTreeSet<ModuleReference>>;

/// class -> modules in which it instantiates a bounded type parameter (explicitly or by inference)
type Insts = HashMap<(ModuleReference, PStr), BTreeSet<ModuleReference>>;

struct Collector<'a> {
  heap: &'a Heap,
  classes: &'a ClassTable<'a>,
  mref: ModuleReference,
  mname: String,
  text: Text<'a>,
  toks: &'a Vec<String>,
  idx: &'a HashMap<Key, (usize, usize)>,
  dup: &'a HashSet<Key>,
  editable: bool,
  fresh_lower: &'a str,
  fresh_upper: &'a str,
  fresh_module: &'a str,
  sites: Vec<Site>,
  uses: &'a mut Uses,
  insts: &'a mut Insts,
  /// class -> modules (other than the declaring one) in which a member of an INSTANCE of the class is used (a method
  /// call, a field read, a struct / variant pattern): uses that need no import of the class name
  leaks: &'a mut Insts,
  /// names of all methods declared by any interface of the program
  iface_method_names: &'a HashSet<PStr>,
}

fn is_int(t: &Type) -> bool {
  matches!(t, Type::Primitive(_, PrimitiveTypeKind::Int))
}

fn inhabited(t: &Type, classes: &ClassTable, heap: &Heap, visiting: &mut Vec<(ModuleReference, PStr)>) -> bool {
  match t {
    Type::Any(_, _) => false,
    Type::Primitive(_, _) | Type::Fn(_) | Type::Generic(_, _) => true,
    Type::Nominal(n) => {
      if n.module_reference == ModuleReference::ROOT {
        let s = n.id.as_str(heap);
        return s == "Str" || s == "Vec";
      }
      let k = (n.module_reference, n.id);
      if visiting.contains(&k) {
        return false;
      }
      let Some(Toplevel::Class(c)) = classes.get(&k) else { return false };
      visiting.push(k);
      let r = match &c.type_definition {
        None => false,
        Some(TypeDefinition::Struct { fields, .. }) => {
          fields.iter().all(|f| inhabited(&Type::from_annotation(&f.annotation), classes, heap, visiting))
        }
        Some(TypeDefinition::Enum { variants, .. }) => variants.iter().any(|v| {
          v.associated_data_types
            .iter()
            .flat_map(|l| &l.annotations)
            .all(|a| inhabited(&Type::from_annotation(a), classes, heap, visiting))
        }),
      };
      visiting.pop();
      r
    }
  }
}

impl<'a> Collector<'a> {
  fn range(&self, l: &Location, tag: &'static str) -> Option<(usize, usize)> {
    let k = key(l, tag);
    if self.dup.contains(&k) {
      return None;
    }
    self.idx.get(&k).copied()
  }

  fn push(
    &mut self,
    kind: &'static str,
    sub: &'static str,
    start: usize,
    end: usize,
    replacement: String,
    ops: Vec<Splice>,
  ) {
    if !self.editable {
      return;
    }
    self.sites.push(Site {
      kind,
      sub,
      offending: vec![self.mname.clone()],
      edit: self.mref,
      start,
      end,
      replacement,
      ops,
      lexical: false,
    });
  }

  fn ident_ok(&self, l: &Location, name: PStr) -> bool {
    self.text.get(l) == Some(name.as_str(self.heap))
  }

  /// declared type parameters of the member `name` of the class named by the (static or instance) type of `obj`
  fn resolve_member(&self, obj_t: &Type, name: PStr) -> Option<(ModuleReference, PStr, bool, Vec<Option<PStr>>)> {
    let Type::Nominal(n) = obj_t else { return None };
    let top = self.classes.get(&(n.module_reference, n.id))?;
    let Toplevel::Class(c) = top else { return None };
    let want_method = !n.is_class_statics;
    let mut found = None;
    for m in &c.members.members {
      if m.decl.name.name == name && m.decl.is_method == want_method {
        if found.is_some() {
          return None;
        }
        found = Some(&m.decl);
      }
    }
    if let Some(d) = found {
      let bounds = d
        .type_parameters
        .iter()
        .flat_map(|tp| &tp.parameters)
        .map(|p| p.bound.as_ref().map(|b| b.id.name))
        .collect();
      return Some((n.module_reference, n.id, !want_method, bounds));
    }
    // constructors: `init` of a struct class, the variants of an enum class: the class's own type parameters
    if n.is_class_statics {
      let is_ctor = match &c.type_definition {
        Some(TypeDefinition::Struct { .. }) => name.as_str(self.heap) == "init",
        Some(TypeDefinition::Enum { variants, .. }) => variants.iter().any(|v| v.name.name == name),
        None => false,
      };
      if is_ctor {
        let bounds = c
          .type_parameters
          .iter()
          .flat_map(|tp| &tp.parameters)
          .map(|p| p.bound.as_ref().map(|b| b.id.name))
          .collect();
        return Some((n.module_reference, n.id, true, bounds));
      }
    }
    None
  }

  /// for a call `obj.name(...)`: which declared parameters are annotated `int` (None: declaration not found)
  fn declared_int_params(&self, obj_t: &Type, name: PStr) -> Option<Vec<bool>> {
    let Type::Nominal(n) = obj_t else { return None };
    let Some(Toplevel::Class(c)) = self.classes.get(&(n.module_reference, n.id)) else { return None };
    let is_int_annot =
      |a: &annotation::T| matches!(a, annotation::T::Primitive(_, _, annotation::PrimitiveTypeKind::Int));
    let want_method = !n.is_class_statics;
    let found: Vec<_> =
      c.members.members.iter().filter(|m| m.decl.name.name == name && m.decl.is_method == want_method).collect();
    if found.len() == 1 {
      return Some(found[0].decl.parameters.parameters.iter().map(|p| is_int_annot(&p.annotation)).collect());
    }
    if !found.is_empty() || !n.is_class_statics {
      return None;
    }
    match &c.type_definition {
      Some(TypeDefinition::Struct { fields, .. }) if name.as_str(self.heap) == "init" => {
        Some(fields.iter().map(|f| is_int_annot(&f.annotation)).collect())
      }
      Some(TypeDefinition::Enum { variants, .. }) => {
        let v = variants.iter().find(|v| v.name.name == name)?;
        Some(v.associated_data_types.iter().flat_map(|l| &l.annotations).map(is_int_annot).collect())
      }
      _ => None,
    }
  }

  fn targ_sites(
    &mut self,
    ta: &annotation::TypeArguments,
    bounds: &[Option<PStr>],
    on_call: bool,
  ) {
    let k = ta.arguments.len();
    if bounds.len() != k || k == 0 {
      return;
    }
    let Some((ta_a, ta_b)) = self.range(&ta.location, "targs") else { return };
    let Some((s, e)) = self.text.span(&ta.location) else { return };
    if e - s < 2 || &self.text.s[s..s + 1] != "<" || &self.text.s[e - 1..e] != ">" {
      return;
    }
    // add one: k+1 type arguments for k type parameters
    self.push(
      "targ-count",
      if on_call { "add-call" } else { "add-annot" },
      e - 1,
      e - 1,
      ", int".into(),
      vec![
        Splice { at: ta_b - 1, del: 0, ins: vec!["T(int)".into()] },
        Splice { at: ta_a, del: 1, ins: vec![format!("Targs/{}(", k + 1)] },
      ],
    );
    // drop the last one (k >= 2, so that an explicit list of the wrong length remains)
    if k >= 2 {
      let last = ta.arguments[k - 1].location();
      let prev = ta.arguments[k - 2].location();
      if let (Some((la, lb)), Some(pe), Some(le)) =
        (self.range(&last, "annot"), self.text.off(prev.end), self.text.off(last.end))
      {
        if pe < le {
          self.push(
            "targ-count",
            if on_call { "drop-call" } else { "drop-annot" },
            pe,
            le,
            String::new(),
            vec![
              Splice { at: la, del: lb - la, ins: vec![] },
              Splice { at: ta_a, del: 1, ins: vec![format!("Targs/{}(", k - 1)] },
            ],
          );
        }
      }
    }
    // abstract type: a type argument replaced by the name of an interface of this module. An interface is not a
    // type a value can have (spec.md: type arguments are non-abstract types), whatever the parameter's bound.
    let mut ifaces: Vec<PStr> = self
      .classes
      .iter()
      .filter(|((m, _), t)| *m == self.mref && matches!(t, Toplevel::Interface(i) if i.type_parameters.is_none()))
      .map(|((_, n), _)| *n)
      .collect();
    ifaces.sort();
    if let Some(iface) = ifaces.first() {
      let name = iface.as_str(self.heap).to_string();
      for arg in &ta.arguments {
        let l = arg.location();
        if let (Some((a0, b0)), Some((s0, e0))) = (self.range(&l, "annot"), self.text.span(&l)) {
          if self.text.s[s0..e0] != name {
            self.push(
              "abstract-type",
              if on_call { "targ-call" } else { "targ-annot" },
              s0,
              e0,
              name.clone(),
              vec![Splice { at: a0, del: b0 - a0, ins: vec![format!("TId({name})("), "NoTargs".into(), ")".into()] }],
            );
          }
        }
      }
    }
    // bound violation: a type argument for a bounded parameter replaced by Str (implements nothing)
    for (i, b) in bounds.iter().enumerate() {
      let Some(b) = b else { continue };
      if b.as_str(self.heap) == "Str" {
        continue;
      }
      let l = ta.arguments[i].location();
      if let (Some((a0, b0)), Some((s0, e0))) = (self.range(&l, "annot"), self.text.span(&l)) {
        if &self.text.s[s0..e0] != "Str" {
          self.push(
            "bound-violation",
            if on_call { "targ-call" } else { "targ-annot" },
            s0,
            e0,
            "Str".into(),
            vec![Splice { at: a0, del: b0 - a0, ins: vec!["TId(Str)(".into(), "NoTargs".into(), ")".into()] }],
          );
        }
      }
    }
  }

  /// an instance of a class of another module has one of its members used here
  fn leak(&mut self, t: &Type) {
    if let Type::Nominal(n) = t {
      if !n.is_class_statics && n.module_reference != self.mref {
        self.leaks.entry((n.module_reference, n.id)).or_default().insert(self.mref);
      }
    }
  }

  /// unbound-class in a type position: the annotation node `x` (at any depth of an annotation or of a call's explicit
  /// type arguments) is replaced by a class name that occurs nowhere in the program; for `C<..>` also the head alone.
  fn unbound_type_sites(&mut self, x: &annotation::T, ctx: &'static str, depth: usize) {
    let sub = match (ctx, depth > 0) {
      ("call", false) => "targ-call",
      ("call", true) => "targ-call-nested",
      ("let", false) => "annot-let",
      ("let", true) => "annot-let-nested",
      ("lambda", false) => "annot-lambda",
      ("lambda", true) => "annot-lambda-nested",
      ("param", false) => "annot-param",
      ("param", true) => "annot-param-nested",
      ("return", false) => "annot-return",
      ("return", true) => "annot-return-nested",
      ("field", false) => "annot-field",
      ("field", true) => "annot-field-nested",
      (_, false) => "annot-variant",
      (_, true) => "annot-variant-nested",
    };
    let l = x.location();
    let fresh = self.fresh_upper.to_string();
    if let (Some((a0, b0)), Some((s, e))) = (self.range(&l, "annot"), self.text.span(&l)) {
      if s < e && self.text.s[s..e] != fresh {
        self.push(
          "unbound-class",
          sub,
          s,
          e,
          fresh.clone(),
          vec![Splice { at: a0, del: b0 - a0, ins: vec![format!("TId({fresh})("), "NoTargs".into(), ")".into()] }],
        );
      }
      if let annotation::T::Id(id) = x {
        if id.type_arguments.is_some() && self.ident_ok(&id.id.loc, id.id.name) {
          if let Some((hs, he)) = self.text.span(&id.id.loc) {
            self.push("unbound-class", sub, hs, he, fresh.clone(), vec![Splice { at: a0, del: 1, ins: vec![format!("TId({fresh})(")] }]);
          }
        }
      }
    }
  }

  fn annot(&mut self, x: &annotation::T, ctx: &'static str) {
    self.annot_rec(x, ctx, 0)
  }

  fn annot_rec(&mut self, x: &annotation::T, ctx: &'static str, depth: usize) {
    self.unbound_type_sites(x, ctx, depth);
    match x {
      annotation::T::Primitive(..) | annotation::T::Generic(..) => {}
      annotation::T::Fn(f) => {
        for p in &f.parameters.annotations {
          self.annot_rec(p, ctx, depth + 1);
        }
        self.annot_rec(&f.return_type, ctx, depth + 1);
      }
      annotation::T::Id(id) => {
        for a in id.type_arguments.iter().flat_map(|t| &t.arguments) {
          self.annot_rec(a, ctx, depth + 1);
        }
        let Some(top) = self.classes.get(&(id.module_reference, id.id.name)) else { return };
        let bounds: Vec<Option<PStr>> = top
          .type_parameters()
          .iter()
          .flat_map(|tp| &tp.parameters)
          .map(|p| p.bound.as_ref().map(|b| b.id.name))
          .collect();
        if let Some(ta) = &id.type_arguments {
          for (b, a) in bounds.iter().zip(&ta.arguments) {
            if let (Some(b), annotation::T::Id(arg)) = (b, a) {
              if *b != arg.id.name {
                self.insts.entry((arg.module_reference, arg.id.name)).or_default().insert(self.mref);
              }
            }
          }
        }
        match &id.type_arguments {
          Some(ta) => self.targ_sites(ta, &bounds, false),
          None => {
            // a type argument for a class that declares no type parameter
            if bounds.is_empty() {
              if let (Some((i, _)), Some(e)) =
                (self.range(&id.location, "notargs"), self.text.off(id.id.loc.end))
              {
                if self.ident_ok(&id.id.loc, id.id.name) {
                  self.push(
                    "targ-count",
                    "spurious-annot",
                    e,
                    e,
                    "<int>".into(),
                    vec![Splice { at: i, del: 1, ins: vec!["Targs/1(".into(), "T(int)".into(), ")".into()] }],
                  );
                }
              }
            }
          }
        }
      }
    }
  }

  /// records the classes whose definition a pattern looks into (`t`: the type of the matched value when known)
  fn pat(&mut self, p: &pattern::MatchingPattern<T>, t: Option<&T>) {
    match p {
      pattern::MatchingPattern::Tuple(tp) => {
        for e in &tp.elements {
          self.pat(&e.pattern, Some(&e.type_));
        }
      }
      pattern::MatchingPattern::Object { elements, .. } => {
        if let Some(t) = t {
          self.leak(t);
        }
        for e in elements {
          self.pat(&e.pattern, Some(&e.type_));
        }
      }
      pattern::MatchingPattern::Variant(v) => {
        self.leak(&v.type_);
        for e in v.data_variables.iter().flat_map(|d| &d.elements) {
          self.pat(&e.pattern, Some(&e.type_));
        }
      }
      pattern::MatchingPattern::Id(..) | pattern::MatchingPattern::Wildcard { .. } => {}
      pattern::MatchingPattern::Or { patterns, .. } => {
        for q in patterns {
          self.pat(q, t);
        }
      }
    }
  }

  fn block(&mut self, b: &expr::Block<T>) {
    for s in &b.statements {
      match s {
        expr::Statement::Declaration(d) => {
          self.pat(&d.pattern, Some(d.assigned_expression.type_()));
          if let Some(a) = &d.annotation {
            self.annot(a, "let");
          }
          self.expr(&d.assigned_expression);
        }
        expr::Statement::Expression(e) => self.expr(e),
      }
    }
    if let Some(e) = &b.expression {
      self.expr(e);
    }
  }

  fn if_else(&mut self, i: &expr::IfElse<T>) {
    match i.condition.as_ref() {
      expr::IfElseCondition::Expression(c) => {
        self.expr(c);
        // the condition must be bool (spec.md 6.10.1): it is replaced by an int / string literal
        let l = c.loc();
        if let (Some((a0, b0)), Some((s, en))) = (self.range(&l, "expr"), self.text.span(&l)) {
          for (sub, text, tok) in [("if-condition-int", "(7)", "Int(7)"), ("if-condition-str", "(\"s\")", "Str(s)")] {
            self.push("operand-type", sub, s, en, text.into(), vec![Splice { at: a0, del: b0 - a0, ins: vec![tok.into()] }]);
          }
        }
      }
      expr::IfElseCondition::Guard(p, c) => {
        self.pat(p, Some(c.type_()));
        self.expr(c);
        // scope escape: a name bound by the guard's pattern is in scope in the then-branch only (spec.md 6.10.2);
        // the value of the else-branch is replaced by such a name (not otherwise mentioned there)
        if let expr::IfElseOrBlock::Block(b) = i.e2.as_ref() {
          if let Some(value) = &b.expression {
            let l = value.loc();
            if let (Some((a0, b0)), Some((s, en)), Some((bs, be))) =
              (self.range(&l, "expr"), self.text.span(&l), self.text.span(&b.common.loc))
            {
              for (name, _) in p.bindings() {
                let n = name.as_str(self.heap).to_string();
                if !contains_word(&self.text.s[bs..be], &n) {
                  self.push("unbound-var", "iflet-binder-in-else", s, en, n.clone(), vec![Splice { at: a0, del: b0 - a0, ins: vec![format!("Var({n})")] }]);
                  break;
                }
              }
            }
          }
        }
      }
    }
    self.block(&i.e1);
    match i.e2.as_ref() {
      expr::IfElseOrBlock::IfElse(n) => self.if_else(n),
      expr::IfElseOrBlock::Block(b) => self.block(b),
    }
    // branch-type: the branches of an if / else-if chain must all have the same type (spec.md 6.10);
    // the value of one branch of an int-typed conditional is replaced by a string literal. The OTHER
    // branches stay int, so whichever branch fixes the type of the chain, the chain is ill-typed.
    if is_int(&i.common.type_) {
      let mut branches: Vec<&expr::Block<T>> = vec![&i.e1];
      if let expr::IfElseOrBlock::Block(b) = i.e2.as_ref() {
        branches.push(b);
      }
      for (sub, b) in [("then", branches[0])].into_iter().chain(branches.get(1).map(|b| ("else", *b))) {
        let Some(value) = &b.expression else { continue };
        if !is_int(value.type_()) {
          continue;
        }
        let l = value.loc();
        if let (Some((a0, b0)), Some((s, en))) = (self.range(&l, "expr"), self.text.span(&l)) {
          self.push(
            "operand-type",
            if sub == "then" { "branch-then" } else { "branch-else" },
            s,
            en,
            "\"s\"".into(),
            vec![Splice { at: a0, del: b0 - a0, ins: vec!["Str(s)".into()] }],
          );
        }
      }
    }
  }

  fn member_access(
    &mut self,
    loc: &Location,
    name: &samlang_ast::source::Id,
    obj: &expr::E<T>,
    ta: &Option<annotation::TypeArguments>,
    is_method_access: bool,
    inferred: &[T],
  ) {
    self.expr(obj);
    self.leak(obj.type_());
    for a in ta.iter().flat_map(|t| &t.arguments) {
      self.annot(a, "call");
    }
    let Some((a, _)) = self.range(loc, "expr") else { return };
    // unbound-member: the name is replaced by an identifier that occurs nowhere in the program
    if self.ident_ok(&name.loc, name.name) && name.name.as_str(self.heap) != self.fresh_lower {
      if let Some((s, e)) = self.text.span(&name.loc) {
        self.push(
          "unbound-member",
          if is_method_access { "method" } else { "field" },
          s,
          e,
          self.fresh_lower.to_string(),
          vec![Splice { at: a, del: 1, ins: vec![format!("Field({})(", self.fresh_lower)] }],
        );
      }
    }
    if !is_method_access {
      return;
    }
    let resolved = self.resolve_member(obj.type_(), name.name);
    if let Some((m1, c, is_static, bounds)) = &resolved {
      if *m1 != self.mref {
        self.uses.entry((*m1, *c, name.name, *is_static)).or_default().insert(self.mref);
      }
      if inferred.len() == bounds.len() {
        for (b, t) in bounds.iter().zip(inferred) {
          if let (Some(b), Type::Nominal(n)) = (b, t.as_ref()) {
            if !n.is_class_statics && *b != n.id {
              self.insts.entry((n.module_reference, n.id)).or_default().insert(self.mref);
            }
          }
        }
      }
      match ta {
        Some(ta) => self.targ_sites(ta, bounds, true),
        None => {
          if let (Some((i, _)), Some(e)) = (self.range(loc, "notargs"), self.text.off(name.loc.end)) {
            if self.ident_ok(&name.loc, name.name) {
              if bounds.is_empty() {
                self.push(
                  "targ-count",
                  "spurious-call",
                  e,
                  e,
                  "<int>".into(),
                  vec![Splice { at: i, del: 1, ins: vec!["Targs/1(".into(), "T(int)".into(), ")".into()] }],
                );
              } else if bounds.iter().any(|b| b.map(|b| b.as_str(self.heap) != "Str").unwrap_or(false)) {
                // explicit instantiation of every type parameter with Str (which implements nothing):
                // the right number of type arguments, one of them for a bounded parameter
                let k = bounds.len();
                let mut ins = vec![format!("Targs/{k}(")];
                for _ in 0..k {
                  ins.extend(["TId(Str)(".to_string(), "NoTargs".to_string(), ")".to_string()]);
                }
                ins.push(")".into());
                self.push(
                  "bound-violation",
                  "explicit-call",
                  e,
                  e,
                  format!("<{}>", vec!["Str"; k].join(", ")),
                  vec![Splice { at: i, del: 1, ins }],
                );
              }
            }
          }
        }
      }
    }
  }

  fn expr(&mut self, e: &expr::E<T>) {
    match e {
      expr::E::Literal(c, Literal::Int(v)) => {
        let Some((s, en)) = self.text.span(&c.loc) else { return };
        let lit = &self.text.s[s..en];
        if lit != v.to_string() || !self.editable {
          return;
        }
        let bytes = self.text.s.as_bytes();
        let mut p = s;
        while p > 0 && (bytes[p - 1] == b' ' || bytes[p - 1] == b'\t' || bytes[p - 1] == b'\n') {
          p -= 1;
        }
        let prev = if p > 0 { bytes[p - 1] } else { b' ' };
        let next = if en < bytes.len() { bytes[en] } else { b' ' };
        // not preceded by `-` (the lexer merges `- 2147483648` into the legal minimum), not glued to
        // an identifier or digit, not inside a comment-looking context
        if prev == b'-' || prev.is_ascii_alphanumeric() || next.is_ascii_alphanumeric() {
          return;
        }
        for (sub, rep) in [("too-large", "2147483648"), ("too-small", "-2147483649")] {
          self.sites.push(Site {
            kind: "int-range",
            sub,
            offending: vec![self.mname.clone()],
            edit: self.mref,
            start: s,
            end: en,
            replacement: rep.to_string(),
            ops: vec![],
            lexical: true,
          });
        }
      }
      expr::E::Literal(_, _) => {}
      expr::E::LocalId(c, id) => {
        if id.name.as_str(self.heap) == "this" || !self.ident_ok(&c.loc, id.name) {
          return;
        }
        if let (Some((a, b)), Some((s, en))) = (self.range(&c.loc, "expr"), self.text.span(&c.loc)) {
          if b == a + 1 {
            self.push(
              "unbound-var",
              "use",
              s,
              en,
              self.fresh_lower.to_string(),
              vec![Splice { at: a, del: 1, ins: vec![format!("Var({})", self.fresh_lower)] }],
            );
          }
        }
      }
      expr::E::ClassId(c, _, id) => {
        if !self.ident_ok(&c.loc, id.name) {
          return;
        }
        if let (Some((a, b)), Some((s, en))) = (self.range(&c.loc, "expr"), self.text.span(&c.loc)) {
          if b == a + 1 {
            self.push(
              "unbound-class",
              "expr",
              s,
              en,
              self.fresh_upper.to_string(),
              vec![Splice { at: a, del: 1, ins: vec![format!("Class({})", self.fresh_upper)] }],
            );
          }
        }
      }
      expr::E::Tuple(_, es) => {
        for x in &es.expressions {
          self.expr(x);
        }
      }
      expr::E::FieldAccess(f) => {
        self.member_access(&f.common.loc, &f.field_name, &f.object, &f.explicit_type_arguments, false, &[])
      }
      expr::E::MethodAccess(f) => {
        self.member_access(&f.common.loc, &f.method_name, &f.object, &f.explicit_type_arguments, true, &f.inferred_type_arguments)
      }
      expr::E::Unary(u) => self.expr(&u.argument),
      expr::E::Call(c) => {
        self.expr(&c.callee);
        for x in &c.arguments.expressions {
          self.expr(x);
        }
        let n = c.arguments.expressions.len();
        let arity_known = matches!(c.callee.type_().as_ref(), Type::Fn(f) if f.argument_types.len() == n);
        let Some((a, b)) = self.range(&c.common.loc, "expr") else { return };
        if !arity_known || self.toks[a] != format!("Call/{n}(") {
          return;
        }
        // an argument for a parameter declared `int` replaced by a string literal
        if let expr::E::MethodAccess(ma) = c.callee.as_ref() {
          if let Some(ints) = self.declared_int_params(ma.object.type_(), ma.method_name.name) {
            if ints.len() == n {
              for (i, arg) in c.arguments.expressions.iter().enumerate() {
                if !ints[i] || !is_int(arg.type_()) {
                  continue;
                }
                let l = arg.loc();
                if let (Some((a0, b0)), Some((s, en))) = (self.range(&l, "expr"), self.text.span(&l)) {
                  self.push(
                    "operand-type",
                    "argument",
                    s,
                    en,
                    "\"s\"".into(),
                    vec![Splice { at: a0, del: b0 - a0, ins: vec!["Str(s)".into()] }],
                  );
                }
              }
            }
          }
        }
        if let Some(e) = self.text.off(c.arguments.loc.end) {
          if e > 0 && &self.text.s[e - 1..e] == ")" {
            self.push(
              "arg-count",
              "add",
              e - 1,
              e - 1,
              if n == 0 { "0".into() } else { ", 0".into() },
              vec![
                Splice { at: b - 1, del: 0, ins: vec!["Int(0)".into()] },
                Splice { at: a, del: 1, ins: vec![format!("Call/{}(", n + 1)] },
              ],
            );
          }
        }
        if n >= 1 {
          let last = c.arguments.expressions[n - 1].loc();
          let from = if n >= 2 {
            self.text.off(c.arguments.expressions[n - 2].loc().end)
          } else {
            self.text.off(last.start)
          };
          if let (Some((la, lb)), Some(from), Some(to)) = (self.range(&last, "expr"), from, self.text.off(last.end)) {
            if from < to {
              self.push(
                "arg-count",
                "drop",
                from,
                to,
                String::new(),
                vec![
                  Splice { at: la, del: lb - la, ins: vec![] },
                  Splice { at: a, del: 1, ins: vec![format!("Call/{}(", n - 1)] },
                ],
              );
            }
          }
        }
      }
      expr::E::Binary(b) => {
        self.expr(&b.e1);
        self.expr(&b.e2);
        use expr::BinaryOperator::*;
        if matches!(b.operator, MUL | DIV | MOD | PLUS | MINUS | LT | LE | GT | GE) {
          for (sub, operand) in [("left", &b.e1), ("right", &b.e2)] {
            if !is_int(operand.type_()) {
              continue;
            }
            let l = operand.loc();
            if let (Some((a0, b0)), Some((s, en))) = (self.range(&l, "expr"), self.text.span(&l)) {
              self.push(
                "operand-type",
                sub,
                s,
                en,
                "\"s\"".into(),
                vec![Splice { at: a0, del: b0 - a0, ins: vec!["Str(s)".into()] }],
              );
            }
          }
        }
      }
      expr::E::IfElse(i) => self.if_else(i),
      expr::E::Match(m) => {
        self.expr(&m.matched);
        for c in &m.cases {
          self.pat(&c.pattern, Some(m.matched.type_()));
          self.expr(&c.body);
        }
        self.match_sites(m);
      }
      expr::E::Lambda(l) => {
        for p in &l.parameters.parameters {
          if let Some(a) = &p.annotation {
            self.annot(a, "lambda");
          }
        }
        self.expr(&l.body);
      }
      expr::E::Block(b) => self.block(b),
    }
  }

  fn match_sites(&mut self, m: &expr::Match<T>) {
    let n = m.cases.len();
    if n < 2 {
      return;
    }
    let Some((ma, _)) = self.range(&m.common.loc, "expr") else { return };
    if self.toks[ma] != format!("Match/{n}(") {
      return;
    }
    // scope escape: a name bound by one arm's pattern is the body of the next arm (which does not mention it)
    for i in 0..n {
      let j = (i + 1) % n;
      let body = &m.cases[j].body;
      let l = body.loc();
      if let (Some((a0, b0)), Some((s, en)), Some((cs, ce))) =
        (self.range(&l, "expr"), self.text.span(&l), self.text.span(&m.cases[j].loc))
      {
        for (name, _) in m.cases[i].pattern.bindings() {
          let nm = name.as_str(self.heap).to_string();
          if !contains_word(&self.text.s[cs..ce], &nm) {
            self.push("unbound-var", "arm-binder-in-other-arm", s, en, nm.clone(), vec![Splice { at: a0, del: b0 - a0, ins: vec![format!("Var({nm})")] }]);
            break;
          }
        }
      }
    }
    // C03's operator (not a fault by construction, never part of C06's fault model): any one arm of
    // any match is deleted; the checker either rejects the mutant or the remaining arms must cover
    // every value that reaches the match at run time.
    if ARM_DROP.load(std::sync::atomic::Ordering::Relaxed) {
      for i in 0..n {
        let c = &m.cases[i];
        let (from, to) = if i + 1 < n {
          (self.text.off(c.loc.start), self.text.off(m.cases[i + 1].loc.start))
        } else {
          (self.text.off(m.cases[i - 1].loc.end), self.text.off(c.loc.end))
        };
        if let (Some((ca, cb)), Some(from), Some(to)) = (self.range(&c.loc, "arm"), from, to) {
          if from < to {
            self.push(
              "arm-drop",
              if i + 1 < n { "arm" } else { "last-arm" },
              from,
              to,
              String::new(),
              vec![
                Splice { at: ca, del: cb - ca, ins: vec![] },
                Splice { at: ma, del: 1, ins: vec![format!("Match/{}(", n - 1)] },
              ],
            );
          }
        }
      }
      return;
    }
    // arm-type: the arms of a match must all have the same type (spec.md 6.11); the value of ONE arm of an
    // int-typed match is replaced by a string literal. The other arms stay int, so whichever of them (or the
    // expected type of the context) fixes the type of the match, the match is ill-typed.
    if is_int(&m.common.type_) {
      for (i, c) in m.cases.iter().enumerate() {
        if !is_int(c.body.type_()) {
          continue;
        }
        let l = c.body.loc();
        if let (Some((a0, b0)), Some((s, en))) = (self.range(&l, "expr"), self.text.span(&l)) {
          let sub = if i == 0 { "arm-first" } else if i + 1 == n { "arm-last" } else { "arm-middle" };
          self.push("operand-type", sub, s, en, "\"s\"".into(), vec![Splice { at: a0, del: b0 - a0, ins: vec!["Str(s)".into()] }]);
        }
      }
    }
    // a discriminating column: the root, a field of a struct pattern or a position of a tuple pattern at which
    // EVERY arm has a plain variant pattern, with pairwise distinct tags. Deleting the arm with tag V then leaves
    // every value whose column holds V (the other columns arbitrary) without a matching arm.
    #[derive(PartialEq, Eq, Hash, Clone)]
    enum Col {
      Root,
      Field(PStr),
      Pos(usize),
    }
    fn columns<'p>(p: &'p pattern::MatchingPattern<T>, root_t: &T) -> Vec<(Col, &'p pattern::VariantPattern<T>, T)> {
      match p {
        pattern::MatchingPattern::Variant(v) => vec![(Col::Root, v, root_t.clone())],
        pattern::MatchingPattern::Object { elements, .. } => elements
          .iter()
          .filter_map(|e| match e.pattern.as_ref() {
            pattern::MatchingPattern::Variant(v) => Some((Col::Field(e.field_name.name), v, e.type_.clone())),
            _ => None,
          })
          .collect(),
        pattern::MatchingPattern::Tuple(tp) => tp
          .elements
          .iter()
          .enumerate()
          .filter_map(|(i, e)| match e.pattern.as_ref() {
            pattern::MatchingPattern::Variant(v) => Some((Col::Pos(i), v, e.type_.clone())),
            _ => None,
          })
          .collect(),
        _ => vec![],
      }
    }
    let root_t = m.matched.type_().clone();
    let per_arm: Vec<Vec<(Col, &pattern::VariantPattern<T>, T)>> = m.cases.iter().map(|c| columns(&c.pattern, &root_t)).collect();
    let Some(first) = per_arm.first() else { return };
    let mut chosen: Option<(Col, Vec<&pattern::VariantPattern<T>>, T)> = None;
    for (col, _, ct) in first {
      let vs: Vec<&pattern::VariantPattern<T>> =
        per_arm.iter().filter_map(|cs| cs.iter().find(|(c, _, _)| c == col).map(|(_, v, _)| *v)).collect();
      if vs.len() != n {
        continue;
      }
      let mut tags = HashSet::new();
      if vs.iter().all(|v| tags.insert(v.tag.name)) {
        chosen = Some((col.clone(), vs, ct.clone()));
        break;
      }
    }
    let Some((col, vs, col_t)) = chosen else { return };
    // the column holds a value of an enum class that declares all these tags
    let Type::Nominal(nt) = col_t.as_ref() else { return };
    let Some(Toplevel::Class(cls)) = self.classes.get(&(nt.module_reference, nt.id)) else { return };
    let Some(TypeDefinition::Enum { variants, .. }) = &cls.type_definition else { return };
    if !vs.iter().all(|v| variants.iter().any(|d| d.name.name == v.tag.name)) {
      return;
    }
    // the other columns must have values too
    if col != Col::Root && !inhabited(&root_t, self.classes, self.heap, &mut vec![]) {
      return;
    }
    for i in 0..n {
      let c = &m.cases[i];
      let v = vs[i];
      // the deleted variant has a value (its payload types are inhabited)
      let ok = v.data_variables.iter().flat_map(|d| &d.elements).all(|e| {
        let mut visiting = vec![(nt.module_reference, nt.id)];
        // a recursive payload (the enum itself) is inhabited iff some other variant is: approximated
        // by requiring every payload type to be inhabited without going through this enum again,
        // except for direct self-reference which is fine when a payload-free variant exists
        let direct_self = matches!(e.type_.as_ref(), Type::Nominal(x) if x.module_reference == nt.module_reference && x.id == nt.id);
        if direct_self {
          variants.iter().any(|v| v.associated_data_types.as_ref().map(|l| l.annotations.is_empty()).unwrap_or(true))
        } else {
          inhabited(&e.type_, self.classes, self.heap, &mut visiting)
        }
      });
      if !ok {
        continue;
      }
      let (from, to) = if i + 1 < n {
        (self.text.off(c.loc.start), self.text.off(m.cases[i + 1].loc.start))
      } else {
        (self.text.off(m.cases[i - 1].loc.end), self.text.off(c.loc.end))
      };
      if let (Some((ca, cb)), Some(from), Some(to)) = (self.range(&c.loc, "arm"), from, to) {
        if from < to {
          self.push(
            "match-nonexhaustive",
            match (&col, i + 1 < n) {
              (Col::Root, true) => "arm",
              (Col::Root, false) => "last-arm",
              (_, true) => "column-arm",
              (_, false) => "column-last-arm",
            },
            from,
            to,
            String::new(),
            vec![
              Splice { at: ca, del: cb - ca, ins: vec![] },
              Splice { at: ma, del: 1, ins: vec![format!("Match/{}(", n - 1)] },
            ],
          );
        }
      }
    }
  }

  fn member_decl(&mut self, d: &ClassMemberDeclaration) {
    for p in d.parameters.parameters.iter() {
      self.annot(&p.annotation, "param");
    }
    self.annot(&d.return_type, "return");
  }

  /// names of the methods required by the interfaces `nodes` (transitively)
  fn required_methods(&self, nodes: &[annotation::Id], out: &mut HashSet<PStr>, depth: usize) {
    if depth > 8 {
      return;
    }
    for n in nodes {
      if let Some(Toplevel::Interface(i)) = self.classes.get(&(n.module_reference, n.id.name)) {
        for m in &i.members.members {
          if m.is_method {
            out.insert(m.name.name);
          }
        }
        if let Some(e) = &i.extends_or_implements_nodes {
          self.required_methods(&e.nodes, out, depth + 1);
        }
      }
    }
  }

  fn module(&mut self, m: &Module<T>) {
    // unbound-module
    for i in &m.imports {
      if let (Some((a, _)), Some((s, e))) = (self.range(&i.loc, "import"), self.text.span(&i.imported_module_loc)) {
        if self.text.s[s..e] == i.imported_module.pretty_print(self.heap) {
          self.push(
            "unbound-module",
            "import",
            s,
            e,
            self.fresh_module.to_string(),
            vec![Splice {
              at: a,
              del: 1,
              ins: vec![format!("Import({})/{}(", self.fresh_module, i.imported_members.len())],
            }],
          );
        }
      }
    }
    for t in &m.toplevels {
      match t {
        Toplevel::Interface(i) => {
          for d in &i.members.members {
            self.member_decl(d);
          }
        }
        Toplevel::Class(c) => {
          if let Some(TypeDefinition::Struct { fields, .. }) = &c.type_definition {
            for f in fields {
              self.annot(&f.annotation, "field");
            }
          }
          if let Some(TypeDefinition::Enum { variants, .. }) = &c.type_definition {
            for a in variants.iter().flat_map(|v| v.associated_data_types.iter().flat_map(|l| &l.annotations)) {
              self.annot(a, "variant");
            }
          }
          let mut required = HashSet::new();
          if let Some(n) = &c.extends_or_implements_nodes {
            self.required_methods(&n.nodes, &mut required, 0);
          }
          for d in &c.members.members {
            self.member_decl(&d.decl);
            self.expr(&d.body);
            // iface-missing
            let name = d.decl.name.name;
            let unique = c.members.members.iter().filter(|x| x.decl.name.name == name).count() == 1;
            if d.decl.is_method && required.contains(&name) && unique {
              if let Some((ma, mb)) = self.range(&d.decl.loc, "member") {
                let body_end = d.body.loc().end;
                let end_pos = if body_end > d.decl.loc.end { body_end } else { d.decl.loc.end };
                if let (Some(s), Some(e)) = (self.text.off(d.decl.loc.start), self.text.off(end_pos)) {
                  if s < e && self.text.s[s..].starts_with("method") {
                    self.push(
                      "iface-missing",
                      "delete-method",
                      s,
                      e,
                      String::new(),
                      vec![Splice { at: ma, del: mb - ma, ins: vec![] }],
                    );
                  }
                }
                let rl = d.decl.return_type.location();
                if let (Some((ra, rb)), Some((s, e))) = (self.range(&rl, "annot"), self.text.span(&rl)) {
                  let is_int_annot =
                    matches!(&d.decl.return_type, annotation::T::Primitive(_, _, annotation::PrimitiveTypeKind::Int));
                  let (rep, tok) = if is_int_annot { ("bool", "T(bool)") } else { ("int", "T(int)") };
                  self.push(
                    "iface-missing",
                    "retype-method",
                    s,
                    e,
                    rep.into(),
                    vec![Splice { at: ra, del: rb - ra, ins: vec![tok.into()] }],
                  );
                }
              }
            }
          }
        }
      }
    }
  }
}

/// private-member / private-class sites need the uses of the whole program
fn visibility_sites(prog: &Program, skels: &HashMap<ModuleReference, (Vec<String>, HashMap<Key, (usize, usize)>, HashSet<Key>)>,
                    uses: &Uses, insts: &Insts, leaks: &Insts, iface_method_names: &HashSet<PStr>, sites: &mut Vec<Site>) {
  let heap = &prog.heap;
  for (m1, module) in &prog.checked {
    let m1name = m1.pretty_print(heap);
    if !prog.user.contains(&m1name) {
      continue;
    }
    let text = Text::new(&prog.handles[m1]);
    let (_, idx, dup) = &skels[m1];
    for t in &module.toplevels {
      // private class: some other module imports it
      let mut importers = BTreeSet::new();
      for (m2, other) in &prog.checked {
        if m2 == m1 {
          continue;
        }
        for i in &other.imports {
          if i.imported_module == *m1 && i.imported_members.iter().any(|n| n.name == t.name().name) {
            importers.insert(m2.pretty_print(heap));
          }
        }
      }
      let tk = key(&t.loc(), "toplevel");
      // a class no other module imports, but whose instances reach other modules (through public functions, fields,
      // closures of this module) and have a method called / a field read / their shape matched there: once the class
      // is private every such use is a use of a private class from another module (spec.md 3.4)
      let leaked_to: BTreeSet<String> = if importers.is_empty() {
        leaks.get(&(*m1, t.name().name)).map(|ms| ms.iter().filter(|m| *m != m1).map(|m| m.pretty_print(heap)).collect()).unwrap_or_default()
      } else {
        BTreeSet::new()
      };
      let (class_sub, importers) = if importers.is_empty() { ("class-leaked", leaked_to) } else { ("class", importers) };
      if !t.is_private() && !importers.is_empty() && !dup.contains(&tk) {
        if let (Some((a, _)), Some(s)) = (idx.get(&tk), text.off(t.loc().start)) {
          let kw = if t.is_class() { "class" } else { "interface" };
          if text.s[s..].starts_with(kw) {
            let head = format!("{}({},private)(", if t.is_class() { "Class" } else { "Interface" }, t.name().name.as_str(heap));
            sites.push(Site {
              kind: "private-member",
              sub: class_sub,
              offending: importers.iter().cloned().collect(),
              edit: *m1,
              start: s,
              end: s,
              replacement: "private ".into(),
              ops: vec![Splice { at: *a, del: 1, ins: vec![head] }],
              lexical: false,
            });
          }
        }
      }
      let Toplevel::Class(c) = t else { continue };
      // bound-violation by un-implementing: the class keeps its methods but no longer declares any supertype,
      // so every instantiation of a bounded type parameter with it violates the bound
      if let (Some(nodes), Some(users)) = (&c.extends_or_implements_nodes, insts.get(&(*m1, c.name.name))) {
        let ik = key(&nodes.location, "impl");
        if let (false, Some((ia, ib)), Some(mut s0), Some(last)) =
          (dup.contains(&ik), idx.get(&ik), text.off(nodes.location.start), nodes.nodes.last())
        {
          let bytes = text.s.as_bytes();
          if bytes.get(s0) != Some(&b':') {
            // the colon precedes the first interface name
            let mut p = s0;
            while p > 0 && (bytes[p - 1] == b' ' || bytes[p - 1] == b'\n' || bytes[p - 1] == b'\t') {
              p -= 1;
            }
            if p > 0 && bytes[p - 1] == b':' {
              s0 = p - 1;
            }
          }
          if let Some(e0) = text.off(last.location.end) {
            if bytes.get(s0) == Some(&b':') && s0 < e0 && !users.is_empty() {
              sites.push(Site {
                kind: "bound-violation",
                sub: "unimplement",
                offending: users.iter().map(|m| m.pretty_print(heap)).collect(),
                edit: *m1,
                start: s0,
                end: e0,
                replacement: String::new(),
                ops: vec![Splice { at: *ia, del: ib - ia, ins: vec!["NoImpl".into()] }],
                lexical: false,
              });
            }
          }
        }
      }
      let implements = c.extends_or_implements_nodes.is_some();
      for d in &c.members.members {
        let decl = &d.decl;
        if !decl.is_public {
          continue;
        }
        if decl.is_method && implements && iface_method_names.contains(&decl.name.name) {
          continue; // making an interface-required method private is a second, different fault
        }
        let Some(users) = uses.get(&(*m1, c.name.name, decl.name.name, !decl.is_method)) else { continue };
        let mk = key(&decl.loc, "member");
        if dup.contains(&mk) {
          continue;
        }
        if let (Some((a, _)), Some(s)) = (idx.get(&mk), text.off(decl.loc.start)) {
          let kw = if decl.is_method { "method" } else { "function" };
          if text.s[s..].starts_with(kw) {
            let head = format!("Member({},private,{})(", decl.name.name.as_str(heap), kw);
            sites.push(Site {
              kind: "private-member",
              sub: if decl.is_method { "method" } else { "function" },
              offending: users.iter().map(|m| m.pretty_print(heap)).collect(),
              edit: *m1,
              start: s,
              end: s,
              replacement: "private ".into(),
              ops: vec![Splice { at: *a, del: 1, ins: vec![head] }],
              lexical: false,
            });
          }
        }
      }
    }
  }
}

/// `word` occurs in `text` as a whole identifier
fn contains_word(text: &str, word: &str) -> bool {
  let b = text.as_bytes();
  let mut from = 0;
  while let Some(k) = text[from..].find(word) {
    let s = from + k;
    let e = s + word.len();
    let left = s == 0 || !(b[s - 1].is_ascii_alphanumeric() || b[s - 1] == b'_');
    let right = e >= b.len() || !(b[e].is_ascii_alphanumeric() || b[e] == b'_');
    if left && right {
      return true;
    }
    from = e;
  }
  false
}

fn fresh_names(prog: &Program) -> (String, String, String) {
  let occurs = |s: &str| prog.handles.values().any(|t| t.contains(s));
  let mut lower = "zq".to_string();
  let mut k = 0u32;
  while occurs(&lower) || occurs(&format!("Z{}", &lower[1..])) {
    lower.push((b'a' + (k % 26) as u8) as char);
    k += 7;
  }
  let upper = format!("Z{}", &lower[1..]);
  let module = format!("{lower}pkg.{upper}mod");
  (format!("{lower}v"), format!("{upper}C"), module)
}

fn apply_ops(toks: &[String], ops: &[Splice]) -> Vec<String> {
  let mut ops: Vec<&Splice> = ops.iter().collect();
  ops.sort_by(|x, y| y.at.cmp(&x.at));
  let mut out = toks.to_vec();
  for o in ops {
    out.splice(o.at..o.at + o.del, o.ins.iter().cloned());
  }
  out
}

struct Census {
  sites: BTreeMap<String, usize>,
  invalid: BTreeMap<String, usize>,
  emitted: BTreeMap<String, usize>,
}

/// all sites of one accepted program
fn collect_sites(prog: &Program) -> (Vec<Site>, HashMap<ModuleReference, (Vec<String>, HashMap<Key, (usize, usize)>, HashSet<Key>)>) {
  let heap = &prog.heap;
  let mut skels = HashMap::new();
  for (m, p) in &prog.parsed {
    let mut sk = Skel::new(heap);
    sk.module(p);
    skels.insert(*m, (sk.t, sk.idx, sk.dup));
  }
  let mut classes: ClassTable = HashMap::new();
  let mut iface_method_names = HashSet::new();
  for (m, module) in &prog.checked {
    for t in &module.toplevels {
      classes.insert((*m, t.name().name), t);
      if let Toplevel::Interface(i) = t {
        for d in &i.members.members {
          iface_method_names.insert(d.name.name);
        }
      }
    }
  }
  let (fl, fu, fm) = fresh_names(prog);
  let mut uses: Uses = HashMap::new();
  let mut insts: Insts = HashMap::new();
  let mut leaks: Insts = HashMap::new();
  let mut sites = vec![];
  let mut order: Vec<&ModuleReference> = prog.checked.keys().collect();
  order.sort_by_key(|m| m.pretty_print(heap));
  for m in order {
    let module = &prog.checked[m];
    let mname = m.pretty_print(heap);
    let (toks, idx, dup) = &skels[m];
    let mut c = Collector {
      heap,
      classes: &classes,
      mref: *m,
      editable: prog.user.contains(&mname),
      mname,
      text: Text::new(&prog.handles[m]),
      toks,
      idx,
      dup,
      fresh_lower: &fl,
      fresh_upper: &fu,
      fresh_module: &fm,
      sites: vec![],
      uses: &mut uses,
      insts: &mut insts,
      leaks: &mut leaks,
      iface_method_names: &iface_method_names,
    };
    c.module(module);
    sites.append(&mut c.sites);
  }
  visibility_sites(prog, &skels, &uses, &insts, &leaks, &iface_method_names, &mut sites);
  (sites, skels)
}

fn line_col(text: &str, off: usize) -> (usize, usize) {
  let before = &text[..off];
  let line = before.bytes().filter(|b| *b == b'\n').count();
  let col = off - before.rfind('\n').map(|p| p + 1).unwrap_or(0);
  (line + 1, col + 1)
}

/// Applies the site's edit; returns the new text of the edited module when the mutant is exactly the intended one.
fn realise(prog: &mut Program, site: &Site, orig_toks: &[String]) -> Option<String> {
  let text = &prog.handles[&site.edit];
  if site.start > site.end || site.end > text.len() || !text.is_char_boundary(site.start) || !text.is_char_boundary(site.end) {
    return None;
  }
  let mutated = format!("{}{}{}", &text[..site.start], site.replacement, &text[site.end..]);
  if mutated == *text {
    return None;
  }
  // differs from the original in exactly the intended span
  assert!(mutated.as_bytes()[..site.start] == text.as_bytes()[..site.start]);
  assert!(mutated.as_bytes()[site.start + site.replacement.len()..] == text.as_bytes()[site.end..]);
  if site.lexical {
    return Some(mutated);
  }
  let mut errs = samlang_errors::ErrorSet::new();
  let reparsed = guarded(|| samlang_parser::parse_source_module_from_text(&mutated, site.edit, &mut prog.heap, &mut errs)).ok()?;
  if errs.has_errors() {
    return None;
  }
  let mut sk = Skel::new(&prog.heap);
  sk.module(&reparsed);
  if sk.t == apply_ops(orig_toks, &site.ops) {
    Some(mutated)
  } else {
    None
  }
}

// ------------------------------------------------------------------------------------------------
// the front end, observed
// ------------------------------------------------------------------------------------------------

/// One Pipeline trace: what the parser reported, what the checker reported, whether the compiler
/// (the public `samlang_compiler::compile_sources`, which is what the CLI calls) produced artefacts.
pub fn observe(sources: &BTreeMap<String, String>, entry: &str, with_std: bool) -> Value {
  let mut heap = Heap::new();
  let mut handles: HashMap<ModuleReference, String> =
    if with_std { samlang_parser::builtin_std_raw_sources(&mut heap) } else { HashMap::new() };
  for (name, text) in sources {
    let m = module_ref(&mut heap, name);
    handles.insert(m, text.clone());
  }
  let entry_ref = module_ref(&mut heap, entry);
  let mut rec = json!({});
  let mut error_set = samlang_errors::ErrorSet::new();
  let mut parsed = HashMap::new();
  let r = guarded(|| {
    for (m, text) in &handles {
      let p = samlang_parser::parse_source_module_from_text(text, *m, &mut heap, &mut error_set);
      parsed.insert(*m, p);
    }
  });
  if let Err(message) = r {
    rec["front"] = json!("crashed");
    rec["crash"] = json!({"stage": "parse", "message": message});
    rec["syntax_errors"] = json!([]);
    rec["errors"] = json!([]);
    rec["artefacts_present"] = json!(false);
    return rec;
  }
  let syn: Vec<String> = error_set.errors().iter().map(|e| e.location.module_reference.pretty_print(&heap)).collect();
  rec["syntax_errors"] = json!(syn);
  if let Err(message) = guarded(|| samlang_checker::type_check_sources(&parsed, &mut error_set).0) {
    rec["front"] = json!("crashed");
    rec["crash"] = json!({"stage": "check", "message": message});
    rec["errors"] = json!([]);
    rec["artefacts_present"] = json!(false);
    return rec;
  }
  let mut errors = vec![];
  if error_set.has_errors() {
    match guarded(|| {
      let _ = error_set.pretty_print_error_messages(&heap, &handles);
      error_set
        .errors()
        .iter()
        .map(|e| {
          let mut msg = e.to_ide_format(&heap, &handles).ide_error;
          if msg.len() > 160 {
            let mut cut = 160;
            while !msg.is_char_boundary(cut) {
              cut -= 1;
            }
            msg.truncate(cut);
          }
          (e.location.module_reference.pretty_print(&heap), msg)
        })
        .collect::<Vec<_>>()
    }) {
      Ok(es) => errors = es,
      Err(message) => {
        rec["front"] = json!("crashed");
        rec["crash"] = json!({"stage": "render-errors", "message": message});
        rec["errors"] = json!([]);
        rec["artefacts_present"] = json!(false);
        return rec;
      }
    }
  }
  rec["front"] = json!(if errors.is_empty() { "accepted" } else { "rejected" });
  rec["errors"] = json!(errors);
  // the compiler proper, as the command line drives it
  let mut heap2 = Heap::new();
  let mut handles2: HashMap<ModuleReference, String> =
    if with_std { samlang_parser::builtin_std_raw_sources(&mut heap2) } else { HashMap::new() };
  for (name, text) in sources {
    let m = module_ref(&mut heap2, name);
    handles2.insert(m, text.clone());
  }
  let entry2 = module_ref(&mut heap2, entry);
  let _ = entry_ref;
  match guarded(|| samlang_compiler::compile_sources(&mut heap2, handles2, vec![entry2], false)) {
    Ok(Ok(res)) => {
      rec["artefacts_present"] = json!(!res.wasm_file.is_empty() || !res.text_code_results.is_empty());
      rec["emit"] = json!("emitted");
    }
    Ok(Err(_)) => {
      rec["artefacts_present"] = json!(false);
      rec["emit"] = json!("refused");
    }
    Err(message) => {
      rec["artefacts_present"] = json!(false);
      rec["emit"] = json!("crashed");
      rec["crash"] = json!({"stage": "compile_sources", "message": message});
      if rec["front"] == json!("rejected") {
        // the compiler must refuse, not crash
        rec["front"] = json!("crashed");
      }
    }
  }
  rec
}

/// `vh front-run --in PROGRAMS.ndjson --out RECS.ndjson`
pub fn front_run(args: &[String]) {
  silence_panics();
  let input = std::fs::read_to_string(arg(args, "--in").expect("--in")).unwrap();
  let mut f = std::io::BufWriter::new(std::fs::File::create(arg(args, "--out").expect("--out")).unwrap());
  let mut n = 0;
  for line in input.lines().filter(|l| !l.trim().is_empty()) {
    let p: Value = serde_json::from_str(line).unwrap();
    let sources: BTreeMap<String, String> = serde_json::from_value(p["sources"].clone()).unwrap();
    let mut rec = observe(&sources, p["entry"].as_str().unwrap(), p["with_std"].as_bool().unwrap_or(true));
    for k in ["id", "origin", "fault"] {
      if !p[k].is_null() {
        rec[k] = p[k].clone();
      }
    }
    writeln!(f, "{}", rec).unwrap();
    n += 1;
  }
  f.flush().unwrap();
  println!("{}", json!({"programs": n}));
}

/// `vh mutate ...`
pub fn main(args: &[String]) {
  silence_panics();
  let input = std::fs::read_to_string(arg(args, "--in").expect("--in")).unwrap();
  let seed: u64 = arg_or(args, "--seed", "1").parse().unwrap();
  let per_program: usize = arg_or(args, "--per-program", "40").parse().unwrap();
  let full = flag(args, "--full");
  // `--shard I --of N`: this process handles the sites whose index is I modulo N (one big program, many processes)
  let shard: usize = arg_or(args, "--shard", "0").parse().unwrap();
  let shard_of: usize = arg_or(args, "--of", "1").parse().unwrap();
  let show = flag(args, "--show");
  ARM_DROP.store(flag(args, "--arm-drop"), std::sync::atomic::Ordering::Relaxed);
  let avoid: HashSet<String> = arg_or(args, "--avoid", "").split(',').filter(|s| !s.is_empty()).map(|s| s.to_string()).collect();
  let only: HashSet<String> = arg_or(args, "--only", "").split(',').filter(|s| !s.is_empty()).map(|s| s.to_string()).collect();
  let mut out = arg(args, "--out").map(|p| std::io::BufWriter::new(std::fs::File::create(p).unwrap()));
  let mut judge = arg(args, "--judge").map(|p| std::io::BufWriter::new(std::fs::File::create(p).unwrap()));
  let mut census = Census { sites: BTreeMap::new(), invalid: BTreeMap::new(), emitted: BTreeMap::new() };
  let (mut programs, mut not_accepted, mut next_id) = (0usize, 0usize, 0usize);
  for (pi, line) in input.lines().filter(|l| !l.trim().is_empty()).enumerate() {
    let p: Value = serde_json::from_str(line).unwrap();
    let sources: BTreeMap<String, String> = serde_json::from_value(p["sources"].clone()).unwrap();
    let entry = p["entry"].as_str().unwrap().to_string();
    let with_std = p["with_std"].as_bool().unwrap_or(true);
    let origin = p["origin"].as_str().unwrap_or("?").to_string();
    let pid = p["id"].as_u64().unwrap_or(pi as u64);
    let mut prog = match guarded(|| load(&sources, with_std)) {
      Ok(Ok(p)) => p,
      _ => {
        not_accepted += 1;
        continue;
      }
    };
    programs += 1;
    let (sites, skels) = collect_sites(&prog);
    // group by operator/sub-operator, shuffle each group, take round-robin over the operators
    let mut groups: BTreeMap<(&'static str, &'static str), Vec<Site>> = BTreeMap::new();
    for (si, s) in sites.into_iter().enumerate() {
      if si % shard_of != shard {
        continue;
      }
      let label = format!("{}:{}", s.kind, s.sub);
      *census.sites.entry(label.clone()).or_default() += 1;
      if avoid.contains(&label) || avoid.contains(s.kind) || (!only.is_empty() && !only.contains(s.kind) && !only.contains(&label)) {
        continue;
      }
      groups.entry((s.kind, s.sub)).or_default().push(s);
    }
    let mut rng = Rng::new(seed ^ (pid.wrapping_mul(0x9E37_79B9)) ^ 0xC06 ^ ((shard as u64) << 40));
    for g in groups.values_mut() {
      for i in (1..g.len()).rev() {
        let j = rng.below(i + 1);
        g.swap(i, j);
      }
    }
    // operators first (so that each gets its share), then their sub-operators
    let mut by_kind: BTreeMap<&'static str, Vec<Vec<Site>>> = BTreeMap::new();
    for ((k, _), g) in groups {
      by_kind.entry(k).or_default().push(g);
    }
    let mut queues: Vec<Vec<Site>> = vec![];
    for (_, subs) in by_kind {
      // interleave the sub-operators of one operator
      let mut q = vec![];
      let mut subs = subs;
      for i in (1..subs.len()).rev() {
        let j = rng.below(i + 1);
        subs.swap(i, j);
      }
      loop {
        let mut any = false;
        for s in subs.iter_mut() {
          if let Some(x) = s.pop() {
            q.push(x);
            any = true;
          }
        }
        if !any {
          break;
        }
      }
      q.reverse();
      queues.push(q);
    }
    let mut produced = 0usize;
    'outer: loop {
      let mut any = false;
      for q in queues.iter_mut() {
        while let Some(site) = q.pop() {
          any = true;
          let label = format!("{}:{}", site.kind, site.sub);
          let orig_toks = skels[&site.edit].0.clone();
          match realise(&mut prog, &site, &orig_toks) {
            None => {
              *census.invalid.entry(label).or_default() += 1;
              continue; // try the next site of the same operator
            }
            Some(mutated) => {
              *census.emitted.entry(label).or_default() += 1;
              let edit_name = site.edit.pretty_print(&prog.heap);
              let orig_text = &prog.handles[&site.edit];
              let (l, c) = line_col(orig_text, site.start);
              let fault = json!({
                "kind": site.kind, "sub": site.sub, "module": site.offending[0], "modules": site.offending,
                "edited": edit_name, "site": format!("{l}:{c}"),
                "before": &orig_text[site.start..site.end], "after": site.replacement,
                "start": site.start, "end": site.end,
              });
              if show {
                let ls = orig_text[..site.start].rfind('\n').map(|p| p + 1).unwrap_or(0);
                let le = orig_text[site.end..].find('\n').map(|p| p + site.end).unwrap_or(orig_text.len());
                let ml = mutated[..site.start].rfind('\n').map(|p| p + 1).unwrap_or(0);
                let me_ = site.start + site.replacement.len();
                let me = mutated[me_..].find('\n').map(|p| p + me_).unwrap_or(mutated.len());
                println!("--- {origin} {} {}:{} [{}] offending={:?}\n- {}\n+ {}", edit_name, l, c, format!("{}:{}", site.kind, site.sub),
                         site.offending, &orig_text[ls..le], &mutated[ml..me]);
              }
              let mut msources = sources.clone();
              msources.insert(edit_name.clone(), mutated);
              let mut rec = json!({"id": next_id * shard_of + shard, "origin": format!("{origin}#{}:{}@{}:{l}:{c}", site.kind, site.sub, edit_name),
                                   "base": pid, "fault": fault, "entry": entry, "with_std": with_std});
              next_id += 1;
              if let Some(j) = judge.as_mut() {
                let mut o = observe(&msources, &entry, with_std);
                for k in ["id", "origin", "base", "fault"] {
                  o[k] = rec[k].clone();
                }
                writeln!(j, "{}", o).unwrap();
              }
              if let Some(f) = out.as_mut() {
                if full {
                  rec["sources"] = json!(msources);
                }
                writeln!(f, "{}", rec).unwrap();
              }
              produced += 1;
              if produced >= per_program {
                break 'outer;
              }
              break;
            }
          }
        }
      }
      if !any {
        break;
      }
    }
  }
  if let Some(f) = out.as_mut() {
    f.flush().unwrap();
  }
  if let Some(f) = judge.as_mut() {
    f.flush().unwrap();
  }
  println!(
    "{}",
    json!({"programs": programs, "not_accepted": not_accepted, "mutants": next_id,
           "sites": census.sites, "invalid": census.invalid, "emitted": census.emitted})
  );
}
