// ---------------------------------------------------------------------------------------------
// the class world: modules, class templates, show methods, the pool of value types
// ---------------------------------------------------------------------------------------------
impl G {
  fn new(seed: u64, prof: Profile, allow: BTreeSet<String>) -> G {
    let mut g = G {
      rng: Rng::new(seed),
      prof,
      allow,
      classes: vec![],
      cidx: HashMap::new(),
      sigs: vec![],
      feats: BTreeSet::new(),
      nname: 0,
      nlibs: 1,
      pool: vec![],
      cost: 0,
      curlevel: 0,
      boundary: prof == Profile::Boundary,
      marker: 0,
      impure: false,
    };
    // std classes known to the generator
    let t = || Ty::T("T".into());
    g.add_class(Class {
      name: "List".into(),
      module: STD,
      tparams: vec!["T".into()],
      kind: Kind::Enum(vec![Variant { name: "Nil".into(), args: vec![] }, Variant { name: "Cons".into(), args: vec![(t(), ANY), (Ty::list(t()), LLEN)] }]),
      rec: false,
      private: false,
      supers: String::new(),
      members: vec![],
    });
    g.add_class(Class {
      name: "Option".into(),
      module: STD,
      tparams: vec!["T".into()],
      kind: Kind::Enum(vec![Variant { name: "None".into(), args: vec![] }, Variant { name: "Some".into(), args: vec![(t(), ANY)] }]),
      rec: false,
      private: false,
      supers: String::new(),
      members: vec![],
    });
    g.add_class(Class {
      name: "Pair".into(),
      module: STD,
      tparams: vec!["E0".into(), "E1".into()],
      kind: Kind::Struct(vec![
        Field { name: "e0".into(), ty: Ty::T("E0".into()), r: ANY, private: false },
        Field { name: "e1".into(), ty: Ty::T("E1".into()), r: ANY, private: false },
      ]),
      rec: false,
      private: false,
      supers: String::new(),
      members: vec![],
    });
    g
  }

  fn add_class(&mut self, c: Class) -> usize {
    self.cidx.insert(c.name.clone(), self.classes.len());
    self.classes.push(c);
    self.classes.len() - 1
  }

  fn user_classes(&self, pred: impl Fn(&Class) -> bool) -> Vec<String> {
    self.classes.iter().filter(|c| c.module != STD && pred(c)).map(|c| c.name.clone()).collect()
  }

  fn int_field_range(&mut self) -> R {
    if self.boundary && self.rng.chance(1, 3) {
      return FULL;
    }
    *self.rng.pick(&[(-100, 100), (0, 100), (-1000, 1000), (-50, 50), (0, 9), (1, 20), (-20, -1)])
  }

  /// a type usable for fields / payloads in module `m` (earlier, non-generic, constructible classes)
  fn member_ty(&mut self, m: usize, class_bias: u32) -> (Ty, R) {
    let strs = self.prof == Profile::Strings;
    let x = self.rng.below(10) as u32;
    if x < class_bias {
      let cs: Vec<String> = self
        .classes
        .iter()
        .filter(|c| c.module != STD && c.module <= m && c.tparams.is_empty() && !c.private && matches!(c.kind, Kind::Struct(_) | Kind::Enum(_)))
        .map(|c| c.name.clone())
        .collect();
      if !cs.is_empty() {
        let n = cs[self.rng.below(cs.len())].clone();
        let t = Ty::cls(&n);
        let r = self.dflt(&t);
        return (t, r);
      }
    }
    match self.rng.below(if strs { 12 } else { 10 }) {
      0..=4 => (Ty::Int, self.int_field_range()),
      5 => (Ty::Bool, ANY),
      6 if self.rng.chance(1, 3) => (Ty::option(Ty::Int), ANY),
      6 if self.rng.chance(1, 2) => (Ty::list(Ty::Int), LLEN),
      _ => (Ty::Str, SLEN),
    }
  }

  // ------------------------------------------------------------------ templates
  fn t_struct(&mut self, m: usize, with_private: bool) -> String {
    let name = self.fresh("Rec");
    let nf = 1 + self.rng.below(4);
    let mut fields = vec![];
    for i in 0..nf {
      let (ty, r) = self.member_ty(m, 2);
      let private = with_private && (i == 0 || self.rng.chance(1, 3));
      fields.push(Field { name: format!("f{}", (b'a' + i as u8) as char), ty, r, private });
    }
    if with_private {
      self.feat("private-field");
    }
    self.add_class(Class { name: name.clone(), module: m, tparams: vec![], kind: Kind::Struct(fields), rec: false, private: false, supers: String::new(), members: vec![] });
    name
  }

  fn some_struct(&mut self, m: usize) -> String {
    let cs: Vec<String> = self
      .classes
      .iter()
      .filter(|c| c.module != STD && c.module <= m && c.tparams.is_empty() && !c.private && matches!(&c.kind, Kind::Struct(fs) if fs.iter().all(|f| !f.private)))
      .map(|c| c.name.clone())
      .collect();
    if !cs.is_empty() && self.rng.chance(2, 3) {
      cs[self.rng.below(cs.len())].clone()
    } else {
      self.t_struct(m, false)
    }
  }

  fn some_enum(&mut self, m: usize) -> String {
    let cs: Vec<String> =
      self.classes.iter().filter(|c| c.module != STD && c.module <= m && c.tparams.is_empty() && !c.private && !c.rec && matches!(c.kind, Kind::Enum(_))).map(|c| c.name.clone()).collect();
    if !cs.is_empty() && self.rng.chance(2, 3) {
      cs[self.rng.below(cs.len())].clone()
    } else {
      let s = *self.rng.pick(&[0usize, 1, 2, 5]);
      self.t_enum(m, s)
    }
  }

  fn vname(&mut self, base: &str, i: usize) -> String {
    format!("{base}{}", (b'A' + i as u8) as char)
  }

  /// enum shapes (see the module comment); returns the (first) class name
  fn t_enum(&mut self, m: usize, shape: usize) -> String {
    let name = self.fresh(match shape {
      7 => "Lst",
      8 => "Tre",
      9 => "Ev",
      10 => "Chn",
      11 => "Wrp",
      12 => "Exp",
      _ => "Sum",
    });
    let mut rec = false;
    let me = Ty::cls(&name);
    let mut variants: Vec<Variant> = vec![];
    let mut extra: Option<Class> = None;
    match shape {
      0 => {
        let n = 2 + self.rng.below(4);
        for i in 0..n {
          variants.push(Variant { name: self.vname(&name, i), args: vec![] });
        }
        self.feat("enum-nullary-only");
      }
      1 => {
        variants.push(Variant { name: self.vname(&name, 0), args: vec![] });
        variants.push(Variant { name: self.vname(&name, 1), args: vec![(Ty::Int, self.int_field_range())] });
        if self.rng.chance(1, 2) {
          variants.push(Variant { name: self.vname(&name, 2), args: vec![] });
        }
        self.feat("enum-int-payload");
      }
      2 => {
        variants.push(Variant { name: self.vname(&name, 0), args: vec![(Ty::Str, SLEN)] });
        variants.push(Variant { name: self.vname(&name, 1), args: vec![] });
        self.feat("enum-str-payload");
      }
      3 => {
        let s = self.some_struct(m);
        variants.push(Variant { name: self.vname(&name, 0), args: vec![] });
        variants.push(Variant { name: self.vname(&name, 1), args: vec![(Ty::cls(&s), ANY)] });
        if self.rng.chance(1, 2) {
          variants.push(Variant { name: self.vname(&name, 2), args: vec![(Ty::Int, self.int_field_range())] });
        }
        self.feat("enum-struct-payload");
      }
      4 => {
        let e = self.some_enum(m);
        variants.push(Variant { name: self.vname(&name, 0), args: vec![(Ty::cls(&e), ANY)] });
        variants.push(Variant { name: self.vname(&name, 1), args: vec![] });
        if self.rng.chance(1, 2) {
          variants.push(Variant { name: self.vname(&name, 2), args: vec![(Ty::Bool, ANY)] });
        }
        self.feat("enum-enum-payload");
      }
      5 => {
        let second = if self.rng.chance(1, 2) { (Ty::Str, SLEN) } else { (Ty::Int, self.int_field_range()) };
        variants.push(Variant { name: self.vname(&name, 0), args: vec![(Ty::Int, self.int_field_range()), second] });
        variants.push(Variant { name: self.vname(&name, 1), args: vec![] });
        self.feat("enum-two-payload-fields");
      }
      6 => {
        let n = 3 + self.rng.below(2);
        for i in 0..n {
          let k = 1 + self.rng.below(3);
          let mut args = vec![];
          for _ in 0..k {
            args.push(self.member_ty(m, 2));
          }
          variants.push(Variant { name: self.vname(&name, i), args });
        }
        if self.rng.chance(1, 2) {
          variants.push(Variant { name: self.vname(&name, n), args: vec![] });
        }
        self.feat("enum-many-payload-variants");
      }
      7 => {
        rec = true;
        let payload = if self.rng.chance(3, 4) { (Ty::Int, self.int_field_range()) } else { (Ty::Str, SLEN) };
        variants.push(Variant { name: self.vname(&name, 0), args: vec![] });
        variants.push(Variant { name: self.vname(&name, 1), args: vec![payload, (me.clone(), NODES)] });
        self.feat("enum-list-like");
      }
      8 => {
        rec = true;
        variants.push(Variant { name: self.vname(&name, 0), args: vec![] });
        variants.push(Variant { name: self.vname(&name, 1), args: vec![(me.clone(), NODES), (Ty::Int, self.int_field_range()), (me.clone(), NODES)] });
        self.feat("enum-tree");
      }
      9 => {
        rec = true;
        let other = self.fresh("Od");
        let ot = Ty::cls(&other);
        variants.push(Variant { name: self.vname(&name, 0), args: vec![] });
        variants.push(Variant { name: self.vname(&name, 1), args: vec![(ot.clone(), NODES)] });
        let mut ovs = vec![Variant { name: self.vname(&other, 0), args: vec![(me.clone(), NODES)] }];
        if self.rng.chance(1, 2) {
          ovs.push(Variant { name: self.vname(&other, 1), args: vec![(Ty::Int, self.int_field_range()), (me.clone(), NODES)] });
        }
        extra = Some(Class { name: other, module: m, tparams: vec![], kind: Kind::Enum(ovs), rec: true, private: false, supers: String::new(), members: vec![] });
        self.feat("enum-mutually-recursive");
      }
      10 => {
        rec = true;
        variants.push(Variant { name: self.vname(&name, 0), args: vec![] });
        variants.push(Variant { name: self.vname(&name, 1), args: vec![(me.clone(), NODES)] });
        self.feat("enum-self-only-payload");
      }
      11 => {
        let e = self.some_enum(m);
        variants.push(Variant { name: self.vname(&name, 0), args: vec![(Ty::cls(&e), ANY)] });
        self.feat("enum-single-variant-enum-payload");
      }
      13 => {
        // several variants with the same payload type (or-patterns can share bindings)
        let n = 2 + self.rng.below(3);
        let payload = if self.rng.chance(3, 4) { (Ty::Int, self.int_field_range()) } else { (Ty::Str, SLEN) };
        for i in 0..n {
          variants.push(Variant { name: self.vname(&name, i), args: vec![payload.clone()] });
        }
        if self.rng.chance(1, 2) {
          variants.push(Variant { name: self.vname(&name, n), args: vec![] });
        }
        self.feat("enum-same-payload-variants");
      }
      _ => {
        rec = true;
        variants.push(Variant { name: self.vname(&name, 0), args: vec![(Ty::Int, (-50, 50))] });
        variants.push(Variant { name: self.vname(&name, 1), args: vec![(me.clone(), NODES), (me.clone(), NODES)] });
        variants.push(Variant { name: self.vname(&name, 2), args: vec![(me.clone(), NODES)] });
        self.feat("enum-expression-like");
      }
    }
    self.add_class(Class { name: name.clone(), module: m, tparams: vec![], kind: Kind::Enum(variants), rec, private: false, supers: String::new(), members: vec![] });
    if let Some(c) = extra {
      self.add_class(c);
    }
    name
  }

  /// generic classes: 0 Box<T>, 1 Opt<T>, 2 Tree<T>
  fn t_generic(&mut self, m: usize, which: usize) -> String {
    let t = Ty::T("T".into());
    match which {
      0 => {
        let name = self.fresh("Box");
        let me = Ty::C(name.clone(), vec![t.clone()]);
        let members = vec![
          format!("method show(f: (T) -> Str): Str = \"{name}(\" :: f(this.v) :: \")\""),
          "method get(): T = this.v".to_string(),
          format!("method replace(x: T): {} = {name}.init(x)", me.txt()),
          format!("method <R> map(f: (T) -> R): {name}<R> = {name}.init(f(this.v))"),
        ];
        self.add_class(Class {
          name: name.clone(),
          module: m,
          tparams: vec!["T".into()],
          kind: Kind::Struct(vec![Field { name: "v".into(), ty: t, r: ANY, private: false }]),
          rec: false,
          private: false,
          supers: String::new(),
          members,
        });
        self.feat("generic-box");
        name
      }
      1 => {
        let name = self.fresh("Opt");
        let (none, some) = (format!("{name}N"), format!("{name}S"));
        let me = Ty::C(name.clone(), vec![t.clone()]);
        let members = vec![
          format!("method show(f: (T) -> Str): Str =\nmatch this {{\n{none} -> \"{none}\",\n{some}(x) -> \"{some}(\" :: f(x) :: \")\",\n}}"),
          format!("method getOr(d: T): T = if let {some}(x) = this {{ x }} else {{ d }}"),
          format!("method isSome(): bool =\nmatch this {{\n{none} -> false,\n{some}(_) -> true,\n}}"),
          format!("method mapSame(f: (T) -> T): {} =\nmatch this {{\n{none} -> {name}.{none}<T>(),\n{some}(x) -> {name}.{some}(f(x)),\n}}", me.txt()),
        ];
        self.add_class(Class {
          name: name.clone(),
          module: m,
          tparams: vec!["T".into()],
          kind: Kind::Enum(vec![Variant { name: none, args: vec![] }, Variant { name: some, args: vec![(t, ANY)] }]),
          rec: false,
          private: false,
          supers: String::new(),
          members,
        });
        self.feat("generic-opt");
        name
      }
      _ => {
        let name = self.fresh("GTree");
        let (leaf, node) = (format!("{name}L"), format!("{name}N"));
        let me = Ty::C(name.clone(), vec![t.clone()]);
        let members = vec![
          format!("method show(f: (T) -> Str): Str =\nmatch this {{\n{leaf} -> \".\",\n{node}(l, v, r) -> \"(\" :: l.show(f) :: f(v) :: r.show(f) :: \")\",\n}}"),
          format!("method size(): int =\nmatch this {{\n{leaf} -> 0,\n{node}(l, _, r) -> (l.size() + 1) + r.size(),\n}}"),
          format!("method mirror(): {} =\nmatch this {{\n{leaf} -> this,\n{node}(l, v, r) -> {name}.{node}(r.mirror(), v, l.mirror()),\n}}", me.txt()),
          format!("method <A> fold(f: (A, T) -> A, z: A): A =\nmatch this {{\n{leaf} -> z,\n{node}(l, v, r) -> r.fold(f, f(l.fold(f, z), v)),\n}}"),
        ];
        self.add_class(Class {
          name: name.clone(),
          module: m,
          tparams: vec!["T".into()],
          kind: Kind::Enum(vec![Variant { name: leaf, args: vec![] }, Variant { name: node, args: vec![(me.clone(), NODES), (t, ANY), (me, NODES)] }]),
          rec: true,
          private: false,
          supers: String::new(),
          members,
        });
        self.feat("generic-tree");
        name
      }
    }
  }

  /// registers the monomorphic method signatures of a generic class instantiation
  fn register_generic_inst(&mut self, ty: &Ty) {
    let Ty::C(n, a) = ty else { return };
    let Some(c) = self.class(n) else { return };
    if c.module == STD {
      return;
    }
    let (module, arg) = (c.module, a[0].clone());
    let mk = |name: &str, params: Vec<(String, Ty, R)>, ret: Ty, rr: R, cost: u64| Sig {
      cls: n.clone(),
      recv: Some(ty.clone()),
      name: name.into(),
      params,
      ret,
      rr,
      level: 1,
      cost,
      private: false,
      modpriv: false,
      module,
      kind: SK::Plain,
      used: 0,
      noref: false,
      pure: true,
      feats: vec!["generic-method-call"],
    };
    let da = self.dflt(&arg);
    if n.starts_with("Box") {
      self.sigs.push(mk("get", vec![], arg.clone(), da, 3));
      self.sigs.push(mk("replace", vec![("x".into(), arg.clone(), da)], ty.clone(), ANY, 3));
      self.sigs.push(mk("map", vec![("f".into(), Ty::func(vec![arg.clone()], arg.clone()), ANY)], ty.clone(), ANY, 60));
    } else if n.starts_with("Opt") {
      self.sigs.push(mk("getOr", vec![("d".into(), arg.clone(), da)], arg.clone(), da, 5));
      self.sigs.push(mk("isSome", vec![], Ty::Bool, ANY, 5));
      self.sigs.push(mk("mapSame", vec![("f".into(), Ty::func(vec![arg.clone()], arg.clone()), ANY)], ty.clone(), ANY, 60));
    } else if n.starts_with("GTree") {
      self.sigs.push(mk("size", vec![], Ty::Int, NODES, 400));
      self.sigs.push(mk("mirror", vec![], ty.clone(), NODES, 600));
    }
  }

  /// interface + implementing classes + bounded-generic consumers
  fn t_iface(&mut self, m: usize) {
    let generic = self.rng.chance(3, 5);
    let iname = self.fresh(if generic { "Cmp" } else { "Scored" });
    let body = if generic { "method cmp(other: T): int".to_string() } else { "method score(): int\nmethod label(): Str".to_string() };
    self.add_class(Class {
      name: iname.clone(),
      module: m,
      tparams: if generic { vec!["T".into()] } else { vec![] },
      kind: Kind::Iface(body),
      rec: false,
      private: false,
      supers: String::new(),
      members: vec![],
    });
    let nimpl = 1 + self.rng.below(2);
    let mut impls = vec![];
    for k in 0..nimpl {
      let as_enum = k == 1 && self.rng.chance(1, 2);
      let cname = if as_enum {
        let shape = *self.rng.pick(&[1usize, 5, 0]);
        self.t_enum(m, shape)
      } else {
        self.t_struct(m, false)
      };
      let ci = self.cidx[&cname];
      self.classes[ci].supers = if generic { format!(" : {iname}<{cname}>") } else { format!(" : {iname}") };
      let me = Ty::cls(&cname);
      // a pure int-valued "weight" method, then the interface methods on top of it
      let cx = self.method_ctx(&cname, m, 2);
      self.begin_fn();
      let w = self.gen_int(&cx, 2, (-5000, 5000));
      let (lvl, cost, pure) = self.end_fn();
      let wr = w.r;
      self.classes[ci].members.push(format!("method weight(): int = {}", w.s));
      self.sigs.push(Sig {
        cls: cname.clone(),
        recv: Some(me.clone()),
        name: "weight".into(),
        params: vec![],
        ret: Ty::Int,
        rr: wr,
        level: lvl,
        cost,
        private: false,
        modpriv: false,
        module: m,
        kind: SK::Plain,
        used: 0,
        noref: false,
        pure,
        feats: vec![],
      });
      if generic {
        self.classes[ci].members.push(format!("method cmp(other: {cname}): int = this.weight() - other.weight()"));
        self.sigs.push(Sig {
          cls: cname.clone(),
          recv: Some(me.clone()),
          name: "cmp".into(),
          params: vec![("other".into(), me.clone(), ANY)],
          ret: Ty::Int,
          rr: rminus(wr, wr),
          level: lvl + 1,
          cost: cost * 2 + 5,
          private: false,
          modpriv: false,
          module: m,
          kind: SK::Plain,
          used: 0,
          noref: false,
          pure,
          feats: vec!["interface-impl-call"],
        });
      } else {
        self.classes[ci].members.push("method score(): int = this.weight()".into());
        self.classes[ci].members.push(format!("method label(): Str = \"{cname}#\" :: Str.fromInt(this.weight())"));
        for (nm, ret, rr) in [("score", Ty::Int, wr), ("label", Ty::Str, (0, cname.len() as i64 + 12))] {
          self.sigs.push(Sig {
            cls: cname.clone(),
            recv: Some(me.clone()),
            name: nm.into(),
            params: vec![],
            ret,
            rr,
            level: lvl + 1,
            cost: cost + 5,
            private: false,
            modpriv: false,
            module: m,
            kind: SK::Plain,
            used: 0,
            noref: false,
            pure,
            feats: vec!["interface-impl-call"],
          });
        }
      }
      impls.push((cname, wr, lvl, cost, pure));
    }
    // the bounded-generic consumers live in a utility class
    let uname = self.fresh("Ord");
    let bound = if generic { format!("{iname}<T>") } else { iname.clone() };
    let mut members = vec![];
    if generic {
      members.push(format!("function <T: {bound}> max(a: T, b: T): T = if a.cmp(b) >= 0 {{ a }} else {{ b }}"));
      members.push(format!("function <T: {bound}> min3(a: T, b: T, c: T): T = {{\nlet m = if a.cmp(b) <= 0 {{ a }} else {{ b }};\nif m.cmp(c) <= 0 {{ m }} else {{ c }}\n}}"));
      members.push(format!("function <T: {bound}> ordered(a: T, b: T, c: T): bool = a.cmp(b) <= 0 && b.cmp(c) <= 0"));
    } else {
      members.push(format!("function <T: {bound}> best(a: T, b: T): T = if a.score() >= b.score() {{ a }} else {{ b }}"));
      members.push(format!("function <T: {bound}> total(a: T, b: T): int = a.score() + b.score()"));
      members.push(format!("function <T: {bound}> describe(a: T): Str = a.label() :: \"!\""));
    }
    self.add_class(Class { name: uname.clone(), module: m, tparams: vec![], kind: Kind::Util, rec: false, private: false, supers: String::new(), members });
    for (cname, wr, lvl, cost, pure) in impls {
      let me = Ty::cls(&cname);
      let p = |n: &str| (n.to_string(), me.clone(), ANY);
      let list: Vec<(&str, Vec<(String, Ty, R)>, Ty, R)> = if generic {
        vec![("max", vec![p("a"), p("b")], me.clone(), ANY), ("min3", vec![p("a"), p("b"), p("c")], me.clone(), ANY), ("ordered", vec![p("a"), p("b"), p("c")], Ty::Bool, ANY)]
      } else {
        vec![("best", vec![p("a"), p("b")], me.clone(), ANY), ("total", vec![p("a"), p("b")], Ty::Int, radd(wr, wr)), ("describe", vec![p("a")], Ty::Str, (0, cname.len() as i64 + 13))]
      };
      for (nm, params, ret, rr) in list {
        self.sigs.push(Sig {
          cls: uname.clone(),
          recv: None,
          name: nm.into(),
          params,
          ret,
          rr,
          level: lvl + 2,
          cost: cost * 4 + 10,
          private: false,
          modpriv: false,
          module: m,
          kind: SK::Plain,
          used: 0,
          noref: true,
          pure,
          feats: vec!["bounded-generic", "interface-call"],
        });
      }
    }
    self.feat("interface");
  }

  // ------------------------------------------------------------------ show methods
  fn emit_show(&mut self, ci: usize) {
    let c = self.classes[ci].clone();
    if !c.tparams.is_empty() {
      return;
    }
    let name = c.name.clone();
    let text = match &c.kind {
      Kind::Struct(fs) => {
        let mut parts = vec![format!("\"{name}(\"")];
        for (i, f) in fs.iter().enumerate() {
          if i > 0 {
            parts.push("\",\"".into());
          }
          parts.push(self.show_expr(&f.ty, &format!("this.{}", f.name), 0));
        }
        parts.push("\")\"".into());
        format!("method show(): Str = {}", parts.join(" :: "))
      }
      Kind::Enum(vs) => {
        let mut arms = vec![];
        for v in vs {
          if v.args.is_empty() {
            arms.push(format!("{} -> \"{}\",", v.name, v.name));
          } else {
            let names: Vec<String> = (0..v.args.len()).map(|i| format!("a{i}")).collect();
            let mut parts = vec![format!("\"{}(\"", v.name)];
            for (i, (t, _)) in v.args.iter().enumerate() {
              if i > 0 {
                parts.push("\",\"".into());
              }
              parts.push(self.show_expr(t, &names[i], 0));
            }
            parts.push("\")\"".into());
            arms.push(format!("{}({}) -> {},", v.name, names.join(", "), parts.join(" :: ")));
          }
        }
        format!("method show(): Str =\nmatch this {{\n{}\n}}", arms.join("\n"))
      }
      _ => return,
    };
    self.classes[ci].members.push(text);
  }

  /// structural recursion over a recursive enum: `sum` (ints + children) and `depth`
  fn emit_structural(&mut self, ci: usize) {
    let c = self.classes[ci].clone();
    if !c.rec || !c.tparams.is_empty() {
      return;
    }
    let Kind::Enum(vs) = &c.kind else { return };
    let me = Ty::cls(&c.name);
    let mut arms_sum = vec![];
    let mut arms_depth = vec![];
    let mut per_node: R = (0, 0);
    for v in vs {
      let names: Vec<String> = (0..v.args.len()).map(|i| format!("a{i}")).collect();
      let mut parts: Vec<String> = vec![];
      let mut dparts: Vec<String> = vec![];
      let mut node: R = (1, 1);
      for (i, (t, r)) in v.args.iter().enumerate() {
        if *t == Ty::Int {
          parts.push(names[i].clone());
          node = radd(node, if *r == FULL { STORE } else { *r });
        } else if self.is_rec(t) {
          parts.push(format!("{}.sum()", names[i]));
          dparts.push(format!("{}.depth()", names[i]));
        }
      }
      per_node = hull(per_node, node);
      let pat = if v.args.is_empty() {
        v.name.clone()
      } else {
        let ns: Vec<String> = v.args.iter().enumerate().map(|(i, (t, r))| if (*t == Ty::Int && *r != FULL) || self.is_rec(t) { names[i].clone() } else { "_".into() }).collect();
        format!("{}({})", v.name, ns.join(", "))
      };
      let mut s = "1".to_string();
      for p in parts.iter().filter(|p| v.args.iter().enumerate().all(|(i, (_, r))| names[i] != **p || *r != FULL)) {
        s = format!("({s} + {p})");
      }
      arms_sum.push(format!("{pat} -> {s},"));
      let dpat = if v.args.is_empty() {
        v.name.clone()
      } else {
        let ns: Vec<String> = v.args.iter().enumerate().map(|(i, (t, _))| if self.is_rec(t) { names[i].clone() } else { "_".into() }).collect();
        format!("{}({})", v.name, ns.join(", "))
      };
      let dexpr = match dparts.len() {
        0 => "0".to_string(),
        1 => format!("1 + {}", dparts[0]),
        _ => format!("{{\nlet dl = {};\nlet dr = {};\n1 + (if dl > dr {{ dl }} else {{ dr }})\n}}", dparts[0], dparts[1]),
      };
      arms_depth.push(format!("{dpat} -> {dexpr},"));
    }
    self.classes[ci].members.push(format!("method sum(): int =\nmatch this {{\n{}\n}}", arms_sum.join("\n")));
    self.classes[ci].members.push(format!("method depth(): int =\nmatch this {{\n{}\n}}", arms_depth.join("\n")));
    let n = NODES.1;
    for (nm, rr) in [("sum", (per_node.0.min(0) * n, per_node.1.max(0) * n)), ("depth", (0, n))] {
      self.sigs.push(Sig {
        cls: c.name.clone(),
        recv: Some(me.clone()),
        name: nm.into(),
        params: vec![],
        ret: Ty::Int,
        rr,
        level: 1,
        cost: 500,
        private: false,
        modpriv: false,
        module: c.module,
        kind: SK::Plain,
        used: 0,
        noref: false,
        pure: true,
        feats: vec!["structural-recursion"],
      });
    }
    if vs.iter().any(|v| v.args.iter().any(|a| a.0 != me && self.is_rec(&a.0))) {
      self.feat("mutual-recursion");
    }
  }

  // ------------------------------------------------------------------ world
  fn build_world(&mut self) {
    self.nlibs = 1 + self.rng.below(3);
    let prof = self.prof;
    // the template schedule
    let mut enum_shapes: Vec<usize> = (0..14).collect();
    for i in (1..enum_shapes.len()).rev() {
      let j = self.rng.below(i + 1);
      enum_shapes.swap(i, j);
    }
    let mut next_shape = 0usize;
    for m in 0..self.nlibs {
      let ncls = match prof {
        Profile::Enums => 3 + self.rng.below(2),
        Profile::Loops | Profile::Boundary | Profile::Strings => 1 + self.rng.below(2),
        _ => 1 + self.rng.below(4),
      };
      for _ in 0..ncls {
        if self.line_estimate() > 90 {
          break;
        }
        let x = self.rng.below(100);
        let (p_struct, p_enum, p_generic, p_iface) = match prof {
          Profile::Enums => (8, 72, 15, 5),
          Profile::Closures => (30, 25, 25, 20),
          Profile::Loops | Profile::Boundary => (50, 30, 10, 10),
          Profile::Strings => (50, 30, 10, 10),
          Profile::Mixed => (25, 40, 15, 20),
        };
        if x < p_struct {
          let wp = self.rng.chance(1, 3);
          self.t_struct(m, wp);
        } else if x < p_struct + p_enum {
          let shape = enum_shapes[next_shape % enum_shapes.len()];
          next_shape += 1;
          self.t_enum(m, shape);
        } else if x < p_struct + p_enum + p_generic {
          let w = self.rng.below(3);
          self.t_generic(m, w);
        } else if x < p_struct + p_enum + p_generic + p_iface {
          self.t_iface(m);
        }
      }
    }
    // pool of value types
    let mut pool: Vec<Ty> = vec![];
    let names: Vec<(String, bool, bool)> =
      self.classes.iter().filter(|c| c.module != STD && matches!(c.kind, Kind::Struct(_) | Kind::Enum(_))).map(|c| (c.name.clone(), !c.tparams.is_empty(), c.name.starts_with("Opt"))).collect();
    for (n, generic, is_opt) in names {
      if !generic {
        pool.push(Ty::cls(&n));
        continue;
      }
      let arg = match self.rng.below(4) {
        0 => Ty::Str,
        1 => {
          let cs: Vec<Ty> = pool.iter().filter(|t| matches!(t, Ty::C(_, a) if a.is_empty()) && !self.is_rec(t)).cloned().collect();
          if cs.is_empty() {
            Ty::Int
          } else {
            cs[self.rng.below(cs.len())].clone()
          }
        }
        _ => Ty::Int,
      };
      let t1 = Ty::C(n.clone(), vec![arg.clone()]);
      pool.push(t1.clone());
      if is_opt {
        // nested Opt<Opt<Opt<int>>>
        let t2 = Ty::C(n.clone(), vec![Ty::C(n.clone(), vec![Ty::Int])]);
        let t3 = Ty::C(n.clone(), vec![t2.clone()]);
        if t1 != Ty::C(n.clone(), vec![Ty::Int]) {
          pool.push(Ty::C(n.clone(), vec![Ty::Int]));
        }
        pool.push(t2);
        if self.rng.chance(2, 3) {
          pool.push(t3);
          self.feat("nested-generic-opt3");
        }
      }
    }
    pool.push(Ty::list(Ty::Int));
    pool.push(Ty::option(Ty::Int));
    if self.rng.chance(1, 2) {
      pool.push(Ty::pair(Ty::Int, Ty::Str));
    }
    if self.rng.chance(1, 2) || prof == Profile::Strings {
      pool.push(Ty::list(Ty::Str));
    }
    if self.rng.chance(1, 3) {
      pool.push(Ty::option(Ty::option(Ty::Int)));
    }
    let enum_tys: Vec<Ty> = pool.iter().filter(|t| matches!(t, Ty::C(_, a) if a.is_empty()) && self.variants_of(t).is_some() && !self.is_rec(t)).cloned().collect();
    if !enum_tys.is_empty() && self.rng.chance(1, 2) {
      let e = enum_tys[self.rng.below(enum_tys.len())].clone();
      pool.push(if self.rng.chance(1, 2) { Ty::option(e) } else { Ty::pair(e.clone(), Ty::option(Ty::Int)) });
    }
    if self.rng.chance(1, 2) || prof == Profile::Closures {
      pool.push(Ty::func(vec![Ty::Int], Ty::Int));
    }
    if prof == Profile::Closures {
      pool.push(Ty::func(vec![Ty::Int, Ty::Int], Ty::Int));
      pool.push(Ty::func(vec![Ty::Int], Ty::Bool));
      if self.rng.chance(1, 2) {
        pool.push(Ty::func(vec![Ty::Str], Ty::Str));
      }
      if self.rng.chance(1, 2) {
        pool.push(Ty::list(Ty::func(vec![Ty::Int], Ty::Int)));
      }
    }
    if self.rng.chance(1, 4) {
      pool.push(Ty::V(Box::new(Ty::Int)));
    }
    self.pool = pool.clone();
    for t in &pool {
      if matches!(t, Ty::C(_, a) if !a.is_empty()) {
        self.register_generic_inst(t);
        // inner instantiations of nested generics
        if let Ty::C(_, a) = t {
          if let Ty::C(n2, a2) = &a[0] {
            if !a2.is_empty() && !pool.contains(&a[0]) && self.class(n2).map(|c| c.module != STD).unwrap_or(false) {
              self.register_generic_inst(&a[0].clone());
            }
          }
        }
      }
    }
  }

  fn line_estimate(&self) -> usize {
    let mut n = 0;
    for c in &self.classes {
      if c.module == STD {
        continue;
      }
      n += 3;
      for m in &c.members {
        n += m.matches('\n').count() + 2;
      }
      // the show method still to come
      n += match &c.kind {
        Kind::Enum(vs) => vs.len() + 3,
        Kind::Struct(_) => 2,
        _ => 0,
      };
    }
    n
  }
}
