//! C15: navigation and rename agree with the language's scoping rules.
//!
//! `vh scope-run --in TREES.ndjson --out REC.ndjson [--builds 0,31] [--no-run]`
//!   every line of TREES is a binder structure enumerated by TLC from spec/Scope.tla
//!   ({"params":[names], "body": node}), optionally with a FORM VECTOR ("forms": one spelling per place
//!   where the surface syntax can vary, see SURFACE FORMS in spec/Scope.tla: how a lambda's parameter
//!   list is annotated and where the lambda stands, in which pattern a pattern variable is carried,
//!   shorthand or `as` form of a struct field); it is rendered as the body of `T.f` in a small module,
//!   and for every identifier occurrence of the structure (the harness knows their positions because
//!   it writes the text) the answers of `query::definition_location`, `query::all_references` and
//!   `rewrite::rename` of the real language services are recorded, plus what the property says about
//!   each renamed document: it parses, its diagnostics, its observable behaviour, and the text that
//!   renaming back produces next to the formatted original.  spec/ScopeTrace.tla judges the records.
//! `vh scope-real --out REC.ndjson [--gen FILE] [--max-renames N] [--seed S] [--modules a,b]`
//!   the same observations at every local-variable occurrence of real programs (the repository's
//!   tests, generated programs), where no specified relation is available: the record carries what
//!   the consistency conditions of ScopeTrace.tla need.
//! `vh scope-show --tree JSON [--forms JSON]` prints the rendered text of one structure (development aid).
use crate::compile::{compile, OptBits, Outcome};
use crate::exec::wasm_interp;
use crate::util::{arg, arg_or, flag, guarded, silence_panics, Rng};
use samlang_ast::source::{expr, pattern, Module, Toplevel};
use samlang_ast::{Location, Position};
use samlang_heap::{Heap, ModuleReference};
use samlang_services::server_state::ServerState;
use samlang_services::{query, rewrite};
use serde_json::{json, Value};
use std::collections::{BTreeMap, HashMap};
use std::io::Write;

pub const FRESH: &str = "renamedFreshQ";

// ---------------------------------------------------------------------------------------------
// rendering a binder structure
// ---------------------------------------------------------------------------------------------

pub struct Occ {
  pub name: String,
  pub line: u32,
  pub col: u32,
  pub len: u32,
}

/// The type of the value a carrier (spec/Scope.tla, SURFACE FORMS) matches: the pattern variable is an
/// int wrapped in struct classes (first field `f`, second field `qq: int`), pairs and one-variant classes.
#[derive(Clone, Debug)]
enum Ty {
  I,
  S(String, Box<Ty>),
  T(Box<Ty>),
  V(Box<Ty>),
}

fn cap(f: &str) -> String {
  let mut c = f.chars();
  match c.next() {
    Some(h) => h.to_ascii_uppercase().to_string() + c.as_str(),
    None => String::new(),
  }
}

impl Ty {
  /// the type a carrier word matches when it binds the identifier `id`
  fn of(carrier: &str, id: &str) -> Ty {
    let mut cs = carrier.chars();
    match cs.next() {
      None | Some('I') => Ty::I,
      Some('H') => Ty::S(id.to_string(), Box::new(Ty::I)),
      Some('S') => Ty::S("pp".to_string(), Box::new(Ty::of(cs.as_str(), id))),
      Some('T') => Ty::T(Box::new(Ty::of(cs.as_str(), id))),
      Some('V') => Ty::V(Box::new(Ty::of(cs.as_str(), id))),
      Some(c) => panic!("unknown carrier letter {c} in {carrier}"),
    }
  }
  /// prefix-free code, used in the names of the generated classes
  fn code(&self) -> String {
    match self {
      Ty::I => "I".to_string(),
      Ty::S(f, t) => format!("S{}{}", cap(f), t.code()),
      Ty::T(t) => format!("T{}", t.code()),
      Ty::V(t) => format!("V{}", t.code()),
    }
  }
  fn text(&self) -> String {
    match self {
      Ty::I => "int".to_string(),
      Ty::S(_, _) | Ty::V(_) => self.code(),
      Ty::T(t) => format!("Pair<{}, int>", t.text()),
    }
  }
  /// the classes the type mentions
  fn declare(&self, decls: &mut BTreeMap<String, String>) {
    match self {
      Ty::I => {}
      Ty::S(f, t) => {
        t.declare(decls);
        decls.insert(self.code(), format!("class {}(val {}: {}, val qq: int) {{}}\n", self.code(), f, t.text()));
      }
      Ty::T(t) => t.declare(decls),
      Ty::V(t) => {
        t.declare(decls);
        decls.insert(self.code(), format!("class {}(Only({})) {{}}\n", self.code(), t.text()));
      }
    }
  }
  /// (prefix, suffix) of the expression that wraps an int expression into a value of the type
  fn wrap(&self) -> (String, String) {
    match self {
      Ty::I => (String::new(), String::new()),
      Ty::S(_, t) => {
        let (a, b) = t.wrap();
        (format!("{}.init({a}", self.code()), format!("{b}, 0)"))
      }
      Ty::T(t) => {
        let (a, b) = t.wrap();
        (format!("({a}"), format!("{b}, 0)"))
      }
      Ty::V(t) => {
        let (a, b) = t.wrap();
        (format!("{}.Only({a}", self.code()), format!("{b})"))
      }
    }
  }
}

struct W {
  out: String,
  line: u32,
  col: u32,
  indent: usize,
  occs: Vec<Occ>,
  lits: i64,
  /// the form vector (spec/Scope.tla: one spelling per place, pre-order); places beyond it take the default
  forms: Vec<String>,
  next_form: usize,
  /// what was consumed: (kind of place, spelling)
  slots: Vec<(String, String)>,
  /// generated classes, by name
  decls: BTreeMap<String, String>,
}

/// abstract name of the specification -> identifier in the text (two characters, so that the first
/// and the last character of an occurrence are different query positions)
fn ident(n: &str) -> String {
  format!("{n}{n}")
}

fn default_form(kind: &str) -> &'static str {
  match kind {
    "lam0" | "lam1" | "lam2" => "call",
    "pat" | "let" => "I",
    "fld" => "S",
    k => panic!("unknown kind of place {k}"),
  }
}

impl W {
  fn w(&mut self, s: &str) {
    for ch in s.chars() {
      if ch == '\n' {
        self.line += 1;
        self.col = 0;
      } else {
        self.col += ch.len_utf8() as u32;
      }
    }
    self.out.push_str(s);
  }
  fn nl(&mut self) {
    self.w("\n");
    let pad = " ".repeat(self.indent * 2);
    self.w(&pad);
  }
  /// the spelling of the next place (of the given kind)
  fn form(&mut self, kind: &str) -> String {
    let f = match self.forms.get(self.next_form) {
      Some(f) => f.clone(),
      None => default_form(kind).to_string(),
    };
    self.next_form += 1;
    self.slots.push((kind.to_string(), f.clone()));
    f
  }
  /// the spelling of a pattern variable's place; none for the wildcard
  fn pform(&mut self, kind: &str, n: &str) -> String {
    if n == "_" {
      String::new()
    } else {
      self.form(kind)
    }
  }
  /// an identifier occurrence of the structure
  fn id(&mut self, n: &str) {
    let name = ident(n);
    self.occs.push(Occ { name: name.clone(), line: self.line, col: self.col, len: name.len() as u32 });
    self.w(&name);
  }
  /// the type a pattern variable's place matches (int for the wildcard)
  fn ty(&mut self, carrier: &str, n: &str) -> Ty {
    let t = if n == "_" { Ty::I } else { Ty::of(carrier, &ident(n)) };
    t.declare(&mut self.decls);
    t
  }
  /// a pattern variable in its carrier, or the wildcard
  fn pat(&mut self, carrier: &str, n: &str) {
    if n == "_" {
      self.w("_");
      return;
    }
    let mut cs = carrier.chars();
    match cs.next() {
      None | Some('I') => self.id(n),
      Some('H') => {
        // shorthand: the field is named like the variable
        self.w("{ ");
        self.id(n);
        self.w(", qq as _ }");
      }
      Some('S') => {
        self.w("{ pp as ");
        self.pat(cs.as_str(), n);
        self.w(", qq as _ }");
      }
      Some('T') => {
        self.w("(");
        self.pat(cs.as_str(), n);
        self.w(", _)");
      }
      Some('V') => {
        self.w("Only(");
        self.pat(cs.as_str(), n);
        self.w(")");
      }
      Some(c) => panic!("unknown carrier letter {c}"),
    }
  }
  /// an expression wrapped into a value of type `t`
  fn wrapped(&mut self, t: &Ty, e: &Value) {
    let (a, b) = t.wrap();
    self.w(&a);
    self.expr(e);
    self.w(&b);
  }
  /// class with variants `tags[i]` carrying `tys[i]` and `mk(sel, n)` choosing the variant by (sel + n) % len
  fn enum_class(&mut self, prefix: &str, tags: &[&str], tys: &[Ty]) -> String {
    let name = format!("{prefix}{}", tys.iter().map(|t| t.code()).collect::<String>());
    let variants: Vec<String> = tags.iter().zip(tys).map(|(g, t)| format!("{g}({})", t.text())).collect();
    let mut body = String::new();
    for (i, (g, t)) in tags.iter().zip(tys).enumerate() {
      let (a, b) = t.wrap();
      let make = format!("{{ {name}.{g}({a}n{b}) }}");
      if i + 1 < tags.len() {
        body.push_str(&format!("if r == {i} {make} else "));
      } else {
        body.push_str(&make);
      }
    }
    let decl = format!(
      "class {name}({}) {{\n  function mk(sel: int, n: int): {name} = {{\n    let s = sel + n;\n    let r = s % {};\n    {body}\n  }}\n}}\n",
      variants.join(", "),
      tags.len()
    );
    self.decls.insert(name.clone(), decl);
    name
  }
  fn s<'a>(t: &'a Value, f: &str) -> &'a str {
    t[f].as_str().unwrap_or_else(|| panic!("field {f} of {t}"))
  }
  /// `(x[: int], y[: int])` of a lambda; `ann[i]`: is parameter i annotated
  fn lam_params(&mut self, names: &[&str], ann: &[bool]) {
    self.w("(");
    for (i, n) in names.iter().enumerate() {
      if i > 0 {
        self.w(", ");
      }
      self.id(n);
      if ann[i] {
        self.w(": int");
      }
    }
    self.w(") -> ");
  }
  /// a lambda of `names` applied to `args`, in the spelling `form`
  fn lambda(&mut self, form: &str, names: &[&str], body: &Value, args: &[&Value]) {
    let ann: Vec<bool> = if form == "call" { vec![true; names.len()] } else { form.chars().map(|c| c == 'A').collect() };
    if form != "call" && !names.is_empty() && ann.len() != names.len() {
      panic!("spelling {form} of a lambda with {} parameters", names.len());
    }
    if form == "call" {
      self.w("(");
      self.lam_params(names, &ann);
      self.expr(body);
      self.w(")(");
    } else {
      self.w(&format!("T.app{}(", names.len()));
      self.lam_params(names, &ann);
      self.expr(body);
      if !args.is_empty() {
        self.w(", ");
      }
    }
    for (i, a) in args.iter().enumerate() {
      if i > 0 {
        self.w(", ");
      }
      self.expr(a);
    }
    self.w(")");
  }
  fn expr(&mut self, t: &Value) {
    match Self::s(t, "k") {
      "lit" => {
        self.lits += 1;
        let v = 10 + self.lits;
        self.w(&v.to_string());
      }
      "use" => self.id(Self::s(t, "x")),
      "blk" => {
        self.w("{");
        self.indent += 1;
        for it in t["items"].as_array().unwrap() {
          self.nl();
          self.item(it);
        }
        self.nl();
        self.expr(&t["fin"]);
        self.indent -= 1;
        self.nl();
        self.w("}");
      }
      "lam0" => {
        let f = self.form("lam0");
        self.lambda(&f, &[], &t["body"], &[]);
      }
      "lam" => {
        let f = self.form("lam1");
        self.lambda(&f, &[Self::s(t, "x")], &t["body"], &[&t["arg"]]);
      }
      "lam2" => {
        let f = self.form("lam2");
        self.lambda(&f, &[Self::s(t, "x"), Self::s(t, "y")], &t["body"], &[&t["a1"], &t["a2"]]);
      }
      "mat" => {
        let (x, y) = (Self::s(t, "x"), Self::s(t, "y"));
        let (cx, cy) = (self.pform("pat", x), self.pform("pat", y));
        let tys = [self.ty(&cx, x), self.ty(&cy, y)];
        let cls = self.enum_class("E", &["A", "B"], &tys);
        self.w(&format!("match {cls}.mk(sel, "));
        self.expr(&t["scrut"]);
        self.w(") {");
        self.indent += 1;
        self.nl();
        self.w("A(");
        self.pat(&cx, x);
        self.w(") -> ");
        self.expr(&t["ba"]);
        self.w(",");
        self.nl();
        self.w("B(");
        self.pat(&cy, y);
        self.w(") -> ");
        self.expr(&t["bb"]);
        self.w(",");
        self.indent -= 1;
        self.nl();
        self.w("}");
      }
      "mor" => {
        let x = Self::s(t, "x");
        let (c1, c2) = (self.form("pat"), self.form("pat"));
        let tys = [self.ty(&c1, x), self.ty(&c2, x)];
        let cls = self.enum_class("E", &["A", "B"], &tys);
        self.w(&format!("match {cls}.mk(sel, "));
        self.expr(&t["scrut"]);
        self.w(") {");
        self.indent += 1;
        self.nl();
        self.w("A(");
        self.pat(&c1, x);
        self.w(") | B(");
        self.pat(&c2, x);
        self.w(") -> ");
        self.expr(&t["body"]);
        self.w(",");
        self.indent -= 1;
        self.nl();
        self.w("}");
      }
      "mor3" => {
        let x = Self::s(t, "x");
        let (c1, c2, c3) = (self.form("pat"), self.form("pat"), self.form("pat"));
        let tys = [self.ty(&c1, x), self.ty(&c2, x), self.ty(&c3, x)];
        let cls = self.enum_class("G", &["U", "V", "W"], &tys);
        self.w(&format!("match ({cls}.mk(sel, "));
        self.expr(&t["scrut"]);
        self.w("), 0) {");
        self.indent += 1;
        self.nl();
        self.w("(U(");
        self.pat(&c1, x);
        self.w("), _) | (V(");
        self.pat(&c2, x);
        self.w(") | W(");
        self.pat(&c3, x);
        self.w("), _) -> ");
        self.expr(&t["body"]);
        self.w(",");
        self.indent -= 1;
        self.nl();
        self.w("}");
      }
      "ifl" => {
        let x = Self::s(t, "x");
        let c = self.form("pat");
        let tys = [Ty::I, self.ty(&c, x)];
        // variant None carries nothing: declared here
        let name = format!("O{}", tys[1].code());
        let (a, b) = tys[1].wrap();
        let decl = format!(
          "class {name}(None, Some({})) {{\n  function mk(sel: int, n: int): {name} = {{\n    let s = sel + n;\n    let r = s % 2;\n    if r == 0 {{ {name}.Some({a}n{b}) }} else {{ {name}.None() }}\n  }}\n}}\n",
          tys[1].text()
        );
        self.decls.insert(name.clone(), decl);
        self.w("if let Some(");
        self.pat(&c, x);
        self.w(&format!(") = {name}.mk(sel, "));
        self.expr(&t["scrut"]);
        self.w(") {");
        self.indent += 1;
        self.nl();
        self.expr(&t["th"]);
        self.indent -= 1;
        self.nl();
        self.w("} else {");
        self.indent += 1;
        self.nl();
        self.expr(&t["el"]);
        self.indent -= 1;
        self.nl();
        self.w("}");
      }
      k => panic!("unknown expression kind {k}"),
    }
  }
  fn item(&mut self, t: &Value) {
    match Self::s(t, "k") {
      "let" => {
        let x = Self::s(t, "x");
        if x == "_" {
          // a use statement: the value is shown, so that it is part of the observable behaviour
          self.w("let _ = T.show(");
          self.expr(&t["init"]);
          self.w(");");
        } else {
          let c = self.form("let");
          if c == "ann" {
            self.w("let ");
            self.id(x);
            self.w(": int = ");
            self.expr(&t["init"]);
          } else {
            let ty = self.ty(&c, x);
            self.w("let ");
            self.pat(&c, x);
            self.w(" = ");
            self.wrapped(&ty, &t["init"]);
          }
          self.w(";");
        }
      }
      "ltup" => {
        let (x, y) = (Self::s(t, "x"), Self::s(t, "y"));
        let (cx, cy) = (self.pform("pat", x), self.pform("pat", y));
        let (tx, ty) = (self.ty(&cx, x), self.ty(&cy, y));
        self.w("let (");
        self.pat(&cx, x);
        self.w(", ");
        self.pat(&cy, y);
        self.w(") = (");
        self.wrapped(&tx, &t["i1"]);
        self.w(", ");
        self.wrapped(&ty, &t["i2"]);
        self.w(");");
      }
      "lstr" => {
        // x is bound to the first field, y to the second; "_" = the wildcard (every field must be
        // mentioned by a pattern).  Spelling "H": shorthand, the field is named like the variable;
        // "S" + carrier: `pp as <carrier>`.
        let (x, y) = (Self::s(t, "x"), Self::s(t, "y"));
        let (fx, fy) = (self.pform("fld", x), self.pform("fld", y));
        // (field name, field type, None = shorthand / Some(carrier after `as`))
        let mut fields: Vec<(String, Ty, Option<String>)> = vec![];
        for (default, v, f) in [("pp", x, &fx), ("qq", y, &fy)] {
          if v == "_" {
            fields.push((default.to_string(), Ty::I, Some(String::new())));
          } else if f == "H" {
            fields.push((ident(v), Ty::I, None));
          } else {
            let rest = f.strip_prefix('S').unwrap_or_else(|| panic!("spelling {f} of a struct field"));
            let ty = self.ty(rest, v);
            fields.push((default.to_string(), ty, Some(rest.to_string())));
          }
        }
        let cls = format!("R{}{}{}{}", cap(&fields[0].0), fields[0].1.code(), cap(&fields[1].0), fields[1].1.code());
        self.decls.insert(
          cls.clone(),
          format!("class {cls}(val {}: {}, val {}: {}) {{}}\n", fields[0].0, fields[0].1.text(), fields[1].0, fields[1].1.text()),
        );
        self.w("let { ");
        for (i, v) in [x, y].iter().enumerate() {
          if i > 0 {
            self.w(", ");
          }
          let (field, _, carrier) = fields[i].clone();
          match carrier {
            None => self.id(v),
            Some(c) => {
              self.w(&field);
              self.w(" as ");
              self.pat(&c, v);
            }
          }
        }
        self.w(&format!(" }} = {cls}.init("));
        let (t1, t2) = (fields[0].1.clone(), fields[1].1.clone());
        self.wrapped(&t1, &t["i1"]);
        self.w(", ");
        self.wrapped(&t2, &t["i2"]);
        self.w(");");
      }
      k => panic!("unknown item kind {k}"),
    }
  }
}

pub struct Rendered {
  pub text: String,
  pub occs: Vec<Occ>,
  /// the places where the spelling varies, as met (pre-order), and the spelling taken
  pub slots: Vec<(String, String)>,
}

const PRELUDE: &str = "import { Pair } from std.tuples;

class T {
  function show(n: int): int = {
    Process.println(Str.fromInt(n));
    n
  }

  function app0(g: () -> int): int = g()

  function app1(g: (int) -> int, v: int): int = g(v)

  function app2(g: (int, int) -> int, v: int, w: int): int = g(v, w)

";

/// {"params": [names], "body": blk} and a form vector -> module text + the structure's identifier
/// occurrences in text order
pub fn render(t: &Value, forms: &[String]) -> Rendered {
  let mut w = W {
    out: String::new(),
    line: 0,
    col: 0,
    indent: 1,
    occs: vec![],
    lits: 0,
    forms: forms.to_vec(),
    next_form: 0,
    slots: vec![],
    decls: BTreeMap::new(),
  };
  w.w(PRELUDE);
  w.w("  function f(sel: int");
  let params: Vec<String> = t["params"].as_array().map(|a| a.iter().map(|x| x.as_str().unwrap().to_string()).collect()).unwrap_or_default();
  for p in &params {
    w.w(", ");
    w.id(p);
    w.w(": int");
  }
  w.w("): int = ");
  w.expr(&t["body"]);
  w.w("\n}\n\nclass Main {\n  function main(): unit = {\n");
  for j in 0..4i64 {
    let mut args = vec![(j % 2).to_string()];
    for i in 0..params.len() as i64 {
      args.push((1 + i + 3 * j + (j / 2) * (i % 2)).to_string());
    }
    w.w(&format!("    Process.println(Str.fromInt(T.f({})));\n", args.join(", ")));
  }
  w.w("  }\n}\n");
  // the classes the spellings need (after the function: positions above do not depend on them)
  let decls: Vec<String> = w.decls.values().cloned().collect();
  for d in decls {
    w.w("\n");
    w.w(&d);
  }
  Rendered { text: w.out, occs: w.occs, slots: w.slots }
}

// ---------------------------------------------------------------------------------------------
// the real services
// ---------------------------------------------------------------------------------------------

fn mref(heap: &mut Heap, name: &str) -> ModuleReference {
  heap.alloc_module_reference_from_string_vec(name.split('.').map(|s| s.to_string()).collect())
}

pub struct Ws {
  pub state: ServerState,
  pub names: BTreeMap<String, ModuleReference>,
}

impl Ws {
  pub fn new(sources: &BTreeMap<String, String>) -> Result<Ws, String> {
    guarded(|| {
      let mut heap = Heap::new();
      let mut names = BTreeMap::new();
      let mut hs = HashMap::new();
      for (n, t) in sources {
        let m = mref(&mut heap, n);
        names.insert(n.clone(), m);
        hs.insert(m, t.clone());
      }
      Ws { state: ServerState::new(heap, false, hs), names }
    })
  }

  /// all diagnostics of the workspace, rendered, sorted
  pub fn diagnostics(&self) -> Result<Vec<String>, String> {
    guarded(|| {
      let mut v = vec![];
      for m in self.names.values() {
        for e in self.state.get_errors(m) {
          let ide = e.to_ide_format(&self.state.heap, &self.state.string_sources);
          let class = if e.is_syntax_error() { "syntax" } else { "type" };
          v.push(format!("{class}|{}: {}", e.location.pretty_print(&self.state.heap), ide.ide_error.trim()));
        }
      }
      v.sort();
      v
    })
  }

  pub fn has_syntax_error(&self) -> bool {
    self.names.values().any(|m| self.state.get_errors(m).iter().any(|e| e.is_syntax_error()))
  }
}

fn loc_json(l: &Location) -> Value {
  json!([l.start.0, l.start.1, l.end.0, l.end.1])
}

/// answers are recorded as [l, c, l, c]; a location in another module as [-2, -2, -2, -2];
/// a panic as [-1, -1, -1, -1] plus an entry in `panics`
fn loc_in(l: &Location, m: &ModuleReference) -> Value {
  if l.module_reference == *m {
    loc_json(l)
  } else {
    json!([-2, -2, -2, -2])
  }
}

/// [l, c, l, c] of the definition, [] when there is none
fn def_at(ws: &Ws, m: &ModuleReference, line: u32, col: u32, panics: &mut Vec<String>) -> Value {
  match guarded(|| query::definition_location(&ws.state, m, Position(line, col))) {
    Ok(Some(l)) => loc_in(&l, m),
    Ok(None) => json!([]),
    Err(p) => {
      panics.push(format!("definition_location({line},{col}): {p}"));
      json!([-1, -1, -1, -1])
    }
  }
}

fn refs_at(ws: &Ws, m: &ModuleReference, line: u32, col: u32, panics: &mut Vec<String>) -> Value {
  match guarded(|| query::all_references(&ws.state, m, Position(line, col))) {
    Ok(v) => json!(v.iter().map(|l| loc_in(l, m)).collect::<Vec<_>>()),
    Err(p) => {
      panics.push(format!("all_references({line},{col}): {p}"));
      json!([[-1, -1, -1, -1]])
    }
  }
}

fn rename_at(ws: &mut Ws, m: &ModuleReference, line: u32, col: u32, new_name: &str) -> Result<Option<String>, String> {
  guarded(|| rewrite::rename(&mut ws.state, m, Position(line, col), new_name))
}

/// digest of a text (FNV-1a, 64 bit): texts are compared by the specification through their digests
fn digest(t: &str) -> String {
  let mut h: u64 = 0xcbf29ce484222325;
  for b in t.as_bytes() {
    h ^= *b as u64;
    h = h.wrapping_mul(0x100000001b3);
  }
  format!("{h:016x}")
}

/// position (line, byte col) of the first whole-word occurrence of `word` in `text`
fn find_word(text: &str, word: &str) -> Option<(u32, u32)> {
  for (li, l) in text.lines().enumerate() {
    let b = l.as_bytes();
    let mut from = 0;
    while let Some(i) = l[from..].find(word) {
      let s = from + i;
      let e = s + word.len();
      let before_ok = s == 0 || !(b[s - 1].is_ascii_alphanumeric() || b[s - 1] == b'_');
      let after_ok = e >= b.len() || !(b[e].is_ascii_alphanumeric() || b[e] == b'_');
      if before_ok && after_ok {
        return Some((li as u32, s as u32));
      }
      from = s + 1;
    }
  }
  None
}

/// {"opt<b>": {"status", "out": [lines], "end"}} for every requested build (WebAssembly back end)
fn run_text(sources: &BTreeMap<String, String>, entry: &str, builds: &[u8], with_std: bool) -> Value {
  let mut out = serde_json::Map::new();
  for b in builds {
    let key = format!("opt{b}");
    let v = match compile(sources, entry, OptBits(*b), with_std) {
      Outcome::Rejected { errors, .. } => json!({"status": "rejected", "out": [], "end": format!("{} errors", errors.len())}),
      Outcome::Crashed { stage, message } => json!({"status": "crashed", "out": [], "end": format!("{stage}: {message}")}),
      Outcome::Compiled(c) => match wasm_interp::run_wasm(&c.wasm, &c.main_fn, 20_000_000) {
        Ok(r) => json!({"status": "ok", "out": r.out, "end": serde_json::to_string(&r.end).unwrap()}),
        Err(e) => json!({"status": "tool-error", "out": [], "end": e}),
      },
    };
    out.insert(key, v);
  }
  Value::Object(out)
}

/// What the property says about one renamed document `new_text` of module `mname`:
/// parses, diagnostics (modulo the name), behaviour, and the text renaming back yields
/// (`back`: digest of that text, or why there is none).
fn judge_renamed(
  sources: &BTreeMap<String, String>,
  mname: &str,
  new_text: &str,
  old_name: &str,
  entry: Option<&str>,
  builds: &[u8],
  full: bool,
) -> Value {
  let mut s2 = sources.clone();
  s2.insert(mname.to_string(), new_text.to_string());
  let mut rec = json!({"parses": false, "diag": [], "back": "none", "run": {}});
  if full {
    rec["text"] = json!(new_text);
  }
  let mut ws2 = match Ws::new(&s2) {
    Ok(w) => w,
    Err(p) => {
      rec["diag"] = json!([format!("panic: {p}")]);
      return rec;
    }
  };
  rec["parses"] = json!(!ws2.has_syntax_error());
  match ws2.diagnostics() {
    // modulo the name: the fresh name is read as the old one
    Ok(d) => rec["diag"] = json!(d.iter().map(|x| x.replace(FRESH, old_name)).collect::<Vec<_>>()),
    Err(p) => rec["diag"] = json!([format!("panic: {p}")]),
  }
  if let Some(entry) = entry {
    rec["run"] = run_text(&s2, entry, builds, false);
  }
  // rename back: the query position is found again in the new text
  let m2 = ws2.names[mname];
  match find_word(new_text, FRESH) {
    None => rec["back"] = json!("fresh name not in the renamed text"),
    Some((l, c)) => match rename_at(&mut ws2, &m2, l, c, old_name) {
      Ok(Some(t)) => {
        rec["back"] = json!(digest(&t));
        if full {
          rec["back_text"] = json!(t);
        }
      }
      Ok(None) => rec["back"] = json!("refused"),
      Err(p) => rec["back"] = json!(format!("panic: {p}")),
    },
  }
  rec
}

// ---------------------------------------------------------------------------------------------
// vh scope-run
// ---------------------------------------------------------------------------------------------

fn std_tuples() -> String {
  let mut heap = Heap::new();
  let srcs = samlang_parser::builtin_std_raw_sources(&mut heap);
  srcs.iter().find(|(m, _)| m.pretty_print(&heap) == "std.tuples").map(|(_, t)| t.clone()).expect("std.tuples")
}

/// One record per structure (schema: spec/ScopeTrace.tla).  `full` adds the texts (replay / diagnosis).
pub fn observe_tree(t: &Value, forms: &[String], builds: &[u8], do_run: bool, full: bool) -> Value {
  let r = render(t, forms);
  let mname = "M";
  let mut sources = BTreeMap::new();
  sources.insert(mname.to_string(), r.text.clone());
  // tuples are instances of std.tuples.Pair
  sources.insert("std.tuples".to_string(), std_tuples());
  let mut rec = json!({"t": t, "nocc": r.occs.len(), "accepted": false, "diag": [], "fmt": "none", "run": {},
                       "slots": r.slots.iter().map(|x| x.0.clone()).collect::<Vec<_>>(),
                       "forms": r.slots.iter().map(|x| x.1.clone()).collect::<Vec<_>>(),
                       "occ": [], "ren": [], "panics": []});
  if full {
    rec["text"] = json!(r.text);
  }
  let mut panics: Vec<String> = vec![];
  let mut ws = match Ws::new(&sources) {
    Ok(w) => w,
    Err(p) => {
      rec["panics"] = json!([format!("ServerState::new: {p}")]);
      return rec;
    }
  };
  let m = ws.names[mname];
  let diag = ws.diagnostics().unwrap_or_else(|p| vec![format!("panic: {p}")]);
  rec["accepted"] = json!(diag.is_empty());
  rec["diag"] = json!(diag);
  if !diag.is_empty() {
    // the property quantifies over accepted programs
    return rec;
  }
  // the formatted original: rename returns re-printed text, so this is what renaming back must restore
  match guarded(|| rewrite::format_entire_document(&ws.state, &m)) {
    Ok(Some(fmt)) => {
      rec["fmt"] = json!(digest(&fmt));
      if full {
        rec["fmt_text"] = json!(fmt);
      }
    }
    Ok(None) => rec["fmt"] = json!("refused"),
    Err(p) => panics.push(format!("format_entire_document: {p}")),
  }
  if do_run {
    rec["run"] = run_text(&sources, mname, builds, false);
  }
  let mut occs = vec![];
  // distinct renamed texts, judged once each
  let mut texts: Vec<String> = vec![];
  let mut judged: Vec<Value> = vec![];
  for o in &r.occs {
    let last = o.col + o.len - 1;
    let mut oj = json!({
      "n": o.name, "loc": [o.line, o.col, o.line, o.col + o.len],
      // asked at the first and at the last character of the identifier
      "def": def_at(&ws, &m, o.line, o.col, &mut panics), "def2": def_at(&ws, &m, o.line, last, &mut panics),
      "refs": refs_at(&ws, &m, o.line, o.col, &mut panics), "refs2": refs_at(&ws, &m, o.line, last, &mut panics),
      "ren": 0,
    });
    match rename_at(&mut ws, &m, o.line, last, FRESH) {
      Ok(Some(nt)) => {
        let k = match texts.iter().position(|x| *x == nt) {
          Some(k) => k,
          None => {
            judged.push(judge_renamed(&sources, mname, &nt, &o.name, if do_run { Some(mname) } else { None }, builds, full));
            texts.push(nt);
            texts.len() - 1
          }
        };
        oj["ren"] = json!(k + 1);
      }
      Ok(None) => {}
      Err(p) => panics.push(format!("rename({},{}): {p}", o.line, last)),
    }
    occs.push(oj);
  }
  rec["occ"] = json!(occs);
  rec["ren"] = json!(judged);
  rec["panics"] = json!(panics);
  rec
}

pub fn run(args: &[String]) {
  silence_panics();
  let input = std::fs::read_to_string(arg(args, "--in").expect("--in")).unwrap();
  let out = arg(args, "--out").expect("--out");
  let builds: Vec<u8> = arg_or(args, "--builds", "0,31").split(',').map(|b| b.trim().parse().unwrap()).collect();
  let do_run = !flag(args, "--no-run");
  let full = flag(args, "--full");
  let mut f = std::io::BufWriter::new(std::fs::File::create(&out).unwrap());
  let (mut n, mut accepted, mut occs, mut renames) = (0usize, 0usize, 0usize, 0usize);
  for line in input.lines() {
    if line.trim().is_empty() {
      continue;
    }
    let v: Value = serde_json::from_str(line).unwrap();
    // a line is either the structure itself or {"id":.., "t": structure}
    let t = if v.get("t").is_some() { v["t"].clone() } else { v.clone() };
    let forms: Vec<String> = v.get("forms").and_then(|x| serde_json::from_value(x.clone()).ok()).unwrap_or_default();
    // {"run": false} on a line: navigation and rename only, no compile-and-run
    let mut rec = observe_tree(&t, &forms, &builds, do_run && v.get("run").and_then(|x| x.as_bool()).unwrap_or(true), full);
    rec["id"] = v.get("id").cloned().unwrap_or(json!(n + 1));
    n += 1;
    if rec["accepted"] == json!(true) {
      accepted += 1;
    }
    occs += rec["occ"].as_array().map(|a| a.len()).unwrap_or(0);
    renames += rec["ren"].as_array().map(|a| a.len()).unwrap_or(0);
    writeln!(f, "{}", rec).unwrap();
  }
  f.flush().unwrap();
  println!("{}", json!({"structures": n, "accepted": accepted, "occurrences": occs, "renamed_documents": renames}));
}

pub fn show(args: &[String]) {
  silence_panics();
  let t: Value = serde_json::from_str(&arg(args, "--tree").expect("--tree")).unwrap();
  let forms: Vec<String> = match arg(args, "--forms") {
    Some(f) => serde_json::from_str(&f).unwrap(),
    None => t.get("forms").and_then(|x| serde_json::from_value(x.clone()).ok()).unwrap_or_default(),
  };
  let t = if t.get("t").is_some() { t["t"].clone() } else { t };
  let rec = observe_tree(&t, &forms, &[0], true, true);
  println!("{}", rec["text"].as_str().unwrap());
  let mut r = rec.clone();
  for k in ["text", "fmt_text", "t"] {
    r.as_object_mut().unwrap().remove(k);
  }
  println!("{}", serde_json::to_string_pretty(&r).unwrap());
}

// ---------------------------------------------------------------------------------------------
// vh scope-real: local-variable occurrences of real programs
// ---------------------------------------------------------------------------------------------

#[derive(Clone)]
struct RealOcc {
  loc: Location,
  /// "param" | "pat" | "lam" | "sig" (binding positions) | "use"
  kind: &'static str,
}

struct Walker<'a> {
  heap: &'a Heap,
  occs: Vec<RealOcc>,
}

impl Walker<'_> {
  fn pat(&mut self, p: &pattern::MatchingPattern<()>) {
    match p {
      pattern::MatchingPattern::Tuple(t) => {
        for e in &t.elements {
          self.pat(&e.pattern);
        }
      }
      pattern::MatchingPattern::Object { elements, .. } => {
        for e in elements {
          self.pat(&e.pattern);
        }
      }
      pattern::MatchingPattern::Variant(v) => {
        if let Some(t) = &v.data_variables {
          for e in &t.elements {
            self.pat(&e.pattern);
          }
        }
      }
      pattern::MatchingPattern::Id(id, ()) => self.occs.push(RealOcc { loc: id.loc, kind: "pat" }),
      pattern::MatchingPattern::Wildcard { .. } => {}
      pattern::MatchingPattern::Or { patterns, .. } => {
        for p in patterns {
          self.pat(p);
        }
      }
    }
  }
  fn block(&mut self, b: &expr::Block<()>) {
    for s in &b.statements {
      match s {
        expr::Statement::Declaration(d) => {
          self.pat(&d.pattern);
          self.expr(&d.assigned_expression);
        }
        expr::Statement::Expression(e) => self.expr(e),
      }
    }
    if let Some(e) = &b.expression {
      self.expr(e);
    }
  }
  fn if_else(&mut self, e: &expr::IfElse<()>) {
    match e.condition.as_ref() {
      expr::IfElseCondition::Expression(c) => self.expr(c),
      expr::IfElseCondition::Guard(p, c) => {
        self.pat(p);
        self.expr(c);
      }
    }
    self.block(&e.e1);
    match e.e2.as_ref() {
      expr::IfElseOrBlock::IfElse(e) => self.if_else(e),
      expr::IfElseOrBlock::Block(b) => self.block(b),
    }
  }
  fn expr(&mut self, e: &expr::E<()>) {
    match e {
      expr::E::Literal(_, _) | expr::E::ClassId(_, _, _) => {}
      expr::E::LocalId(_, id) => {
        if id.name.as_str(self.heap) != "this" {
          self.occs.push(RealOcc { loc: id.loc, kind: "use" });
        }
      }
      expr::E::Tuple(_, es) => {
        for e in &es.expressions {
          self.expr(e);
        }
      }
      expr::E::FieldAccess(e) => self.expr(&e.object),
      expr::E::MethodAccess(e) => self.expr(&e.object),
      expr::E::Unary(e) => self.expr(&e.argument),
      expr::E::Call(e) => {
        self.expr(&e.callee);
        for a in &e.arguments.expressions {
          self.expr(a);
        }
      }
      expr::E::Binary(e) => {
        self.expr(&e.e1);
        self.expr(&e.e2);
      }
      expr::E::IfElse(e) => self.if_else(e),
      expr::E::Match(e) => {
        self.expr(&e.matched);
        for c in &e.cases {
          self.pat(&c.pattern);
          self.expr(&c.body);
        }
      }
      expr::E::Lambda(e) => {
        for p in &e.parameters.parameters {
          self.occs.push(RealOcc { loc: p.name.loc, kind: "lam" });
        }
        self.expr(&e.body);
      }
      expr::E::Block(b) => self.block(b),
    }
  }
  fn module(&mut self, m: &Module<()>) {
    for t in &m.toplevels {
      match t {
        Toplevel::Class(c) => {
          for mem in &c.members.members {
            for p in mem.decl.parameters.parameters.iter() {
              self.occs.push(RealOcc { loc: p.name.loc, kind: "param" });
            }
            self.expr(&mem.body);
          }
        }
        // the parameters of a method signature (no body, so no uses): navigation is recorded; they are
        // not renamed (rename returns the document unchanged for them, which the property allows)
        Toplevel::Interface(i) => {
          for mem in &i.members.members {
            for p in mem.parameters.parameters.iter() {
              self.occs.push(RealOcc { loc: p.name.loc, kind: "sig" });
            }
          }
        }
      }
    }
  }
}

fn text_at(text: &str, l: &Location) -> String {
  if l.start.0 != l.end.0 {
    return String::new();
  }
  text
    .lines()
    .nth(l.start.0 as usize)
    .and_then(|x| x.get(l.start.1 as usize..l.end.1 as usize))
    .unwrap_or("")
    .to_string()
}

/// One record per module (schema: spec/ScopeTrace.tla, the `Real*` invariants): every
/// local-variable occurrence (parameters, pattern variables, lambda parameters, uses; not `this`)
/// in text order with its name, kind, and the answers translated to occurrence indices
/// (`d`: index of the definition, 0 = no answer / not an occurrence; `r`: indices of the references,
/// `ru`: how many reference locations are not occurrences), and for a seeded sample of the
/// bindings the rename round trip.
#[allow(clippy::too_many_arguments)]
pub fn observe_module(
  ws: &mut Ws,
  sources: &BTreeMap<String, String>,
  mname: &str,
  origin: &str,
  max_renames: usize,
  rng: &mut Rng,
  run_entry: Option<&str>,
  base_run: &Value,
  builds: &[u8],
  full: bool,
) -> Value {
  let text = sources[mname].clone();
  let m = ws.names[mname];
  // the module's own parse tree, for the identifier positions
  let mut heap = Heap::new();
  let mr = mref(&mut heap, mname);
  let mut es = samlang_errors::ErrorSet::new();
  let parsed = samlang_parser::parse_source_module_from_text(&text, mr, &mut heap, &mut es);
  let mut w = Walker { heap: &heap, occs: vec![] };
  w.module(&parsed);
  let mut occs = w.occs;
  occs.sort_by_key(|o| (o.loc.start.0, o.loc.start.1));
  let mut panics: Vec<String> = vec![];
  let index: HashMap<(u32, u32, u32, u32), usize> =
    occs.iter().enumerate().map(|(i, o)| ((o.loc.start.0, o.loc.start.1, o.loc.end.0, o.loc.end.1), i + 1)).collect();
  let idx = |v: &Value| -> usize {
    let a: Vec<i64> = v.as_array().map(|a| a.iter().map(|x| x.as_i64().unwrap_or(-9)).collect()).unwrap_or_default();
    if a.len() != 4 || a[0] < 0 {
      return 0;
    }
    index.get(&(a[0] as u32, a[1] as u32, a[2] as u32, a[3] as u32)).copied().unwrap_or(0)
  };
  let mut oj = vec![];
  for o in &occs {
    let (l, c) = (o.loc.start.0, o.loc.start.1);
    let def = def_at(ws, &m, l, c, &mut panics);
    let refs = refs_at(ws, &m, l, c, &mut panics);
    let ri: Vec<usize> = refs.as_array().unwrap().iter().map(&idx).collect();
    let mut known: Vec<usize> = ri.iter().copied().filter(|x| *x > 0).collect();
    known.sort();
    oj.push(json!({
      "n": text_at(&text, &o.loc), "kind": o.kind, "loc": loc_json(&o.loc),
      "d": idx(&def), "r": known, "ru": ri.iter().filter(|x| **x == 0).count(), "rn": ri.len(),
    }));
  }
  let mut rec = json!({"origin": origin, "module": mname, "nocc": occs.len(), "occ": oj});
  // rename round trips on a sample of the bindings
  let mut fmt_text: Option<String> = None;
  match guarded(|| rewrite::format_entire_document(&ws.state, &m)) {
    Ok(Some(fmt)) => {
      rec["fmt"] = json!(digest(&fmt));
      if full {
        rec["fmt_text"] = json!(fmt);
      }
      fmt_text = Some(fmt);
    }
    Ok(None) => rec["fmt"] = json!("refused"),
    Err(p) => {
      rec["fmt"] = json!("none");
      panics.push(format!("format_entire_document: {p}"));
    }
  }
  rec["diag"] = json!(ws.diagnostics().unwrap_or_else(|p| vec![format!("panic: {p}")]));
  // (VH_SCOPE_RENAME_SIG=1, development aid: also rename the parameters of method signatures)
  let with_sig = std::env::var("VH_SCOPE_RENAME_SIG").is_ok();
  let mut pool: Vec<usize> = (0..occs.len()).filter(|i| occs[*i].kind != "use" && (with_sig || occs[*i].kind != "sig")).collect();
  let mut chosen: Vec<usize> = vec![];
  while chosen.len() < max_renames && !pool.is_empty() {
    let k = rng.below(pool.len());
    chosen.push(pool.swap_remove(k));
  }
  chosen.sort();
  let mut rens = vec![];
  let already_fresh = find_word(&text, FRESH).is_some();
  for i in chosen {
    if already_fresh {
      break;
    }
    let o = &occs[i];
    let old = text_at(&text, &o.loc);
    let mut r = json!({"i": i + 1, "n": old, "ok": false, "b": base_run, "j": {"parses": false, "diag": [], "back": "none", "run": {}}});
    match rename_at(ws, &m, o.loc.start.0, o.loc.start.1, FRESH) {
      Ok(Some(nt)) => {
        r["ok"] = json!(true);
        r["j"] = judge_renamed(sources, mname, &nt, &old, run_entry, builds, full);
        // the renamed document, for the behaviour runs the check performs itself on large corpora
        r["text"] = json!(nt);
      }
      Ok(None) => {}
      Err(p) => panics.push(format!("rename({},{}): {p}", o.loc.start.0, o.loc.start.1)),
    }
    rens.push(r);
  }
  // rename returns re-printed text.  When re-printing alone already changes what the checker (or a
  // run) says about the module, that is the formatter's doing (property C08), not rename's: the
  // formatted original is observed too -- always for generated programs, otherwise when a rename
  // produced other diagnostics -- so that the specification can tell the two apart.
  let some_rename_differs = rens.iter().any(|r| r["ok"] == json!(true) && (r["j"]["parses"] != json!(true) || r["j"]["diag"] != rec["diag"]));
  rec["run"] = base_run.clone();
  rec["fmt_diag"] = rec["diag"].clone();
  rec["fmt_run"] = base_run.clone();
  rec["fmt_observed"] = json!(false);
  if let (true, Some(fmt)) = (run_entry.is_some() || some_rename_differs, &fmt_text) {
    let mut s2 = sources.clone();
    s2.insert(mname.to_string(), fmt.clone());
    if let Ok(ws2) = Ws::new(&s2) {
      rec["fmt_observed"] = json!(true);
      rec["fmt_diag"] = json!(ws2.diagnostics().unwrap_or_else(|p| vec![format!("panic: {p}")]));
      if let Some(entry) = run_entry {
        rec["fmt_run"] = run_text(&s2, entry, builds, false);
      }
    }
  }
  rec["ren"] = json!(rens);
  rec["panics"] = json!(panics);
  rec
}

/// `vh scope-real --out F [--no-repo] [--gen PROGRAMS.ndjson] [--max-renames N] [--seed S] [--modules tests.A,tests.B]`
pub fn real(args: &[String]) {
  silence_panics();
  let out = arg(args, "--out").expect("--out");
  let max_renames: usize = arg_or(args, "--max-renames", "3").parse().unwrap();
  let seed: u64 = arg_or(args, "--seed", "1").parse().unwrap();
  // the sample of bindings renamed in a module depends on the seed and the module only (replayable alone)
  let rng_for = |name: &str| Rng::new(seed ^ name.bytes().fold(0xcbf29ce484222325u64, |h, b| (h ^ b as u64).wrapping_mul(0x100000001b3)));
  let builds: Vec<u8> = arg_or(args, "--builds", "31").split(',').map(|b| b.trim().parse().unwrap()).collect();
  let only: Option<Vec<String>> = arg(args, "--modules").map(|s| s.split(',').map(|x| x.to_string()).collect());
  let full = flag(args, "--full");
  let mut f = std::io::BufWriter::new(std::fs::File::create(&out).unwrap());
  let (mut modules, mut occs, mut renames) = (0usize, 0usize, 0usize);
  let mut skipped = 0usize;
  let mut emit = |rec: Value, f: &mut std::io::BufWriter<std::fs::File>| {
    modules += 1;
    occs += rec["occ"].as_array().map(|a| a.len()).unwrap_or(0);
    renames += rec["ren"].as_array().map(|a| a.len()).unwrap_or(0);
    writeln!(f, "{}", rec).unwrap();
  };
  if !flag(args, "--no-repo") {
    // the repository's tests (tests.* and the on-disk std.*) as one workspace
    let sources = crate::compile::repo_tests_sources();
    let mut ws = Ws::new(&sources).expect("server on /repo/tests");
    let names: Vec<String> = sources.keys().filter(|n| n.starts_with("tests.")).cloned().collect();
    for n in names {
      if let Some(only) = &only {
        if !only.contains(&n) {
          continue;
        }
      }
      // behaviour of the whole corpus is run by the check (progcommon.run_programs) on the `text`s
      let rec = observe_module(&mut ws, &sources, &n, &format!("repo:{n}"), max_renames, &mut rng_for(&n), None, &json!({}), &builds, full);
      emit(rec, &mut f);
    }
  }
  if let Some(gen) = arg(args, "--gen") {
    // generated programs: {"sources": {module: text}, "entry": module, "with_std": bool}
    for line in std::fs::read_to_string(gen).unwrap().lines() {
      if line.trim().is_empty() {
        continue;
      }
      let p: Value = serde_json::from_str(line).unwrap();
      let user: BTreeMap<String, String> = serde_json::from_value(p["sources"].clone()).unwrap();
      let entry = p["entry"].as_str().unwrap_or("").to_string();
      let with_std = p["with_std"].as_bool().unwrap_or(true);
      let mut all = user.clone();
      if with_std {
        let mut heap = Heap::new();
        for (m, t) in samlang_parser::builtin_std_raw_sources(&mut heap) {
          all.entry(m.pretty_print(&heap)).or_insert(t);
        }
      }
      let mut ws = match Ws::new(&all) {
        Ok(w) => w,
        Err(_) => continue,
      };
      let d0 = ws.diagnostics().unwrap_or_else(|p| vec![format!("panic: {p}")]);
      if !d0.is_empty() {
        // the property quantifies over accepted programs
        skipped += 1;
        if flag(args, "--verbose") {
          eprintln!("skipped {}: {:?}", p["origin"], d0);
        }
        continue;
      }
      let origin = format!("gen:{}", p["origin"].as_str().unwrap_or("?"));
      let base = run_text(&all, &entry, &builds, false);
      for n in user.keys() {
        let rec = observe_module(&mut ws, &all, n, &origin, max_renames, &mut rng_for(&format!("{origin}/{n}")), Some(&entry), &base, &builds, full);
        emit(rec, &mut f);
      }
    }
  }
  f.flush().unwrap();
  println!("{}", json!({"modules": modules, "occurrences": occs, "renames": renames, "programs_not_accepted": skipped}));
}
