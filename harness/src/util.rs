//! Small shared helpers: argument parsing, a seeded RNG, panic capture.
use std::cell::RefCell;

pub fn arg(args: &[String], name: &str) -> Option<String> {
  args.iter().position(|a| a == name).and_then(|i| args.get(i + 1)).cloned()
}

pub fn arg_or(args: &[String], name: &str, default: &str) -> String {
  arg(args, name).unwrap_or_else(|| default.to_string())
}

pub fn flag(args: &[String], name: &str) -> bool {
  args.iter().any(|a| a == name)
}

/// splitmix64: deterministic across platforms, seeded by VERIF_SEED
#[derive(Clone)]
pub struct Rng(u64);

impl Rng {
  pub fn new(seed: u64) -> Rng {
    Rng(seed.wrapping_mul(0x9E3779B97F4A7C15).wrapping_add(0x1234_5678_9ABC_DEF1))
  }
  pub fn next(&mut self) -> u64 {
    self.0 = self.0.wrapping_add(0x9E3779B97F4A7C15);
    let mut z = self.0;
    z = (z ^ (z >> 30)).wrapping_mul(0xBF58476D1CE4E5B9);
    z = (z ^ (z >> 27)).wrapping_mul(0x94D049BB133111EB);
    z ^ (z >> 31)
  }
  pub fn below(&mut self, n: usize) -> usize {
    if n == 0 {
      0
    } else {
      (self.next() % n as u64) as usize
    }
  }
  pub fn chance(&mut self, num: usize, den: usize) -> bool {
    self.below(den) < num
  }
  pub fn pick<'a, T>(&mut self, xs: &'a [T]) -> &'a T {
    &xs[self.below(xs.len())]
  }
}

thread_local! {
  static LAST_PANIC: RefCell<Option<String>> = const { RefCell::new(None) };
}

/// Panics in the code under test are data: record the message, print nothing.
pub fn silence_panics() {
  if std::env::var("VH_LOUD").is_ok() { return; }
  std::panic::set_hook(Box::new(|info| {
    let msg = if let Some(s) = info.payload().downcast_ref::<&str>() {
      s.to_string()
    } else if let Some(s) = info.payload().downcast_ref::<String>() {
      s.clone()
    } else {
      "<non-string panic>".to_string()
    };
    let loc = info.location().map(|l| format!("{}:{}", l.file(), l.line())).unwrap_or_default();
    LAST_PANIC.with(|p| *p.borrow_mut() = Some(format!("{msg} @ {loc}")));
  }));
}

pub fn take_panic() -> Option<String> {
  LAST_PANIC.with(|p| p.borrow_mut().take())
}

/// Runs `f`, returning Err(panic message) if it panicked.
pub fn guarded<T>(f: impl FnOnce() -> T) -> Result<T, String> {
  match std::panic::catch_unwind(std::panic::AssertUnwindSafe(f)) {
    Ok(v) => Ok(v),
    Err(_) => Err(take_panic().unwrap_or_else(|| "<panic>".to_string())),
  }
}
