//! `vh ast-dump`: the typed source AST of every accepted program as compact JSON for
//! spec/Semantics.tla (C01).  One node per `samlang_ast::source::expr::E` constructor; names are
//! strings, string literals are decoded (spec.md 2.2), calls carry their static resolution
//! (builtin / constructor / static function / method / closure call), positions are 1-based
//! (TLA+ sequences).  Modules are written once per distinct content (`--lib`), programs refer to
//! them by content hash.
use crate::util::{arg, guarded, silence_panics};
use samlang_ast::source::{self, expr, pattern, Literal, Toplevel, TypeDefinition};
use samlang_checker::type_::{PrimitiveTypeKind, Type};
use samlang_heap::{Heap, ModuleReference, PStr};
use serde_json::{json, Map, Value};
use std::collections::{BTreeMap, HashMap};
use std::io::Write;
use std::sync::Arc;

type T = Arc<Type>;
type Checked = HashMap<ModuleReference, source::Module<T>>;

pub const ROOT_NAME: &str = "$root";

fn mod_name(heap: &Heap, m: ModuleReference) -> String {
  if m == ModuleReference::ROOT {
    ROOT_NAME.to_string()
  } else {
    m.pretty_print(heap)
  }
}

/// spec.md 2.2: \t \v \0 \b \f \n \" \\ ; the parser has already turned \" into ".
/// (`\r` is accepted by the lexer although the language definition does not list it.)
pub fn decode_string(raw: &str) -> String {
  let mut out = String::with_capacity(raw.len());
  let mut it = raw.chars();
  while let Some(c) = it.next() {
    if c != '\\' {
      out.push(c);
      continue;
    }
    match it.next() {
      Some('t') => out.push('\t'),
      Some('v') => out.push('\u{0b}'),
      Some('0') => out.push('\0'),
      Some('b') => out.push('\u{08}'),
      Some('f') => out.push('\u{0c}'),
      Some('n') => out.push('\n'),
      Some('r') => out.push('\r'),
      Some('"') => out.push('"'),
      Some('\\') => out.push('\\'),
      Some(o) => {
        out.push('\\');
        out.push(o)
      }
      None => out.push('\\'),
    }
  }
  out
}

/// operator names as in spec/Arith.tla
fn bin_op_name(o: expr::BinaryOperator) -> &'static str {
  use expr::BinaryOperator::*;
  match o {
    MUL => "MUL",
    DIV => "DIV",
    MOD => "MOD",
    PLUS => "PLUS",
    MINUS => "MINUS",
    LT => "LT",
    LE => "LE",
    GT => "GT",
    GE => "GE",
    EQ => "EQ",
    NE => "NE",
    AND => "AND",
    OR => "OR",
    CONCAT => "CONCAT",
  }
}

struct Dumper<'a> {
  heap: &'a Heap,
  checked: &'a Checked,
  next_id: usize,
  /// syntactic regions of recorded findings that occur in the module ("objpat-order")
  regions: std::collections::BTreeSet<String>,
}

enum StaticTarget {
  Builtin(String, String),
  StructCtor(usize),
  VariantCtor(usize, usize),
  Function,
  Unknown,
}

impl<'a> Dumper<'a> {
  fn s(&self, p: PStr) -> String {
    p.as_str(self.heap).to_string()
  }

  fn fresh(&mut self) -> usize {
    self.next_id += 1;
    self.next_id
  }

  fn class_def(&self, m: ModuleReference, c: PStr) -> Option<&'a source::ClassDefinition<T>> {
    self.checked.get(&m).and_then(|module| {
      module.toplevels.iter().find_map(|t| match t {
        Toplevel::Class(cd) if cd.name.name == c => Some(cd),
        _ => None,
      })
    })
  }

  fn static_target(&self, m: ModuleReference, c: PStr, f: PStr) -> StaticTarget {
    if m == ModuleReference::ROOT {
      return StaticTarget::Builtin(self.s(c), self.s(f));
    }
    let Some(cd) = self.class_def(m, c) else { return StaticTarget::Unknown };
    if cd.members.members.iter().any(|mem| mem.decl.name.name == f && !mem.decl.is_method) {
      return StaticTarget::Function;
    }
    match &cd.type_definition {
      Some(TypeDefinition::Struct { fields, .. }) if f == PStr::INIT => StaticTarget::StructCtor(fields.len()),
      Some(TypeDefinition::Enum { variants, .. }) => {
        match variants.iter().position(|v| v.name.name == f) {
          Some(i) => StaticTarget::VariantCtor(
            i,
            variants[i].associated_data_types.as_ref().map(|l| l.annotations.len()).unwrap_or(0),
          ),
          None => StaticTarget::Unknown,
        }
      }
      _ => StaticTarget::Unknown,
    }
  }

  /// kind of a type as far as `==` is concerned
  fn type_kind(&self, t: &Type) -> &'static str {
    match t {
      Type::Primitive(_, PrimitiveTypeKind::Int) => "int",
      Type::Primitive(_, PrimitiveTypeKind::Bool) => "bool",
      Type::Primitive(_, PrimitiveTypeKind::Unit) => "unit",
      Type::Nominal(n) if n.module_reference == ModuleReference::ROOT && n.id == PStr::STR_TYPE => "str",
      Type::Nominal(_) => "class",
      Type::Generic(_, _) => "generic",
      Type::Fn(_) => "fn",
      Type::Any(_, _) => "any",
    }
  }

  fn nominal_key(&self, t: &Type) -> Value {
    match t {
      Type::Nominal(n) => json!({"m": mod_name(self.heap, n.module_reference), "c": self.s(n.id)}),
      Type::Generic(_, g) => json!({"g": self.s(*g)}),
      _ => json!({}),
    }
  }

  fn exprs(&mut self, es: &[expr::E<T>]) -> Value {
    Value::Array(es.iter().map(|e| self.expr(e)).collect())
  }

  fn expr(&mut self, e: &expr::E<T>) -> Value {
    match e {
      expr::E::Literal(_, Literal::Int(i)) => json!({"k": "I", "v": i}),
      expr::E::Literal(_, Literal::Bool(b)) => json!({"k": "B", "v": b}),
      expr::E::Literal(_, Literal::String(s)) => json!({"k": "S", "v": decode_string(s.as_str(self.heap))}),
      expr::E::LocalId(_, id) => json!({"k": "V", "n": self.s(id.name)}),
      expr::E::ClassId(_, m, id) => json!({"k": "C", "m": mod_name(self.heap, *m), "c": self.s(id.name)}),
      expr::E::Tuple(common, es) => {
        let mut v = json!({"k": "T", "es": self.exprs(&es.expressions)});
        if let Type::Nominal(n) = common.type_.as_ref() {
          v["m"] = json!(mod_name(self.heap, n.module_reference));
          v["c"] = json!(self.s(n.id));
        }
        v
      }
      expr::E::FieldAccess(f) => json!({
        "k": "F", "o": self.expr(&f.object), "n": self.s(f.field_name.name), "i": f.field_order + 1
      }),
      expr::E::MethodAccess(ma) => self.method_access(ma),
      expr::E::Unary(u) => json!({
        "k": "U",
        "op": match u.operator { expr::UnaryOperator::NOT => "!", expr::UnaryOperator::NEG => "-" },
        "e": self.expr(&u.argument)
      }),
      expr::E::Call(c) => self.call(c),
      expr::E::Binary(b) => {
        let mut v = json!({
          "k": "Bin", "op": bin_op_name(b.operator), "l": self.expr(&b.e1), "r": self.expr(&b.e2)
        });
        if matches!(b.operator, expr::BinaryOperator::EQ | expr::BinaryOperator::NE) {
          v["ot"] = json!(self.type_kind(b.e1.type_()));
        }
        v
      }
      expr::E::IfElse(ie) => self.if_else(ie),
      expr::E::Match(m) => {
        let cases: Vec<Value> =
          m.cases.iter().map(|c| json!({"p": self.pattern(&c.pattern), "b": self.expr(&c.body)})).collect();
        json!({"k": "Match", "e": self.expr(&m.matched), "cs": cases})
      }
      expr::E::Lambda(l) => {
        let id = self.fresh();
        let ps: Vec<String> = l.parameters.parameters.iter().map(|p| self.s(p.name.name)).collect();
        let mut cap: Vec<String> = l.captured.keys().map(|k| self.s(*k)).collect();
        cap.sort();
        json!({"k": "Lam", "id": id, "ps": ps, "cap": cap, "b": self.expr(&l.body)})
      }
      expr::E::Block(b) => self.block(b),
    }
  }

  fn method_access(&mut self, ma: &expr::MethodAccess<T>) -> Value {
    // `C.f` (a reference to a static function or constructor) or `obj.m` (a bound method)
    if let expr::E::ClassId(_, m, id) = ma.object.as_ref() {
      let mut v = json!({
        "k": "M", "st": true, "m": mod_name(self.heap, *m), "c": self.s(id.name), "n": self.s(ma.method_name.name)
      });
      self.annotate_static(&mut v, *m, id.name, ma.method_name.name);
      v
    } else {
      json!({
        "k": "M", "st": false, "o": self.expr(&ma.object), "n": self.s(ma.method_name.name),
        "rt": self.nominal_key(ma.object.type_())
      })
    }
  }

  fn annotate_static(&self, v: &mut Value, m: ModuleReference, c: PStr, f: PStr) {
    match self.static_target(m, c, f) {
      StaticTarget::Builtin(c, f) => {
        v["ck"] = json!("builtin");
        v["bi"] = json!(format!("{c}.{f}"));
      }
      StaticTarget::StructCtor(n) => {
        v["ck"] = json!("new");
        v["ar"] = json!(n);
      }
      StaticTarget::VariantCtor(tag, n) => {
        v["ck"] = json!("variant");
        v["tag"] = json!(tag + 1);
        v["ar"] = json!(n);
      }
      StaticTarget::Function => v["ck"] = json!("static"),
      StaticTarget::Unknown => v["ck"] = json!("unknown"),
    }
  }

  fn call(&mut self, c: &expr::Call<T>) -> Value {
    let args = self.exprs(&c.arguments.expressions);
    match c.callee.as_ref() {
      expr::E::MethodAccess(ma) => {
        if let expr::E::ClassId(_, m, id) = ma.object.as_ref() {
          let mut v = json!({
            "k": "Call", "m": mod_name(self.heap, *m), "c": self.s(id.name), "n": self.s(ma.method_name.name), "as": args
          });
          self.annotate_static(&mut v, *m, id.name, ma.method_name.name);
          v
        } else {
          json!({
            "k": "Call", "ck": "method", "o": self.expr(&ma.object), "n": self.s(ma.method_name.name), "as": args,
            "rt": self.nominal_key(ma.object.type_())
          })
        }
      }
      other => json!({"k": "Call", "ck": "closure", "f": self.expr(other), "as": args}),
    }
  }

  fn if_else(&mut self, ie: &expr::IfElse<T>) -> Value {
    let t = self.block(&ie.e1);
    let e = match ie.e2.as_ref() {
      expr::IfElseOrBlock::IfElse(x) => self.if_else(x),
      expr::IfElseOrBlock::Block(b) => self.block(b),
    };
    match ie.condition.as_ref() {
      expr::IfElseCondition::Expression(c) => json!({"k": "If", "c": self.expr(c), "t": t, "e": e}),
      expr::IfElseCondition::Guard(p, c) => {
        json!({"k": "IfLet", "p": self.pattern(p), "c": self.expr(c), "t": t, "e": e})
      }
    }
  }

  fn block(&mut self, b: &expr::Block<T>) -> Value {
    let ss: Vec<Value> = b
      .statements
      .iter()
      .map(|s| match s {
        expr::Statement::Declaration(d) => {
          json!({"k": "Let", "p": self.pattern(&d.pattern), "e": self.expr(&d.assigned_expression)})
        }
        expr::Statement::Expression(e) => json!({"k": "Ex", "e": self.expr(e)}),
      })
      .collect();
    let e = match &b.expression {
      Some(e) => self.expr(e),
      None => json!({"k": "Unit"}),
    };
    json!({"k": "Blk", "ss": ss, "e": e})
  }

  fn pattern(&mut self, p: &pattern::MatchingPattern<T>) -> Value {
    match p {
      pattern::MatchingPattern::Tuple(t) => {
        let ps: Vec<Value> = t.elements.iter().map(|e| self.pattern(&e.pattern)).collect();
        json!({"k": "PT", "ps": ps})
      }
      pattern::MatchingPattern::Object { elements, .. } => {
        if elements.windows(2).any(|w| w[0].field_order >= w[1].field_order) {
          self.regions.insert("objpat-order".to_string());
        }
        let fs: Vec<Value> = elements
          .iter()
          .map(|e| json!({"i": e.field_order + 1, "n": self.s(e.field_name.name), "p": self.pattern(&e.pattern)}))
          .collect();
        json!({"k": "PO", "fs": fs})
      }
      pattern::MatchingPattern::Variant(v) => {
        let ps: Vec<Value> = match &v.data_variables {
          Some(t) => t.elements.iter().map(|e| self.pattern(&e.pattern)).collect(),
          None => vec![],
        };
        json!({"k": "PV", "tag": v.tag_order + 1, "n": self.s(v.tag.name), "ps": ps})
      }
      pattern::MatchingPattern::Id(id, _) => json!({"k": "PI", "n": self.s(id.name)}),
      pattern::MatchingPattern::Wildcard { .. } => json!({"k": "PW"}),
      pattern::MatchingPattern::Or { patterns, .. } => {
        let ps: Vec<Value> = patterns.iter().map(|x| self.pattern(x)).collect();
        json!({"k": "POr", "ps": ps})
      }
    }
  }

  fn module(&mut self, m: &source::Module<T>) -> Value {
    let mut classes = Map::new();
    for t in &m.toplevels {
      let Toplevel::Class(cd) = t else { continue };
      let td = match &cd.type_definition {
        Some(TypeDefinition::Struct { fields, .. }) => {
          json!({"k": "struct", "fs": fields.iter().map(|f| self.s(f.name.name)).collect::<Vec<_>>()})
        }
        Some(TypeDefinition::Enum { variants, .. }) => json!({
          "k": "enum",
          "vs": variants.iter().map(|v| json!({
            "n": self.s(v.name.name),
            "a": v.associated_data_types.as_ref().map(|l| l.annotations.len()).unwrap_or(0)
          })).collect::<Vec<_>>()
        }),
        None => json!({"k": "none"}),
      };
      let mut ms = Map::new();
      for mem in &cd.members.members {
        let id = self.fresh();
        let ps: Vec<String> = mem.decl.parameters.parameters.iter().map(|p| self.s(p.name.name)).collect();
        ms.insert(
          self.s(mem.decl.name.name),
          json!({"id": id, "me": mem.decl.is_method, "ps": ps, "b": self.expr(&mem.body)}),
        );
      }
      classes.insert(self.s(cd.name.name), json!({"td": td, "ms": Value::Object(ms)}));
    }
    Value::Object(classes)
  }
}

fn fnv(s: &str) -> String {
  let mut h: u64 = 0xcbf29ce484222325;
  for b in s.bytes() {
    h ^= b as u64;
    h = h.wrapping_mul(0x100000001b3);
  }
  format!("h{h:016x}")
}

pub enum Dumped {
  Rejected(String),
  Crashed(String),
  /// module name -> class table; regions of recorded findings present in the user modules
  Ok(BTreeMap<String, Value>, Vec<String>),
}

pub fn dump(sources: &BTreeMap<String, String>, with_std: bool) -> Dumped {
  let mut heap = Heap::new();
  let mut handles: HashMap<ModuleReference, String> =
    if with_std { samlang_parser::builtin_std_raw_sources(&mut heap) } else { HashMap::new() };
  for (name, text) in sources {
    let m = crate::compile::module_ref(&mut heap, name);
    handles.insert(m, text.clone());
  }
  let mut error_set = samlang_errors::ErrorSet::new();
  let mut parsed = HashMap::new();
  let r = guarded(|| {
    for (m, text) in &handles {
      let p = samlang_parser::parse_source_module_from_text(text, *m, &mut heap, &mut error_set);
      parsed.insert(*m, p);
    }
  });
  if let Err(message) = r {
    return Dumped::Crashed(format!("parse: {message}"));
  }
  let checked = match guarded(|| samlang_checker::type_check_sources(&parsed, &mut error_set).0) {
    Ok(c) => c,
    Err(message) => return Dumped::Crashed(format!("check: {message}")),
  };
  if error_set.has_errors() {
    return Dumped::Rejected(
      guarded(|| error_set.pretty_print_error_messages(&heap, &handles)).unwrap_or_else(|m| m),
    );
  }
  let mut out = BTreeMap::new();
  let mut regions = std::collections::BTreeSet::new();
  let mut names: Vec<(String, ModuleReference)> = checked.keys().map(|m| (mod_name(&heap, *m), *m)).collect();
  names.sort();
  for (name, m) in names {
    // ids are per module so that a module's dump does not depend on the other modules
    let mut d = Dumper { heap: &heap, checked: &checked, next_id: 0, regions: Default::default() };
    out.insert(name, d.module(&checked[&m]));
    regions.extend(d.regions);
  }
  Dumped::Ok(out, regions.into_iter().collect())
}

/// `vh ast-dump --in PROGRAMS.ndjson --out ASTS.ndjson [--lib LIB.json]`
/// With `--lib`, every distinct module (by content) is written once into LIB.json
/// (`{hash: classTable}`) and each output line is `{"id","origin","entry","mods":{module:hash}}`;
/// without it each line carries `"ast":{module:classTable}`.
pub fn main(args: &[String]) {
  silence_panics();
  let input = std::fs::read_to_string(arg(args, "--in").expect("--in")).unwrap();
  let out = arg(args, "--out").expect("--out");
  let lib_path = arg(args, "--lib");
  let mut lib: BTreeMap<String, Value> = BTreeMap::new();
  if let Some(p) = &lib_path {
    if let Ok(text) = std::fs::read_to_string(p) {
      if let Ok(Value::Object(m)) = serde_json::from_str::<Value>(&text) {
        lib = m.into_iter().collect();
      }
    }
  }
  let mut f = std::io::BufWriter::new(std::fs::File::create(&out).unwrap());
  let (mut n, mut ok) = (0, 0);
  for line in input.lines() {
    if line.trim().is_empty() {
      continue;
    }
    n += 1;
    let rec: Value = serde_json::from_str(line).unwrap();
    let sources: BTreeMap<String, String> = serde_json::from_value(rec["sources"].clone()).unwrap();
    let with_std = rec["with_std"].as_bool().unwrap_or(true);
    let mut o = json!({"id": rec["id"], "origin": rec["origin"], "entry": rec["entry"]});
    match dump(&sources, with_std) {
      Dumped::Rejected(r) => {
        o["front"] = json!("rejected");
        o["rendered"] = json!(r);
      }
      Dumped::Crashed(m) => {
        o["front"] = json!("crashed");
        o["crash"] = json!(m);
      }
      Dumped::Ok(mods, regions) => {
        ok += 1;
        o["front"] = json!("accepted");
        o["regions"] = json!(regions);
        if lib_path.is_some() {
          let mut refs = Map::new();
          for (name, table) in mods {
            let h = fnv(&format!("{name}\n{table}"));
            lib.entry(h.clone()).or_insert(table);
            refs.insert(name, json!(h));
          }
          o["mods"] = Value::Object(refs);
        } else {
          o["ast"] = json!(mods);
        }
      }
    }
    writeln!(f, "{}", o).unwrap();
  }
  f.flush().unwrap();
  if let Some(p) = &lib_path {
    std::fs::write(p, serde_json::to_string(&lib).unwrap()).unwrap();
  }
  println!("{}", json!({"programs": n, "accepted": ok, "lib_modules": lib.len()}));
}
