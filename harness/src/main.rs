//! `vh` — the Rust side of /verif: drivers that run the real samlang code and record
//! traces for the TLA+ specifications, and replayers for TLC-generated behaviours.
mod astdump;
mod comments;
mod compile;
mod edits;
mod exec;
mod faults;
mod heap;
mod mirdump;
mod patterns;
mod positions;
mod progs;
mod progs_gen;
mod rewrites;
mod scope;
mod server;
mod server_gen;
mod syntax;
mod syntax_gen;
mod util;

fn main() {
  let args: Vec<String> = std::env::args().collect();
  let cmd = args.get(1).map(|s| s.as_str()).unwrap_or("");
  let rest = &args[2.min(args.len())..];
  match cmd {
    "ast-dump" => astdump::main(rest),
    "comments-run" => comments::run(rest),
    "comments-files" => comments::files(rest),
    "comments-one" => comments::one(rest),
    "comments-label" => comments::label(rest),
    "compile" => compile::main(rest),
    "mir-dump" => compile::mir_dump_main(rest),
    "mir-types" => compile::mir_types_main(rest),
    "mir-json" => mirdump::main(rest),
    "run-programs" => progs::main(rest),
    "mutate" => faults::main(rest),
    "front-run" => faults::front_run(rest),
    "gen-programs" => progs_gen::main(rest),
    "rewrite" => rewrites::main(rest),
    "rewrite-break" => rewrites::break_main(rest),
    "edits-run" => edits::run(rest),
    "heap-drive" => heap::drive(rest),
    "heap-replay" => heap::replay(rest),
    "ts-run" => exec::ts_run::main_run(rest),
    "ts-erase" => exec::ts_run::main_erase(rest),
    "wasm-run" => exec::wasm_interp::main(rest),
    "patterns-replay" => patterns::replay(rest),
    "positions-gen" => positions::gen(rest),
    "positions-run" => positions::run(rest),
    "scope-run" => scope::run(rest),
    "scope-real" => scope::real(rest),
    "scope-show" => scope::show(rest),
    "server-gen" => server_gen::main(rest),
    "server-show" => server::show(rest),
    "server-replay" => server::replay(rest),
    "syntax-trees" => syntax::trees(rest),
    "syntax-modules" => syntax::modules(rest),
    "syntax-strings" => syntax::strings(rest),
    "syntax-one" => syntax::one(rest),
    "syntax-probe" => syntax::probe(rest),
    _ => {
      eprintln!("usage: vh <subcommand> ...");
      std::process::exit(2);
    }
  }
}
