//! Shared machinery of the translator properties (C01-C04, C12, C13, C18): compile each program
//! under the requested optimisation configurations, validate the artefacts, run both back ends,
//! and write one record per program (schema: DESIGN.md A.3).
use crate::compile::{compile_build, Build, Outcome};
use crate::exec::{ts_run, wasm_interp, End, Run};
use crate::util::{arg, arg_or, silence_panics};
use serde_json::{json, Value};
use std::collections::BTreeMap;
use std::io::Write;

fn run_json(r: &Run) -> Value {
  json!({"out": r.out, "end": serde_json::to_value(&r.end).unwrap()})
}

/// `vh run-programs --in FILE --out FILE [--builds 0,31,...] [--backends wasm,ts] [--fuel N] [--ts-timeout-ms N]`
/// input lines: {"id", "origin", "sources": {module: text}, "entry": module}
pub fn main(args: &[String]) {
  silence_panics();
  let input = std::fs::read_to_string(arg(args, "--in").expect("--in")).unwrap();
  let out = arg(args, "--out").expect("--out");
  let builds: Vec<Build> = arg_or(args, "--builds", "0,31").split(',').map(Build::parse).collect();
  let backends = arg_or(args, "--backends", "wasm,ts");
  let fuel: u64 = arg_or(args, "--fuel", "50000000").parse().unwrap();
  let ts_timeout: u64 = arg_or(args, "--ts-timeout-ms", "5000").parse().unwrap();
  let do_wasm = backends.contains("wasm");
  let do_ts = backends.contains("ts");
  // `node --check` of every emitted TypeScript text costs one process each: only on request (C03)
  let ts_syntax_check = crate::util::flag(args, "--ts-syntax");
  let mut records: Vec<Value> = vec![];
  // (record index, build name, ts text)
  let mut ts_jobs: Vec<(usize, String, String)> = vec![];
  for line in input.lines() {
    if line.trim().is_empty() {
      continue;
    }
    let mut rec: Value = serde_json::from_str(line).unwrap();
    let sources: BTreeMap<String, String> = serde_json::from_value(rec["sources"].clone()).unwrap();
    let entry = rec["entry"].as_str().unwrap().to_string();
    let with_std = rec["with_std"].as_bool().unwrap_or(true);
    let mut build_map = serde_json::Map::new();
    let idx = records.len();
    for b in &builds {
      let name = b.name();
      match compile_build(&sources, &entry, b, with_std) {
        Outcome::Rejected { rendered, errors } => {
          rec["front"] = json!("rejected");
          rec["errors"] = json!(errors);
          rec["rendered"] = json!(rendered);
          break;
        }
        Outcome::Crashed { stage, message } => {
          if stage == "parse" || stage == "check" || stage == "render-errors" {
            rec["front"] = json!("crashed");
            rec["crash"] = json!({"stage": stage, "message": message});
            break;
          }
          rec["front"] = json!("accepted");
          build_map.insert(name, json!({"status": "crashed", "stage": stage, "message": message}));
        }
        Outcome::Compiled(c) => {
          rec["front"] = json!("accepted");
          let mut b = json!({"status": "ok"});
          if do_wasm {
            match wasm_interp::validate_wasm(&c.wasm) {
              Ok(()) => {
                b["wasm_valid"] = json!(true);
                match wasm_interp::run_wasm(&c.wasm, &c.main_fn, fuel) {
                  Ok(r) => {
                    let mut rj = run_json(&r);
                    rj["overflow"] = json!(wasm_interp::OVERFLOW_SEEN.load(std::sync::atomic::Ordering::Relaxed));
                    b["wasm"] = rj;
                  }
                  Err(e) => b["wasm_tool_error"] = json!(e),
                }
              }
              Err(e) => {
                b["wasm_valid"] = json!(false);
                b["wasm_invalid_reason"] = json!(e);
              }
            }
          }
          if do_ts {
            if ts_syntax_check {
              match ts_run::check_ts_syntax(&c.ts) {
                Ok(()) => b["ts_syntax"] = json!(true),
                Err(e) => {
                  b["ts_syntax"] = json!(false);
                  b["ts_syntax_reason"] = json!(e);
                }
              }
            }
            ts_jobs.push((idx, name.clone(), c.ts));
          }
          build_map.insert(name, b);
        }
      }
    }
    rec["builds"] = Value::Object(build_map);
    records.push(rec);
  }
  // run the TypeScript of all (program, build) pairs in batches
  for chunk in ts_jobs.chunks(40) {
    let texts: Vec<String> = chunk.iter().map(|j| j.2.clone()).collect();
    match ts_run::run_ts_batch(&texts, ts_timeout) {
      Ok(runs) => {
        for (j, r) in chunk.iter().zip(runs.iter()) {
          records[j.0]["builds"][&j.1]["ts"] = run_json(r);
        }
      }
      Err(e) => {
        for j in chunk {
          records[j.0]["builds"][&j.1]["ts_tool_error"] = json!(e);
        }
      }
    }
  }
  let mut f = std::io::BufWriter::new(std::fs::File::create(&out).unwrap());
  for r in &records {
    writeln!(f, "{}", r).unwrap();
  }
  f.flush().unwrap();
  let _ = End::Return;
  println!("{}", json!({"programs": records.len(), "ts_runs": ts_jobs.len()}));
}
