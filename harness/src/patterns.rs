//! C07: arm lists enumerated by TLC from spec/Patterns.tla are rendered as real samlang modules
//! (the class declarations of the universe + one function per case holding a `match`, a
//! destructuring `let`, or an `if let`), type-checked by the real checker, and what the checker said
//! about each case (non-exhaustive diagnostic + its counterexample, irrefutable-pattern diagnostic)
//! is recorded for spec/PatternsTrace.tla, which decides.  Nothing is judged here.
//!
//! `vh patterns-replay --cases FILE --out FILE [--batch N] [--dump-src FILE]`
//!   cases: ndjson; first line the universe {u, root, decls}, then {u, arms, exh, irr} per arm list
//!   out:   ndjson; one line per (case, form): {id, u, form, arms, exp, obs:{nonexh, cex, cextext, useless, panic}, src}
use crate::util::{arg, arg_or, guarded, silence_panics};
use samlang_errors::ErrorDetail;
use samlang_heap::Heap;
use serde_json::{json, Value};
use std::collections::HashMap;
use std::io::{BufRead, Write};

fn type_text(t: &Value) -> String {
  let c = t["c"].as_str().unwrap();
  let ta = t["ta"].as_array().unwrap();
  if ta.is_empty() {
    c.to_string()
  } else {
    format!("{}<{}>", c, ta.iter().map(type_text).collect::<Vec<_>>().join(", "))
  }
}

/// class declarations of a universe, one per line
fn decls_text(decls: &Value) -> Vec<String> {
  let mut lines = vec![];
  for (name, d) in decls.as_object().unwrap() {
    let tp = d["tp"].as_array().unwrap();
    let tps = if tp.is_empty() {
      String::new()
    } else {
      format!("<{}>", tp.iter().map(|x| x.as_str().unwrap().to_string()).collect::<Vec<_>>().join(", "))
    };
    let vs = d["vs"].as_array().unwrap();
    let body = if d["kind"] == "struct" {
      let v = &vs[0];
      let f = v["f"].as_array().unwrap();
      let a = v["a"].as_array().unwrap();
      f.iter()
        .zip(a)
        .map(|(f, a)| format!("val {}: {}", f.as_str().unwrap(), type_text(a)))
        .collect::<Vec<_>>()
        .join(", ")
    } else {
      vs.iter()
        .map(|v| {
          let a = v["a"].as_array().unwrap();
          let n = v["n"].as_str().unwrap();
          if a.is_empty() {
            n.to_string()
          } else {
            format!("{}({})", n, a.iter().map(type_text).collect::<Vec<_>>().join(", "))
          }
        })
        .collect::<Vec<_>>()
        .join(", ")
    };
    lines.push(format!("class {name}{tps}({body}) {{}}"));
  }
  lines
}

fn pattern_text(p: &Value, next_var: &mut usize) -> String {
  let args = |next_var: &mut usize| -> Vec<String> {
    p["args"].as_array().unwrap().iter().map(|a| pattern_text(a, next_var)).collect()
  };
  match p["k"].as_str().unwrap() {
    "wild" => "_".to_string(),
    "var" => {
      *next_var += 1;
      format!("v{}", *next_var)
    }
    "variant" => {
      let a = args(next_var);
      let tag = p["tag"].as_str().unwrap();
      if a.is_empty() {
        tag.to_string()
      } else {
        format!("{}({})", tag, a.join(", "))
      }
    }
    "tuple" => format!("({})", args(next_var).join(", ")),
    "obj" => {
      let a = args(next_var);
      let names = p["names"].as_array().unwrap();
      format!(
        "{{ {} }}",
        names.iter().zip(a).map(|(n, a)| format!("{} as {}", n.as_str().unwrap(), a)).collect::<Vec<_>>().join(", ")
      )
    }
    "or" => p["ps"].as_array().unwrap().iter().map(|a| pattern_text(a, next_var)).collect::<Vec<_>>().join(" | "),
    k => panic!("unknown pattern kind {k}"),
  }
}

/// Parser of the counterexample text printed by `Description::pretty_print`:
/// pat ::= `_` | `(` pats `)` | Upper [ `(` pats `)` ] ;  an or-pattern `a | b` at any level
struct CexParser<'a> {
  s: &'a [u8],
  i: usize,
}

impl CexParser<'_> {
  fn ws(&mut self) {
    while self.i < self.s.len() && self.s[self.i] == b' ' {
      self.i += 1;
    }
  }
  fn eat(&mut self, c: u8) -> bool {
    self.ws();
    if self.i < self.s.len() && self.s[self.i] == c {
      self.i += 1;
      true
    } else {
      false
    }
  }
  fn list(&mut self) -> Option<Vec<Value>> {
    let mut v = vec![];
    if self.eat(b')') {
      return Some(v);
    }
    loop {
      v.push(self.or()?);
      if self.eat(b',') {
        continue;
      }
      if self.eat(b')') {
        return Some(v);
      }
      return None;
    }
  }
  fn or(&mut self) -> Option<Value> {
    let mut alts = vec![self.single()?];
    while self.eat(b'|') {
      alts.push(self.single()?);
    }
    if alts.len() == 1 {
      alts.pop()
    } else {
      Some(json!({"k": "or", "ps": alts}))
    }
  }
  fn single(&mut self) -> Option<Value> {
    self.ws();
    if self.eat(b'_') {
      return Some(json!({"k": "wild"}));
    }
    if self.eat(b'(') {
      let l = self.list()?;
      return Some(json!({"k": "tuple", "args": l}));
    }
    let start = self.i;
    while self.i < self.s.len() && self.s[self.i].is_ascii_alphanumeric() {
      self.i += 1;
    }
    if start == self.i || !self.s[start].is_ascii_uppercase() {
      return None;
    }
    let tag = std::str::from_utf8(&self.s[start..self.i]).unwrap().to_string();
    let args = if self.i < self.s.len() && self.s[self.i] == b'(' {
      self.i += 1;
      self.list()?
    } else {
      vec![]
    };
    Some(json!({"k": "variant", "tag": tag, "args": args}))
  }
}

pub fn parse_cex(text: &str) -> Value {
  let mut p = CexParser { s: text.as_bytes(), i: 0 };
  match p.or() {
    Some(v) if { p.ws(); p.i == p.s.len() } => v,
    _ => json!({"k": "unparsed"}),
  }
}

struct Job {
  id: usize,
  form: &'static str,
  case: Value,
  src: String,
}

struct Obs {
  nonexh: bool,
  cextext: String,
  useless: bool,
  panic: String,
}

const NONEXH_PREFIX: &str = "Here is an example of a non-matching value: `";

/// Type-checks one module holding `jobs` (one function per line after `header`).  Err = the checker panicked.
fn check_batch(header: &[String], jobs: &[Job]) -> Result<Vec<Obs>, String> {
  let mut text = String::new();
  for l in header {
    text.push_str(l);
    text.push('\n');
  }
  text.push_str("class Cases {\n");
  let first_line = header.len() + 1;
  for j in jobs {
    text.push_str(&j.src);
    text.push('\n');
  }
  // helpers of the generic-argument form, after the cases so that line numbers still identify a case
  text.push_str("  function <T> vid(t: T): T = t\n  function one(): int = 0\n");
  text.push_str("}\n");
  let mut heap = Heap::new();
  let m = heap.alloc_module_reference_from_string_vec(vec!["Cases".to_string()]);
  let mut error_set = samlang_errors::ErrorSet::new();
  let sources = HashMap::from([(m, text.clone())]);
  let r = guarded(|| {
    let parsed = samlang_parser::parse_source_module_from_text(&text, m, &mut heap, &mut error_set);
    let parsed = HashMap::from([(m, parsed)]);
    let _ = samlang_checker::type_check_sources(&parsed, &mut error_set);
  });
  r?;
  let mut obs: Vec<Obs> =
    jobs.iter().map(|_| Obs { nonexh: false, cextext: String::new(), useless: false, panic: String::new() }).collect();
  for e in error_set.errors() {
    let line = e.location.start.0 as usize;
    let msg = e.to_ide_format(&heap, &sources).ide_error;
    let idx = line.wrapping_sub(first_line);
    if idx >= jobs.len() {
      eprintln!("patterns-replay: diagnostic outside the generated cases: {} {}", e.location.pretty_print(&heap), msg);
      std::process::exit(2);
    }
    match &e.detail {
      ErrorDetail::NonExhaustiveMatch { .. } => {
        let Some(p) = msg.find(NONEXH_PREFIX) else {
          eprintln!("patterns-replay: unexpected text of the non-exhaustive diagnostic: {msg}");
          std::process::exit(2);
        };
        let rest = &msg[p + NONEXH_PREFIX.len()..];
        let end = rest.rfind('`').unwrap_or(rest.len());
        if obs[idx].nonexh {
          eprintln!("patterns-replay: two non-exhaustive diagnostics for one case: {}", jobs[idx].src);
          std::process::exit(2);
        }
        obs[idx].nonexh = true;
        obs[idx].cextext = rest[..end].to_string();
      }
      ErrorDetail::UselessPattern { only_pattern: true } => obs[idx].useless = true,
      _ => {
        // anything else means the generated module is not what the property quantifies over
        eprintln!(
          "patterns-replay: generator produced a module with another diagnostic: {} {}\n  {}",
          e.location.pretty_print(&heap),
          msg,
          jobs[idx].src
        );
        std::process::exit(2);
      }
    }
  }
  Ok(obs)
}

pub fn replay(args: &[String]) {
  silence_panics();
  let cases = arg(args, "--cases").expect("--cases");
  let out = arg(args, "--out").expect("--out");
  let batch: usize = arg_or(args, "--batch", "500").parse().unwrap();
  let f = std::io::BufReader::new(std::fs::File::open(&cases).expect("cases file"));
  let mut header: Vec<String> = vec![];
  let mut root = String::new();
  let mut jobs: Vec<Job> = vec![];
  for line in f.lines() {
    let line = line.unwrap();
    if line.trim().is_empty() {
      continue;
    }
    let v: Value = serde_json::from_str(&line).expect("json");
    if v.get("decls").is_some() {
      header = decls_text(&v["decls"]);
      root = type_text(&v["root"]);
      continue;
    }
    assert!(!root.is_empty(), "the universe line must come first");
    let arms = v["arms"].as_array().unwrap();
    let mut nv = 0usize;
    let id = jobs.len();
    let arm_texts: Vec<String> = arms.iter().map(|a| pattern_text(a, &mut nv)).collect();
    jobs.push(Job {
      id,
      form: "match",
      src: format!(
        "  function c{id}(s: {root}): int = match s {{ {} }}",
        arm_texts.iter().map(|a| format!("{a} -> 0")).collect::<Vec<_>>().join(", ")
      ),
      case: v.clone(),
    });
    // the same match as an argument of a generic call whose type parameter is being inferred, with arm bodies that
    // are calls (the checker types such an argument in its synthesis pass): every fourth case
    if id % 4 == 0 {
      let id = jobs.len();
      jobs.push(Job {
        id,
        form: "match",
        src: format!(
          "  function c{id}(s: {root}): int = Cases.vid(match s {{ {} }})",
          arm_texts.iter().map(|a| format!("{a} -> Cases.one()")).collect::<Vec<_>>().join(", ")
        ),
        case: v.clone(),
      });
    }
    if arms.len() == 1 {
      let id = jobs.len();
      jobs.push(Job {
        id,
        form: "let",
        src: format!("  function c{id}(s: {root}): int = {{ let {} = s; 0 }}", arm_texts[0]),
        case: v.clone(),
      });
      let id = jobs.len();
      jobs.push(Job {
        id,
        form: "iflet",
        src: format!("  function c{id}(s: {root}): int = if let {} = s {{ 1 }} else {{ 0 }}", arm_texts[0]),
        case: v.clone(),
      });
    }
  }
  let mut w = std::io::BufWriter::new(std::fs::File::create(&out).expect("out file"));
  let mut dump = arg(args, "--dump-src").map(|p| std::fs::File::create(p).unwrap());
  if let Some(d) = dump.as_mut() {
    for l in &header {
      writeln!(d, "{l}").unwrap();
    }
  }
  let (mut n_nonexh, mut n_useless, mut n_panic) = (0usize, 0usize, 0usize);
  for chunk in jobs.chunks(batch) {
    let obs = match check_batch(&header, chunk) {
      Ok(o) => o,
      Err(_) => {
        // the checker panicked somewhere in the batch: find the cases one by one
        let mut all = vec![];
        for j in chunk {
          match check_batch(&header, std::slice::from_ref(j)) {
            Ok(mut o) => all.push(o.pop().unwrap()),
            Err(msg) => all.push(Obs { nonexh: false, cextext: String::new(), useless: false, panic: msg }),
          }
        }
        all
      }
    };
    for (j, o) in chunk.iter().zip(obs) {
      if let Some(d) = dump.as_mut() {
        writeln!(d, "{}", j.src).unwrap();
      }
      let cex = if o.nonexh { parse_cex(&o.cextext) } else { json!({"k": "none"}) };
      n_nonexh += o.nonexh as usize;
      n_useless += o.useless as usize;
      n_panic += (!o.panic.is_empty()) as usize;
      let rec = json!({
        "id": j.id, "u": j.case["u"], "form": j.form, "arms": j.case["arms"],
        "exp": {"exh": j.case["exh"], "irr": j.case["irr"]},
        "obs": {"nonexh": o.nonexh, "cex": cex, "cextext": o.cextext, "useless": o.useless, "panic": o.panic},
        "src": j.src.trim(),
      });
      writeln!(w, "{rec}").unwrap();
    }
  }
  w.flush().unwrap();
  println!(
    "{}",
    json!({"records": jobs.len(), "nonexhaustive": n_nonexh, "useless": n_useless, "panics": n_panic})
  );
}
