//! C07: arm lists enumerated by TLC from spec/Patterns.tla are rendered as real samlang modules
//! (the class declarations of the universe + one function per case holding a `match`, a
//! destructuring `let`, or an `if let`), type-checked by the real checker, and what the checker said
//! about each case (non-exhaustive diagnostic + its counterexample, irrefutable-pattern diagnostic)
//! is recorded for spec/PatternsTrace.tla, which decides.  Nothing is judged here.
//!
//! `vh patterns-replay --cases FILE --out FILE [--batch N] [--dump-src FILE]`
//!   cases: ndjson; first line the universe {u, root, decls}, then {u, arms, exh, irr} per arm list
//!   out:   ndjson; one line per (case, form): {id, u, form, arms, exp, obs:{nonexh, cex, cextext, useless, panic}, src}
use crate::util::{arg, arg_or, guarded, silence_panics};
use samlang_errors::ErrorDetail;
use samlang_heap::Heap;
use serde_json::{json, Value};
use std::collections::HashMap;
use std::io::{BufRead, Write};

fn type_text(t: &Value) -> String {
  let c = t["c"].as_str().unwrap();
  let ta = t["ta"].as_array().unwrap();
  if ta.is_empty() {
    c.to_string()
  } else {
    format!("{}<{}>", c, ta.iter().map(type_text).collect::<Vec<_>>().join(", "))
  }
}

/// class declarations of a universe, one per line
fn decls_text(decls: &Value) -> Vec<String> {
  let mut lines = vec![];
  for (name, d) in decls.as_object().unwrap() {
    let tp = d["tp"].as_array().unwrap();
    let tps = if tp.is_empty() {
      String::new()
    } else {
      format!("<{}>", tp.iter().map(|x| x.as_str().unwrap().to_string()).collect::<Vec<_>>().join(", "))
    };
    let vs = d["vs"].as_array().unwrap();
    let body = if d["kind"] == "struct" {
      let v = &vs[0];
      let f = v["f"].as_array().unwrap();
      let a = v["a"].as_array().unwrap();
      f.iter()
        .zip(a)
        .map(|(f, a)| format!("val {}: {}", f.as_str().unwrap(), type_text(a)))
        .collect::<Vec<_>>()
        .join(", ")
    } else {
      vs.iter()
        .map(|v| {
          let a = v["a"].as_array().unwrap();
          let n = v["n"].as_str().unwrap();
          if a.is_empty() {
            n.to_string()
          } else {
            format!("{}({})", n, a.iter().map(type_text).collect::<Vec<_>>().join(", "))
          }
        })
        .collect::<Vec<_>>()
        .join(", ")
    };
    lines.push(format!("class {name}{tps}({body}) {{}}"));
  }
  lines
}

fn pattern_text(p: &Value, next_var: &mut usize) -> String {
  let args = |next_var: &mut usize| -> Vec<String> {
    p["args"].as_array().unwrap().iter().map(|a| pattern_text(a, next_var)).collect()
  };
  match p["k"].as_str().unwrap() {
    "wild" => "_".to_string(),
    "var" => {
      *next_var += 1;
      format!("v{}", *next_var)
    }
    "variant" => {
      let a = args(next_var);
      let tag = p["tag"].as_str().unwrap();
      if a.is_empty() {
        tag.to_string()
      } else {
        format!("{}({})", tag, a.join(", "))
      }
    }
    "tuple" => format!("({})", args(next_var).join(", ")),
    "obj" => {
      let a = args(next_var);
      let names = p["names"].as_array().unwrap();
      format!(
        "{{ {} }}",
        names.iter().zip(a).map(|(n, a)| format!("{} as {}", n.as_str().unwrap(), a)).collect::<Vec<_>>().join(", ")
      )
    }
    "or" => p["ps"].as_array().unwrap().iter().map(|a| pattern_text(a, next_var)).collect::<Vec<_>>().join(" | "),
    k => panic!("unknown pattern kind {k}"),
  }
}

/// Parser of the counterexample text printed by `Description::pretty_print`:
/// pat ::= `_` | `(` pats `)` | Upper [ `(` pats `)` ] ;  an or-pattern `a | b` at any level
struct CexParser<'a> {
  s: &'a [u8],
  i: usize,
}

impl CexParser<'_> {
  fn ws(&mut self) {
    while self.i < self.s.len() && self.s[self.i] == b' ' {
      self.i += 1;
    }
  }
  fn eat(&mut self, c: u8) -> bool {
    self.ws();
    if self.i < self.s.len() && self.s[self.i] == c {
      self.i += 1;
      true
    } else {
      false
    }
  }
  fn list(&mut self) -> Option<Vec<Value>> {
    let mut v = vec![];
    if self.eat(b')') {
      return Some(v);
    }
    loop {
      v.push(self.or()?);
      if self.eat(b',') {
        continue;
      }
      if self.eat(b')') {
        return Some(v);
      }
      return None;
    }
  }
  fn or(&mut self) -> Option<Value> {
    let mut alts = vec![self.single()?];
    while self.eat(b'|') {
      alts.push(self.single()?);
    }
    if alts.len() == 1 {
      alts.pop()
    } else {
      Some(json!({"k": "or", "ps": alts}))
    }
  }
  fn single(&mut self) -> Option<Value> {
    self.ws();
    if self.eat(b'_') {
      return Some(json!({"k": "wild"}));
    }
    if self.eat(b'(') {
      let l = self.list()?;
      return Some(json!({"k": "tuple", "args": l}));
    }
    let start = self.i;
    while self.i < self.s.len() && self.s[self.i].is_ascii_alphanumeric() {
      self.i += 1;
    }
    if start == self.i || !self.s[start].is_ascii_uppercase() {
      return None;
    }
    let tag = std::str::from_utf8(&self.s[start..self.i]).unwrap().to_string();
    let args = if self.i < self.s.len() && self.s[self.i] == b'(' {
      self.i += 1;
      self.list()?
    } else {
      vec![]
    };
    Some(json!({"k": "variant", "tag": tag, "args": args}))
  }
}

pub fn parse_cex(text: &str) -> Value {
  let mut p = CexParser { s: text.as_bytes(), i: 0 };
  match p.or() {
    Some(v) if { p.ws(); p.i == p.s.len() } => v,
    _ => json!({"k": "unparsed"}),
  }
}

struct Job {
  id: usize,
  form: &'static str,
  case: Value,
  src: String,
  /// multi-module rendering: (which side is foreign-by-inference: 'A' the other universe, 'B' the case's universe; the
  /// derivation of the other universe: 2 = wider, 3 = narrower)
  mm: Option<(char, u8)>,
}

/// The universe `decls` with the same class names and other variant tables: `wider` — every enum has one more (nullary)
/// variant `Zz`; narrower — every enum with two or more variants loses its last one and every remaining variant that
/// carries data carries one more `int`.
fn derive_decls(decls: &Value, wider: bool) -> Value {
  let mut out = decls.clone();
  for (_, d) in out.as_object_mut().unwrap() {
    if d["kind"] != "enum" {
      continue;
    }
    let vs = d["vs"].as_array_mut().unwrap();
    if wider {
      vs.push(json!({"n": "Zz", "a": [], "f": []}));
    } else {
      if vs.len() >= 2 {
        vs.pop();
      }
      for v in vs.iter_mut() {
        let a = v["a"].as_array_mut().unwrap();
        if !a.is_empty() {
          a.push(json!({"c": "int", "ta": []}));
        }
      }
    }
  }
  out
}

/// `class Acc<tag>` of a universe module: a function `get<C>(): C<int, ..>` per class and `root(): <root>`
fn accessor_text(decls: &Value, root: &str, tag: char) -> String {
  let mut t = format!("class Acc{tag} {{\n  function root(): {root} = Process.panic(\"never\")\n");
  for (name, d) in decls.as_object().unwrap() {
    t.push_str(&format!("  function get{name}(): {} = Process.panic(\"never\")\n", instance_text(name, d)));
  }
  t.push_str("}\n");
  t
}

fn instance_text(name: &str, d: &Value) -> String {
  let n = d["tp"].as_array().unwrap().len();
  if n == 0 {
    name.to_string()
  } else {
    format!("{name}<{}>", vec!["int"; n].join(", "))
  }
}

/// for every enum class of `decls`: (class name, the arms of a match that names each variant exactly once)
fn full_matches(decls: &Value) -> Vec<(String, String)> {
  let mut out = vec![];
  for (name, d) in decls.as_object().unwrap() {
    if d["kind"] != "enum" {
      continue;
    }
    let arms: Vec<String> = d["vs"]
      .as_array()
      .unwrap()
      .iter()
      .map(|v| {
        let k = v["a"].as_array().unwrap().len();
        let n = v["n"].as_str().unwrap();
        if k == 0 {
          format!("{n} -> 0")
        } else {
          format!("{n}({}) -> 0", vec!["_"; k].join(", "))
        }
      })
      .collect();
    out.push((name.clone(), arms.join(", ")));
  }
  out
}

/// Type-checks the multi-module rendering of `jobs` (all of one `mm` kind): module U1 holds the universe, U2 / U3 a
/// derived universe with the same class names, the third module the cases.  Every case function first matches on a value
/// of every enum of the OTHER universe (each variant named once: exhaustive, no useless arm) and then performs the case's
/// match.  Kind 'A': U1's classes are imported by name (the scrutinee is a parameter), the other universe's values come
/// from its accessor class (types by inference only).  Kind 'B': the other universe's classes are imported by name and
/// the case's scrutinee is `AccA.root()`.
fn check_batch_mm(decls: &Value, root: &str, kind: (char, u8), jobs: &[Job]) -> Result<(Vec<Obs>, usize), String> {
  let other = derive_decls(decls, kind.1 == 2);
  let other_tag = if kind.1 == 2 { 'B' } else { 'C' };
  let other_mod = format!("U{}", kind.1);
  let module_text = |d: &Value, tag: char, r: &str| {
    let mut t = decls_text(d).join("\n");
    t.push('\n');
    t.push_str(&accessor_text(d, r, tag));
    t
  };
  let names = |d: &Value| d.as_object().unwrap().keys().cloned().collect::<Vec<_>>().join(", ");
  let prelude = full_matches(&other);
  let mut lines: Vec<String> = vec![];
  let mut owner: Vec<Option<(usize, bool)>> = vec![];
  let params: String;
  if kind.0 == 'A' {
    lines.push(format!("import {{ {} }} from U1", names(decls)));
    lines.push(format!("import {{ Acc{other_tag} }} from {other_mod}"));
    params = format!("s: {root}");
  } else {
    lines.push(format!("import {{ {} }} from {other_mod}", names(&other)));
    lines.push("import { AccA } from U1".to_string());
    params = prelude
      .iter()
      .enumerate()
      .map(|(i, (c, _))| format!("q{i}: {}", instance_text(c, &other[c.as_str()])))
      .collect::<Vec<_>>()
      .join(", ");
  }
  lines.push("class Cases {".to_string());
  owner.resize(lines.len(), None);
  for (ji, j) in jobs.iter().enumerate() {
    lines.push(format!("  function c{}({params}): int = {{", j.id));
    owner.push(Some((ji, false)));
    for (i, (c, arms)) in prelude.iter().enumerate() {
      let scrutinee = if kind.0 == 'A' { format!("Acc{other_tag}.get{c}()") } else { format!("q{i}") };
      lines.push(format!("    let _ = match {scrutinee} {{ {arms} }};"));
      owner.push(Some((ji, false)));
    }
    lines.push(format!("    {}", j.src));
    owner.push(Some((ji, true)));
    lines.push("  }".to_string());
    owner.push(Some((ji, false)));
  }
  lines.push("}".to_string());
  owner.push(None);
  let cases_text = lines.join("\n") + "\n";
  let mut heap = Heap::new();
  let mut error_set = samlang_errors::ErrorSet::new();
  let mut sources = HashMap::new();
  let texts = [
    ("U1".to_string(), module_text(decls, 'A', root)),
    (other_mod.clone(), module_text(&other, other_tag, "int")),
    ("Cases".to_string(), cases_text),
  ];
  let mut cases_ref = None;
  for (n, t) in &texts {
    let m = heap.alloc_module_reference_from_string_vec(vec![n.clone()]);
    sources.insert(m, t.clone());
    if n == "Cases" {
      cases_ref = Some(m);
    }
  }
  let cases_ref = cases_ref.unwrap();
  let r = guarded(|| {
    let mut parsed = HashMap::new();
    for (m, t) in &sources {
      parsed.insert(*m, samlang_parser::parse_source_module_from_text(t, *m, &mut heap, &mut error_set));
    }
    let _ = samlang_checker::type_check_sources(&parsed, &mut error_set);
  });
  r?;
  let mut obs: Vec<Obs> =
    jobs.iter().map(|_| Obs { nonexh: false, cextext: String::new(), useless: false, panic: String::new() }).collect();
  let mut prelude_diags = 0usize;
  for e in error_set.errors() {
    let msg = e.to_ide_format(&heap, &sources).ide_error;
    let own = if e.location.module_reference == cases_ref { owner.get(e.location.start.0 as usize).copied().flatten() } else { None };
    let Some((idx, is_case)) = own else {
      eprintln!("patterns-replay: diagnostic outside the generated cases: {} {}", e.location.pretty_print(&heap), msg);
      std::process::exit(2);
    };
    if !is_case {
      // a diagnostic about a match of the prelude (exhaustive and without useless arm by construction): not what the
      // case records; counted and shown, never mixed into the case's observation
      if matches!(&e.detail, ErrorDetail::NonExhaustiveMatch { .. } | ErrorDetail::UselessPattern { .. }) {
        prelude_diags += 1;
        if prelude_diags <= 3 {
          eprintln!("patterns-replay: NOTE diagnostic on a prelude match (each variant named once): {} {}", e.location.pretty_print(&heap), msg);
        }
        continue;
      }
      eprintln!("patterns-replay: generator produced a module with another diagnostic: {} {}", e.location.pretty_print(&heap), msg);
      std::process::exit(2);
    }
    record_diagnostic(&e.detail, &msg, &mut obs[idx], &jobs[idx].src, &e.location.pretty_print(&heap));
  }
  Ok((obs, prelude_diags))
}

fn record_diagnostic(detail: &ErrorDetail, msg: &str, obs: &mut Obs, src: &str, at: &str) {
  match detail {
    ErrorDetail::NonExhaustiveMatch { .. } => {
      let Some(p) = msg.find(NONEXH_PREFIX) else {
        eprintln!("patterns-replay: unexpected text of the non-exhaustive diagnostic: {msg}");
        std::process::exit(2);
      };
      let rest = &msg[p + NONEXH_PREFIX.len()..];
      let end = rest.rfind('`').unwrap_or(rest.len());
      if obs.nonexh {
        eprintln!("patterns-replay: two non-exhaustive diagnostics for one case: {src}");
        std::process::exit(2);
      }
      obs.nonexh = true;
      obs.cextext = rest[..end].to_string();
    }
    ErrorDetail::UselessPattern { only_pattern: true } => obs.useless = true,
    _ => {
      // anything else means the generated module is not what the property quantifies over
      eprintln!("patterns-replay: generator produced a module with another diagnostic: {at} {msg}\n  {src}");
      std::process::exit(2);
    }
  }
}

struct Obs {
  nonexh: bool,
  cextext: String,
  useless: bool,
  panic: String,
}

const NONEXH_PREFIX: &str = "Here is an example of a non-matching value: `";

/// Type-checks one module holding `jobs` (one function per line after `header`).  Err = the checker panicked.
fn check_batch(header: &[String], jobs: &[Job]) -> Result<Vec<Obs>, String> {
  let mut text = String::new();
  for l in header {
    text.push_str(l);
    text.push('\n');
  }
  text.push_str("class Cases {\n");
  let first_line = header.len() + 1;
  for j in jobs {
    text.push_str(&j.src);
    text.push('\n');
  }
  // helpers of the generic-argument form, after the cases so that line numbers still identify a case
  text.push_str("  function <T> vid(t: T): T = t\n  function one(): int = 0\n");
  text.push_str("}\n");
  let mut heap = Heap::new();
  let m = heap.alloc_module_reference_from_string_vec(vec!["Cases".to_string()]);
  let mut error_set = samlang_errors::ErrorSet::new();
  let sources = HashMap::from([(m, text.clone())]);
  let r = guarded(|| {
    let parsed = samlang_parser::parse_source_module_from_text(&text, m, &mut heap, &mut error_set);
    let parsed = HashMap::from([(m, parsed)]);
    let _ = samlang_checker::type_check_sources(&parsed, &mut error_set);
  });
  r?;
  let mut obs: Vec<Obs> =
    jobs.iter().map(|_| Obs { nonexh: false, cextext: String::new(), useless: false, panic: String::new() }).collect();
  for e in error_set.errors() {
    let line = e.location.start.0 as usize;
    let msg = e.to_ide_format(&heap, &sources).ide_error;
    let idx = line.wrapping_sub(first_line);
    if idx >= jobs.len() {
      eprintln!("patterns-replay: diagnostic outside the generated cases: {} {}", e.location.pretty_print(&heap), msg);
      std::process::exit(2);
    }
    record_diagnostic(&e.detail, &msg, &mut obs[idx], &jobs[idx].src, &e.location.pretty_print(&heap));
  }
  Ok(obs)
}

pub fn replay(args: &[String]) {
  silence_panics();
  let cases = arg(args, "--cases").expect("--cases");
  let out = arg(args, "--out").expect("--out");
  let batch: usize = arg_or(args, "--batch", "500").parse().unwrap();
  let f = std::io::BufReader::new(std::fs::File::open(&cases).expect("cases file"));
  let mut header: Vec<String> = vec![];
  let mut root = String::new();
  let mut decls = Value::Null;
  let mut jobs: Vec<Job> = vec![];
  let mut mm_jobs: Vec<Job> = vec![];
  let mut case_no = 0usize;
  for line in f.lines() {
    let line = line.unwrap();
    if line.trim().is_empty() {
      continue;
    }
    let v: Value = serde_json::from_str(&line).expect("json");
    if v.get("decls").is_some() {
      header = decls_text(&v["decls"]);
      root = type_text(&v["root"]);
      decls = v["decls"].clone();
      continue;
    }
    assert!(!root.is_empty(), "the universe line must come first");
    let arms = v["arms"].as_array().unwrap();
    let mut nv = 0usize;
    let id = jobs.len();
    let arm_texts: Vec<String> = arms.iter().map(|a| pattern_text(a, &mut nv)).collect();
    jobs.push(Job {
      id,
      form: "match",
      src: format!(
        "  function c{id}(s: {root}): int = match s {{ {} }}",
        arm_texts.iter().map(|a| format!("{a} -> 0")).collect::<Vec<_>>().join(", ")
      ),
      case: v.clone(),
      mm: None,
    });
    // the same match as an argument of a generic call whose type parameter is being inferred, with arm bodies that
    // are calls (the checker types such an argument in its synthesis pass): every fourth case
    if id % 4 == 0 {
      let id = jobs.len();
      jobs.push(Job {
        id,
        form: "match",
        src: format!(
          "  function c{id}(s: {root}): int = Cases.vid(match s {{ {} }})",
          arm_texts.iter().map(|a| format!("{a} -> Cases.one()")).collect::<Vec<_>>().join(", ")
        ),
        case: v.clone(),
        mm: None,
      });
    }
    if arms.len() == 1 {
      let id = jobs.len();
      jobs.push(Job {
        id,
        form: "let",
        src: format!("  function c{id}(s: {root}): int = {{ let {} = s; 0 }}", arm_texts[0]),
        case: v.clone(),
        mm: None,
      });
      let id = jobs.len();
      jobs.push(Job {
        id,
        form: "iflet",
        src: format!("  function c{id}(s: {root}): int = if let {} = s {{ 1 }} else {{ 0 }}", arm_texts[0]),
        case: v.clone(),
        mm: None,
      });
    }
    // the multi-module rendering (same-named classes with other variant tables in another module, reached by inference
    // only): every fifth arm list as a match, every one-arm list as a let and an if-let; the kinds rotate
    // (a replay file names the kind of its case: `"mm": "B3"`)
    let forced: Option<(char, u8)> = v["mm"].as_str().filter(|m| m.len() == 2).map(|m| (m.as_bytes()[0] as char, m.as_bytes()[1] - b'0'));
    let kind = forced.unwrap_or((if (case_no / 5) % 2 == 0 { 'A' } else { 'B' }, if (case_no / 10) % 2 == 0 { 2u8 } else { 3u8 }));
    let scrutinee = if kind.0 == 'A' { "s" } else { "AccA.root()" };
    if case_no % 5 == 0 || forced.is_some() {
      mm_jobs.push(Job {
        id: 0,
        form: "match",
        src: format!("match {scrutinee} {{ {} }}", arm_texts.iter().map(|a| format!("{a} -> 0")).collect::<Vec<_>>().join(", ")),
        case: v.clone(),
        mm: Some(kind),
      });
    }
    if arms.len() == 1 {
      let kind = forced.unwrap_or((if case_no % 2 == 0 { 'A' } else { 'B' }, if (case_no / 2) % 2 == 0 { 2u8 } else { 3u8 }));
      let scrutinee = if kind.0 == 'A' { "s" } else { "AccA.root()" };
      mm_jobs.push(Job { id: 0, form: "let", src: format!("let {} = {scrutinee}; 0", arm_texts[0]), case: v.clone(), mm: Some(kind) });
      mm_jobs.push(Job {
        id: 0,
        form: "iflet",
        src: format!("if let {} = {scrutinee} {{ 1 }} else {{ 0 }}", arm_texts[0]),
        case: v.clone(),
        mm: Some(kind),
      });
    }
    case_no += 1;
  }
  // the multi-module jobs follow the single-module ones, grouped by kind (one set of modules per group)
  mm_jobs.sort_by_key(|j| j.mm);
  for mut j in mm_jobs {
    j.id = jobs.len();
    jobs.push(j);
  }
  let mut w = std::io::BufWriter::new(std::fs::File::create(&out).expect("out file"));
  let mut dump = arg(args, "--dump-src").map(|p| std::fs::File::create(p).unwrap());
  if let Some(d) = dump.as_mut() {
    for l in &header {
      writeln!(d, "{l}").unwrap();
    }
  }
  let (mut n_nonexh, mut n_useless, mut n_panic, mut n_prelude) = (0usize, 0usize, 0usize, 0usize);
  // chunks never mix the single-module jobs and the kinds of multi-module jobs
  let mut chunks: Vec<&[Job]> = vec![];
  let mut from = 0;
  for i in 1..=jobs.len() {
    if i == jobs.len() || jobs[i].mm != jobs[from].mm || i - from == batch {
      chunks.push(&jobs[from..i]);
      from = i;
    }
  }
  let mut run = |js: &[Job]| -> Result<Vec<Obs>, String> {
    match js[0].mm {
      None => check_batch(&header, js),
      Some(kind) => check_batch_mm(&decls, &root, kind, js).map(|(o, n)| {
        n_prelude += n;
        o
      }),
    }
  };
  for chunk in chunks {
    let obs = match run(chunk) {
      Ok(o) => o,
      Err(_) => {
        // the checker panicked somewhere in the batch: find the cases one by one
        let mut all = vec![];
        for j in chunk {
          match run(std::slice::from_ref(j)) {
            Ok(mut o) => all.push(o.pop().unwrap()),
            Err(msg) => all.push(Obs { nonexh: false, cextext: String::new(), useless: false, panic: msg }),
          }
        }
        all
      }
    };
    for (j, o) in chunk.iter().zip(obs) {
      if let Some(d) = dump.as_mut() {
        writeln!(d, "{}", j.src).unwrap();
      }
      let cex = if o.nonexh { parse_cex(&o.cextext) } else { json!({"k": "none"}) };
      n_nonexh += o.nonexh as usize;
      n_useless += o.useless as usize;
      n_panic += (!o.panic.is_empty()) as usize;
      let rec = json!({
        "id": j.id, "u": j.case["u"], "form": j.form, "arms": j.case["arms"],
        "exp": {"exh": j.case["exh"], "irr": j.case["irr"]},
        "obs": {"nonexh": o.nonexh, "cex": cex, "cextext": o.cextext, "useless": o.useless, "panic": o.panic},
        "src": match j.mm {
          None => j.src.trim().to_string(),
          Some((k, o)) => format!(
            "[modules U1 + U{o} ({}); the case's scrutinee is {}] {}",
            if o == 2 { "same classes, every enum one variant more" } else { "same classes, every enum one variant less and one int more per payload" },
            if k == 'A' { "a parameter, the other universe's values are typed by inference" } else { "U1's accessor (typed by inference), the other universe is imported by name" },
            j.src
          ),
        },
        "mm": j.mm.map(|(k, o)| format!("{k}{o}")).unwrap_or_default(),
      });
      writeln!(w, "{rec}").unwrap();
    }
  }
  w.flush().unwrap();
  println!(
    "{}",
    json!({"records": jobs.len(), "nonexhaustive": n_nonexh, "useless": n_useless, "panics": n_panic,
           "multi_module_records": jobs.iter().filter(|j| j.mm.is_some()).count(), "prelude_diagnostics": n_prelude})
  );
}
