// ---------------------------------------------------------------------------------------------
// type-directed expression generation
// ---------------------------------------------------------------------------------------------
impl G {
  fn fresh(&mut self, p: &str) -> String {
    self.nname += 1;
    format!("{p}{}", self.nname)
  }
  fn feat(&mut self, f: &'static str) {
    self.feats.insert(f);
  }
  fn allowed(&self, what: &str) -> bool {
    self.allow.contains(what)
  }
  fn class(&self, n: &str) -> Option<&Class> {
    self.cidx.get(n).map(|i| &self.classes[*i])
  }
  fn is_rec(&self, ty: &Ty) -> bool {
    matches!(ty, Ty::C(n, _) if self.class(n).map(|c| c.rec).unwrap_or(false))
  }
  fn is_list(ty: &Ty) -> bool {
    matches!(ty, Ty::C(n, _) if n == "List")
  }
  fn sized(&self, ty: &Ty) -> bool {
    matches!(ty, Ty::Int | Ty::Str) || Self::is_list(ty) || self.is_rec(ty)
  }
  /// the size every *stored / passed* value of this type is guaranteed to have
  fn dflt(&self, ty: &Ty) -> R {
    match ty {
      Ty::Int => STORE,
      Ty::Str => SLEN,
      _ if Self::is_list(ty) => LLEN,
      _ if self.is_rec(ty) => NODES,
      _ => ANY,
    }
  }
  /// the size tolerated for locals / results
  fn wide(&self, ty: &Ty) -> R {
    match ty {
      Ty::Int => {
        if self.boundary {
          FULL
        } else {
          WIDE
        }
      }
      Ty::Str => SWIDE,
      _ => self.dflt(ty),
    }
  }
  fn fits(&self, ty: &Ty, r: R, want: R) -> bool {
    match ty {
      Ty::Int => rsub(r, want),
      _ if self.sized(ty) => r.1 <= want.1,
      _ => true,
    }
  }
  fn tmap(&self, ty: &Ty) -> Vec<(String, Ty)> {
    if let Ty::C(n, args) = ty {
      if let Some(c) = self.class(n) {
        return c.tparams.iter().cloned().zip(args.iter().cloned()).collect();
      }
    }
    vec![]
  }
  fn fields_of(&self, ty: &Ty) -> Option<Vec<Field>> {
    if let Ty::C(n, _) = ty {
      let c = self.class(n)?;
      if let Kind::Struct(fs) = &c.kind {
        let m = self.tmap(ty);
        return Some(
          fs.iter()
            .map(|f| {
              let t = f.ty.subst(&m);
              let r = if matches!(f.ty, Ty::T(_)) || t != f.ty { self.dflt(&t) } else { f.r };
              Field { name: f.name.clone(), ty: t, r, private: f.private }
            })
            .collect(),
        );
      }
    }
    None
  }
  fn variants_of(&self, ty: &Ty) -> Option<Vec<Variant>> {
    if let Ty::C(n, _) = ty {
      let c = self.class(n)?;
      if let Kind::Enum(vs) = &c.kind {
        let m = self.tmap(ty);
        return Some(
          vs.iter()
            .map(|v| Variant {
              name: v.name.clone(),
              args: v
                .args
                .iter()
                .map(|(t, r)| {
                  let t2 = t.subst(&m);
                  let r2 = if t2 != *t { self.dflt(&t2) } else { *r };
                  (t2, r2)
                })
                .collect(),
            })
            .collect(),
        );
      }
    }
    None
  }
  fn fields_accessible(&self, ty: &Ty, cx: &Ctx) -> bool {
    match (ty, self.fields_of(ty)) {
      (Ty::C(n, _), Some(fs)) => fs.iter().all(|f| !f.private) || cx.cls == *n,
      _ => false,
    }
  }
  /// construction rank (1 = constructible without any class-typed argument)
  fn rank(&self, ty: &Ty, seen: &mut Vec<Ty>) -> u32 {
    match ty {
      Ty::C(..) => {
        if seen.contains(ty) {
          return 1000;
        }
        seen.push(ty.clone());
        let r = if let Some(fs) = self.fields_of(ty) {
          1 + fs.iter().map(|f| self.rank(&f.ty, seen)).max().unwrap_or(0)
        } else if let Some(vs) = self.variants_of(ty) {
          vs.iter().map(|v| 1 + v.args.iter().map(|a| self.rank(&a.0, seen)).max().unwrap_or(0)).min().unwrap_or(1000)
        } else {
          1
        };
        seen.pop();
        r.min(1000)
      }
      _ => 0,
    }
  }
  fn targs(ty: &Ty) -> String {
    match ty {
      Ty::C(_, a) if !a.is_empty() => format!("<{}>", a.iter().map(|t| t.txt()).collect::<Vec<_>>().join(", ")),
      _ => String::new(),
    }
  }
  /// receivers / callees are generated without side effects (the known callee-before-arguments region)
  fn recv_cx(&self, cx: &Ctx) -> Ctx {
    let mut c = cx.clone();
    if !self.allowed("callee-order") {
      c.pure = true;
    }
    c
  }
  fn spend(&mut self, c: u64) {
    self.cost = self.cost.saturating_add(c);
  }

  // ------------------------------------------------------------------ minimal values
  fn minimal(&mut self, ty: &Ty, cx: &Ctx, want: R) -> E {
    match ty {
      Ty::Int => {
        let v = if want.0 <= 0 && want.1 >= 0 {
          let lo = want.0.max(-9);
          let hi = want.1.min(9);
          lo + self.rng.below((hi - lo + 1) as usize) as i64
        } else if want.0 > 0 {
          want.0 + self.rng.below(((want.1 - want.0).min(9) + 1) as usize) as i64
        } else {
          want.1 - self.rng.below(((want.1 - want.0).min(9) + 1) as usize) as i64
        };
        atom(lit(v), (v, v))
      }
      Ty::Bool => atom(if self.rng.chance(1, 2) { "true".into() } else { "false".into() }, ANY),
      Ty::Str => self.str_lit(want.1.min(8)),
      Ty::Unit => atom("{  }".into(), ANY),
      Ty::V(t) => atom(format!("Vec.empty<{}>()", t.txt()), ANY),
      Ty::F(ps, ret) => {
        let names: Vec<String> = ps.iter().map(|_| self.fresh("q")).collect();
        let body = self.minimal(ret, cx, self.dflt(ret));
        let plist = names.iter().zip(ps.iter()).map(|(n, t)| format!("{n}: {}", t.txt())).collect::<Vec<_>>().join(", ");
        opx(format!("({plist}) -> {}", body.s), ANY)
      }
      Ty::T(_) => atom("Process.panic(\"tvar\")".into(), ANY),
      Ty::C(n, targs) => {
        if n == "List" {
          return atom(format!("List.nil<{}>()", targs[0].txt()), (0, 0));
        }
        if n == "Option" {
          return atom(format!("Option.None<{}>()", targs[0].txt()), ANY);
        }
        if let Some(fs) = self.fields_of(ty) {
          let args: Vec<String> = fs.iter().map(|f| self.minimal(&f.ty, cx, f.r).s).collect();
          if n == "Pair" {
            return atom(format!("({})", args.join(", ")), ANY);
          }
          return atom(format!("{n}.init({})", args.join(", ")), ANY);
        }
        if let Some(vs) = self.variants_of(ty) {
          let mut best = 0;
          let mut br = u32::MAX;
          for (i, v) in vs.iter().enumerate() {
            let rk = v.args.iter().map(|a| self.rank(&a.0, &mut vec![ty.clone()])).max().unwrap_or(0);
            if rk < br {
              br = rk;
              best = i;
            }
          }
          let v = &vs[best];
          let mut nodes = 1;
          let mut args = vec![];
          for (t, r) in &v.args {
            let w = if self.is_rec(t) { (0, ((want.1 - 1).max(1)) / (v.args.len() as i64).max(1)) } else { *r };
            let e = self.minimal(t, cx, w);
            if self.is_rec(t) {
              nodes += e.r.1;
            }
            args.push(e.s);
          }
          let ta = if v.args.iter().any(|a| a.0.txt().contains(|_c: char| false)) { String::new() } else { Self::targs(ty) };
          return atom(format!("{n}.{}{}({})", v.name, ta, args.join(", ")), if self.is_rec(ty) { (0, nodes) } else { ANY });
        }
        atom("Process.panic(\"novalue\")".into(), ANY)
      }
    }
  }

  fn str_lit(&mut self, maxlen: i64) -> E {
    const WORDS: [&str; 14] = ["a", "b", "xy", "abc", "foo", "bar", "q", "zz", "hey", "ok", "no", "w", "id", "k"];
    let strs = self.prof == Profile::Strings;
    let n = self.rng.below(if strs { 4 } else { 3 });
    let mut raw_len = 0i64;
    let mut s = String::new();
    for _ in 0..n {
      let piece: String = if self.rng.chance(if strs { 2 } else { 1 }, 6) {
        // printable ASCII and the escapes \n \t \\ \"
        let specials = ["\\n", "\\t", "\\\\", "\\\"", " ", "`", "$", "${", "}", "'", "#", "%", "<", "&", "~", "!", "?", ":", ";", "/", "*", "-", "+", "=", "(", ")", "[", "]", "|", "^", "@", ",", "."];
        (*self.rng.pick(&specials)).to_string()
      } else if self.rng.chance(1, 5) {
        format!("{}", self.rng.below(100))
      } else {
        (*self.rng.pick(&WORDS)).to_string()
      };
      let plen = if piece.starts_with('\\') { 1 } else { piece.len() as i64 };
      if raw_len + plen > maxlen {
        break;
      }
      raw_len += plen;
      s.push_str(&piece);
    }
    atom(format!("\"{s}\""), (0, raw_len))
  }

  // ------------------------------------------------------------------ entry points
  fn gen(&mut self, ty: &Ty, cx: &Ctx, d: u32, want: R) -> E {
    self.spend(1);
    if d > 0 {
      for _ in 0..4 {
        if let Some(e) = self.try_prod(ty, cx, d, want) {
          if self.fits(ty, e.r, want) {
            return e;
          }
        }
      }
    }
    if self.rng.chance(2, 3) {
      if let Some(e) = self.p_var(ty, cx, want) {
        return e;
      }
    }
    if let Some(e) = self.p_leaf(ty, cx, want) {
      if self.fits(ty, e.r, want) {
        return e;
      }
    }
    self.minimal(ty, cx, want)
  }

  fn gen_int(&mut self, cx: &Ctx, d: u32, want: R) -> E {
    self.gen(&Ty::Int, cx, d, want)
  }
  fn gen_bool(&mut self, cx: &Ctx, d: u32) -> E {
    self.gen(&Ty::Bool, cx, d, ANY)
  }

  /// leaf productions other than variables
  fn p_leaf(&mut self, ty: &Ty, cx: &Ctx, want: R) -> Option<E> {
    match ty {
      Ty::Int => Some(self.int_lit(want)),
      Ty::Str => Some(self.str_lit(want.1.min(10))),
      Ty::C(..) => {
        if self.rng.chance(1, 2) {
          self.p_field(ty, cx, want)
        } else {
          self.p_ctor(ty, cx, 0, want)
        }
      }
      _ => None,
    }
  }

  fn int_lit(&mut self, want: R) -> E {
    let v = if self.boundary && want == FULL && self.rng.chance(3, 5) {
      let specials: [i64; 16] = [
        IMAX, IMAX - 1, IMAX - 7, IMIN, IMIN + 1, IMIN + 9, 1073741824, 1073741823, -1073741824, -1073741825, 65536, 46341, 46340,
        2147483600, -2147483600, 1000000007,
      ];
      *self.rng.pick(&specials)
    } else {
      let span = match self.rng.below(10) {
        0..=5 => 10,
        6..=8 => 100,
        _ => 1000,
      };
      let lo = want.0.max(-span);
      let hi = want.1.min(span);
      if lo > hi {
        if want.0 > 0 {
          want.0
        } else {
          want.1
        }
      } else {
        lo + self.rng.below((hi - lo + 1) as usize) as i64
      }
    };
    if v == IMIN {
      return atom("(-2147483648)".into(), (v, v));
    }
    atom(lit(v), (v, v))
  }

  /// an int expression whose value the generator knows exactly
  fn point(&mut self, v: i64) -> E {
    let digits_ok = v.abs() <= 999_999_999;
    match self.rng.below(6) {
      0 | 1 if digits_ok => atom(format!("\"{v}\".toInt()"), (v, v)),
      2 if v.abs() < 100000 => {
        let a = self.rng.below(20) as i64 - 10;
        opx(format!("{} + {}", lit(v - a), lit(a)), (v, v))
      }
      _ => {
        if v == IMIN {
          atom("(-2147483648)".into(), (v, v))
        } else {
          atom(lit(v), (v, v))
        }
      }
    }
  }

  fn pick_weighted<'a, T>(&mut self, items: &'a [(u32, T)]) -> &'a T {
    let total: u32 = items.iter().map(|i| i.0).sum();
    let mut x = self.rng.below(total as usize) as u32;
    for (w, t) in items {
      if x < *w {
        return t;
      }
      x -= w;
    }
    &items[items.len() - 1].1
  }

  fn try_prod(&mut self, ty: &Ty, cx: &Ctx, d: u32, want: R) -> Option<E> {
    let clos = self.prof == Profile::Closures;
    let enums = self.prof == Profile::Enums;
    let strs = self.prof == Profile::Strings;
    let mut prods: Vec<(u32, &'static str)> = vec![
      (9, "var"),
      (5, "call"),
      (4, "mcall"),
      (5, "field"),
      (2, "if"),
      (if enums { 6 } else { 3 }, "match"),
      (2, "block"),
      (if enums { 2 } else { 1 }, "iflet"),
      (if clos { 4 } else { 1 }, "lamcall"),
      (if clos { 4 } else { 1 }, "fncall"),
    ];
    match ty {
      Ty::Int => prods.extend([
        (2, "lit"),
        (7, "arith"),
        (2, "mod"),
        (2, "div"),
        (1, "neg"),
        (if strs { 4 } else { 1 }, "toint"),
        (1, "len"),
        (if clos { 4 } else { 1 }, "fold"),
        (1, "vecblock"),
        (1, "valuemap"),
      ]),
      Ty::Bool => prods.extend([(8, "cmp"), (3, "logic"), (1, "not"), (if strs { 5 } else { 1 }, "streq"), (1, "listpred"), (1, "lit")]),
      Ty::Str => prods.extend([(3, "lit"), (6, "concat"), (4, "fromint"), (2, "showof")]),
      Ty::C(n, _) if n == "List" => prods.extend([(4, "listbuild"), (5, "listop")]),
      Ty::C(n, _) if n == "Option" => prods.extend([(3, "ctor"), (3, "optop")]),
      Ty::C(..) => prods.extend([(8, "ctor")]),
      Ty::F(..) => prods.extend([(8, "lambda"), (if clos { 10 } else { 5 }, "fnref")]),
      Ty::V(_) => prods.extend([(6, "vecbuild")]),
      Ty::Unit => prods.extend([(4, "print")]),
      Ty::T(_) => {}
    }
    let p = *self.pick_weighted(&prods);
    match p {
      "var" => self.p_var(ty, cx, want),
      "call" => self.p_call(ty, cx, d, want, false),
      "mcall" => self.p_call(ty, cx, d, want, true),
      "field" => self.p_field(ty, cx, want),
      "if" => self.p_if(ty, cx, d, want),
      "match" => self.p_match(ty, cx, d, want),
      "block" => self.p_block(ty, cx, d, want),
      "iflet" => self.p_iflet(ty, cx, d, want),
      "lamcall" => self.p_lamcall(ty, cx, d, want),
      "fncall" => self.p_fncall(ty, cx, d, want),
      "lit" => self.p_leaf(ty, cx, want).or_else(|| Some(self.minimal(ty, cx, want))),
      "arith" => self.p_arith(cx, d, want),
      "mod" => self.p_mod(cx, d, want),
      "div" => self.p_div(cx, d, want),
      "neg" => {
        let a = self.gen_int(cx, d - 1, rneg(want).0.max(IMIN + 1).min(IMAX).pipe(|lo| (lo, rneg(want).1)));
        Some(opx(format!("-{}", par(&a)), rneg(a.r)))
      }
      "toint" => self.p_toint(cx, d, want),
      "len" => self.p_len(cx, d, want),
      "fold" => self.p_fold(cx, d, want),
      "vecblock" => self.p_vecblock(cx, d, want),
      "valuemap" => self.p_valuemap(cx, d, want),
      "cmp" => {
        let w = self.wide(&Ty::Int);
        let a = self.gen_int(cx, d - 1, w);
        let b = self.gen_int(cx, d - 1, w);
        let ops = ["<", "<=", ">", ">=", "==", "!="];
        let o = *self.rng.pick(&ops);
        // `x.f < e` would be parsed as the start of a type-argument list
        let left = if o == "<" && a.k == K::Atom && a.s.contains('.') && !a.s.starts_with('(') { format!("({})", a.s) } else { par(&a) };
        Some(opx(format!("{left} {o} {}", par(&b)), ANY))
      }
      "logic" => {
        let a = self.gen_bool(cx, d - 1);
        let b = self.gen_bool(cx, d - 1);
        let o = if self.rng.chance(1, 2) { "&&" } else { "||" };
        Some(opx(format!("{} {o} {}", par(&a), par(&b)), ANY))
      }
      "not" => {
        let a = self.gen_bool(cx, d - 1);
        Some(opx(format!("!{}", par(&a)), ANY))
      }
      "streq" => {
        let a = self.gen(&Ty::Str, cx, d - 1, SWIDE);
        let b = self.gen(&Ty::Str, cx, d - 1, SWIDE);
        self.feat("str-eq");
        let o = if self.rng.chance(1, 2) { "==" } else { "!=" };
        Some(opx(format!("{} {o} {}", par(&a), par(&b)), ANY))
      }
      "listpred" => self.p_listpred(cx, d),
      "concat" => {
        let half = (0, want.1 / 2);
        if half.1 < 2 {
          return None;
        }
        let a = self.gen(&Ty::Str, cx, d - 1, half);
        let b = self.gen(&Ty::Str, cx, d - 1, half);
        self.feat("str-concat");
        Some(opx(format!("{} :: {}", par(&a), par(&b)), (0, a.r.1 + b.r.1)))
      }
      "fromint" => {
        if want.1 < 11 {
          return None;
        }
        let w = self.wide(&Ty::Int);
        let a = self.gen_int(cx, d - 1, w);
        self.feat("str-fromint");
        Some(atom(format!("Str.fromInt({})", a.s), (0, 11)))
      }
      "showof" => self.p_showof(cx, want),
      "ctor" => self.p_ctor(ty, cx, d, want),
      "listbuild" => self.p_listbuild(ty, cx, d, want),
      "listop" => self.p_listop(ty, cx, d, want),
      "optop" => self.p_optop(ty, cx, d),
      "lambda" => self.p_lambda(ty, cx, d),
      "fnref" => self.p_fnref(ty, cx),
      "vecbuild" => self.p_vecbuild(ty, cx, d),
      "print" => {
        if cx.pure {
          return None;
        }
        self.impure = true;
        let s = self.gen(&Ty::Str, cx, d - 1, SWIDE);
        Some(atom(format!("Process.println({})", s.s), ANY))
      }
      _ => None,
    }
  }

  // ------------------------------------------------------------------ generic productions
  fn p_var(&mut self, ty: &Ty, cx: &Ctx, want: R) -> Option<E> {
    let mut cands: Vec<(String, R, u32)> =
      cx.visible().into_iter().filter(|v| v.ty == *ty && self.fits(ty, v.r, want)).map(|v| (v.name.clone(), v.r, v.ld)).collect();
    if cx.this.as_ref() == Some(ty) && self.fits(ty, self.dflt(ty), want) {
      cands.push(("this".into(), self.dflt(ty), 0));
    }
    if cands.is_empty() {
      return None;
    }
    let (n, r, ld) = cands[self.rng.below(cands.len())].clone();
    if cx.ld > ld {
      if n == "this" {
        self.feat("lambda-capture-this");
      } else {
        self.feat("lambda-capture");
      }
    }
    Some(atom(n, r))
  }

  /// receivers: variables (or `this`) of a struct type, used for field access
  fn p_field(&mut self, ty: &Ty, cx: &Ctx, want: R) -> Option<E> {
    let mut cands: Vec<(String, Field, u32)> = vec![];
    let mut holders: Vec<(String, Ty, u32)> = cx.visible().into_iter().map(|v| (v.name.clone(), v.ty.clone(), v.ld)).collect();
    if let Some(t) = &cx.this {
      holders.push(("this".into(), t.clone(), 0));
    }
    for (n, t, ld) in holders {
      if let (Ty::C(cn, _), Some(fs)) = (&t, self.fields_of(&t)) {
        for f in fs {
          if f.ty == *ty && (!f.private || cx.cls == *cn) && self.fits(ty, f.r, want) {
            cands.push((n.clone(), f, ld));
          }
        }
      }
    }
    if cands.is_empty() {
      return None;
    }
    let (n, f, ld) = cands[self.rng.below(cands.len())].clone();
    if cx.ld > ld {
      self.feat(if n == "this" { "lambda-capture-this" } else { "lambda-capture" });
    }
    self.feat("field-access");
    Some(atom(format!("{n}.{}", f.name), f.r))
  }

  fn sig_visible(&self, s: &Sig, cx: &Ctx) -> bool {
    if s.module != STD && s.module > cx.module {
      return false;
    }
    if s.private && s.cls != cx.cls {
      return false;
    }
    if s.modpriv && s.module != cx.module {
      return false;
    }
    if s.level > cx.maxlevel || (cx.pure && !s.pure) {
      return false;
    }
    let c = s.cost.saturating_mul(cx.mult);
    c <= CALLCAP && self.cost.saturating_add(c) <= FNCAP
  }

  /// `(expr % m)` so that the result fits `want` (when the callee's result range is too wide)
  fn clamp_mod(&mut self, e: E, want: R) -> Option<E> {
    if rsub(e.r, want) {
      return Some(e);
    }
    let m = (-want.0).min(want.1) + 1;
    if m < 2 || e.r == FULL && !self.boundary {
      return None;
    }
    let m = m.min(1000);
    let r = rmodlit(e.r, m);
    Some(opx(format!("{} % {m}", par(&e)), r))
  }

  fn p_call(&mut self, ty: &Ty, cx: &Ctx, d: u32, want: R, method: bool) -> Option<E> {
    let mut cands: Vec<usize> = vec![];
    for (i, s) in self.sigs.iter().enumerate() {
      if s.ret == *ty && s.recv.is_some() == method && self.sig_visible(s, cx) {
        let ok = match ty {
          Ty::Int => true,
          _ => self.fits(ty, s.rr, want),
        };
        if ok {
          cands.push(i);
        }
      }
    }
    if cands.is_empty() {
      return None;
    }
    // prefer functions that have not been called yet
    let unused: Vec<usize> = cands.iter().cloned().filter(|i| self.sigs[*i].used == 0).collect();
    let pickfrom = if !unused.is_empty() && self.rng.chance(2, 3) { unused } else { cands };
    let i = pickfrom[self.rng.below(pickfrom.len())];
    let e = self.call_sig(i, cx, d.saturating_sub(1), None)?;
    if *ty == Ty::Int {
      self.clamp_mod(e, want)
    } else {
      Some(e)
    }
  }

  /// generates a call of `sigs[i]`; `recv` overrides the receiver expression of a method
  fn call_sig(&mut self, i: usize, cx: &Ctx, d: u32, recv: Option<String>) -> Option<E> {
    let s = self.sigs[i].clone();
    let head = match (&s.recv, recv) {
      (_, Some(r)) => r,
      (Some(rt), None) => {
        let rcx = self.recv_cx(cx);
        let e = if d >= 1 && self.rng.chance(1, 3) {
          self.gen(rt, &rcx, d - 1, self.dflt(rt))
        } else {
          match self.p_var(rt, cx, self.dflt(rt)) {
            Some(e) => e,
            None => self.gen(rt, &rcx, d.min(1), self.dflt(rt)),
          }
        };
        par(&e)
      }
      (None, None) => s.cls.clone(),
    };
    let mut args: Vec<String> = vec![];
    match &s.kind {
      SK::Plain => {
        for (_, t, r) in &s.params {
          let e = self.gen(t, cx, d, *r);
          args.push(e.s);
        }
      }
      SK::Loop(spec) => {
        args = self.loop_args(&s, spec, cx, d)?;
      }
    }
    self.sigs[i].used += 1;
    self.spend(s.cost.saturating_mul(cx.mult));
    self.curlevel = self.curlevel.max(s.level + 1);
    if !s.pure {
      self.impure = true;
    }
    for f in &s.feats {
      self.feats.insert(f);
    }
    if s.recv.is_some() {
      self.feat("method-call");
    }
    Some(atom(format!("{head}.{}({})", s.name, args.join(", ")), s.rr))
  }

  fn p_if(&mut self, ty: &Ty, cx: &Ctx, d: u32, want: R) -> Option<E> {
    let c = self.gen_bool(cx, d - 1);
    let a = self.gen(ty, cx, d - 1, want);
    let b = self.gen(ty, cx, d - 1, want);
    self.feat("if-else");
    // chained else-if
    if b.k == K::Op && b.s.starts_with("if ") {
      return Some(opx(format!("if {} {} else {}", c.s, braced(&a), b.s), hull(a.r, b.r)));
    }
    Some(opx(format!("if {} {} else {}", c.s, braced(&a), braced(&b)), hull(a.r, b.r)))
  }

  fn matchable(&self, ty: &Ty, cx: &Ctx) -> bool {
    match ty {
      Ty::C(n, a) if n == "Pair" => a.iter().any(|t| self.variants_of(t).is_some()),
      Ty::C(..) => self.variants_of(ty).is_some() || (self.fields_accessible(ty, cx) && self.fields_of(ty).unwrap().iter().any(|f| self.variants_of(&f.ty).is_some())),
      _ => false,
    }
  }

  fn cover(&mut self, ty: &Ty, d: u32, cx: &Ctx, hr: R) -> Vec<Pat> {
    if d == 0 {
      return vec![Pat::Hole(ty.clone(), hr)];
    }
    if let Some(vs) = self.variants_of(ty) {
      let mut out = vec![];
      for v in &vs {
        let expandable: Vec<usize> = v
          .args
          .iter()
          .enumerate()
          .filter(|(_, a)| self.variants_of(&a.0).is_some() || matches!(&a.0, Ty::C(n, _) if n == "Pair") || self.fields_accessible(&a.0, cx))
          .map(|(i, _)| i)
          .collect();
        let ei = if d > 1 && !expandable.is_empty() && self.rng.chance(1, 2) { Some(expandable[self.rng.below(expandable.len())]) } else { None };
        let arg_r = |g: &G, t: &Ty, r: R| if g.is_rec(t) { (0, (hr.1 - 1).max(1)) } else { r };
        match ei {
          None => out.push(Pat::Ctor(v.name.clone(), v.args.iter().map(|(t, r)| Pat::Hole(t.clone(), arg_r(self, t, *r))).collect())),
          Some(ei) => {
            let (t, r) = v.args[ei].clone();
            let subr = arg_r(self, &t, r);
            let sub = self.cover(&t, d - 1, cx, subr);
            for sp in sub {
              let ps = v.args.iter().enumerate().map(|(i, (t, r))| if i == ei { sp.clone() } else { Pat::Hole(t.clone(), arg_r(self, t, *r)) }).collect();
              out.push(Pat::Ctor(v.name.clone(), ps));
            }
          }
        }
      }
      return out;
    }
    if let Ty::C(n, a) = ty {
      if n == "Pair" {
        let ca = if self.variants_of(&a[0]).is_some() && self.rng.chance(3, 4) { self.cover(&a[0], d - 1, cx, self.dflt(&a[0])) } else { vec![Pat::Hole(a[0].clone(), self.dflt(&a[0]))] };
        let mut cb = if self.variants_of(&a[1]).is_some() && self.rng.chance(3, 4) { self.cover(&a[1], d - 1, cx, self.dflt(&a[1])) } else { vec![Pat::Hole(a[1].clone(), self.dflt(&a[1]))] };
        if ca.len() * cb.len() > 9 {
          cb = vec![Pat::Hole(a[1].clone(), self.dflt(&a[1]))];
        }
        let mut out = vec![];
        for x in &ca {
          for y in &cb {
            out.push(Pat::Tup(vec![x.clone(), y.clone()]));
          }
        }
        return out;
      }
      if self.fields_accessible(ty, cx) {
        let fs = self.fields_of(ty).unwrap();
        let expandable: Vec<usize> = fs.iter().enumerate().filter(|(_, f)| self.variants_of(&f.ty).is_some()).map(|(i, _)| i).collect();
        if !expandable.is_empty() && self.rng.chance(2, 3) {
          let ei = expandable[self.rng.below(expandable.len())];
          let sub = self.cover(&fs[ei].ty, d - 1, cx, fs[ei].r);
          return sub
            .into_iter()
            .map(|sp| Pat::Obj(fs.iter().enumerate().map(|(i, f)| (f.name.clone(), if i == ei { sp.clone() } else { Pat::Hole(f.ty.clone(), f.r) })).collect()))
            .collect();
        }
        return vec![Pat::Obj(fs.iter().map(|f| (f.name.clone(), Pat::Hole(f.ty.clone(), f.r))).collect())];
      }
    }
    vec![Pat::Hole(ty.clone(), hr)]
  }

  /// renders a pattern; `names[k]` is the binding of the k-th hole (None = wildcard)
  fn render_pat(p: &Pat, names: &[Option<String>], k: &mut usize, top: bool) -> String {
    match p {
      Pat::Hole(..) => {
        let n = names[*k].clone();
        *k += 1;
        n.unwrap_or_else(|| "_".into())
      }
      Pat::Ctor(n, ps) => {
        if ps.is_empty() {
          n.clone()
        } else {
          format!("{n}({})", ps.iter().map(|p| Self::render_pat(p, names, k, false)).collect::<Vec<_>>().join(", "))
        }
      }
      Pat::Tup(ps) => format!("({})", ps.iter().map(|p| Self::render_pat(p, names, k, false)).collect::<Vec<_>>().join(", ")),
      Pat::Obj(fs) => {
        let _ = top;
        let inner: Vec<String> = fs
          .iter()
          .map(|(f, p)| {
            let s = Self::render_pat(p, names, k, false);
            if s == *f {
              f.clone()
            } else {
              format!("{f} as {s}")
            }
          })
          .collect();
        format!("{{ {} }}", inner.join(", "))
      }
    }
  }

  /// binds the holes of a pattern: returns (names per hole, bound variables)
  fn bind_holes(&mut self, holes: &[(Ty, R)], all_wild: bool) -> (Vec<Option<String>>, Vec<Var>) {
    let mut names = vec![];
    let mut vars = vec![];
    for (t, r) in holes {
      if all_wild || self.rng.chance(1, 4) {
        names.push(None);
      } else {
        let n = self.fresh("b");
        vars.push(Var { name: n.clone(), ty: t.clone(), r: *r, ld: 0 });
        names.push(Some(n));
      }
    }
    (names, vars)
  }

  fn pick_scrutinee(&mut self, cx: &Ctx, d: u32) -> Option<(E, Ty)> {
    let mut cands: Vec<(String, Ty, R)> = cx.visible().into_iter().filter(|v| self.matchable(&v.ty, cx)).map(|v| (v.name.clone(), v.ty.clone(), v.r)).collect();
    if let Some(t) = &cx.this {
      if self.matchable(t, cx) {
        cands.push(("this".into(), t.clone(), self.dflt(t)));
        cands.push(("this".into(), t.clone(), self.dflt(t)));
      }
    }
    // a tuple of two enum-typed variables
    let enum_vars: Vec<(String, Ty)> = cx.visible().into_iter().filter(|v| self.variants_of(&v.ty).is_some()).map(|v| (v.name.clone(), v.ty.clone())).collect();
    if enum_vars.len() >= 2 && self.rng.chance(1, 4) {
      let a = enum_vars[self.rng.below(enum_vars.len())].clone();
      let b = enum_vars[self.rng.below(enum_vars.len())].clone();
      self.feat("tuple-scrutinee");
      return Some((atom(format!("({}, {})", a.0, b.0), ANY), Ty::pair(a.1, b.1)));
    }
    if !cands.is_empty() && self.rng.chance(4, 5) {
      let (n, t, r) = cands[self.rng.below(cands.len())].clone();
      return Some((atom(n, r), t));
    }
    if d >= 1 {
      let tys: Vec<Ty> = self.vpool(cx.module).into_iter().filter(|t| self.matchable(t, cx)).collect();
      if tys.is_empty() {
        return None;
      }
      let t = tys[self.rng.below(tys.len())].clone();
      let e = self.gen(&t, cx, d - 1, self.dflt(&t));
      let s = par(&e);
      let s = if e.k == K::Atom && !s.starts_with('(') && s.contains('(') { format!("({s})") } else { s };
      return Some((E { s, r: e.r, k: K::Atom }, t));
    }
    None
  }

  fn p_match(&mut self, ty: &Ty, cx: &Ctx, d: u32, want: R) -> Option<E> {
    let (scrut, sty) = self.pick_scrutinee(cx, d)?;
    let pd = 1 + self.rng.below(if self.prof == Profile::Enums { 3 } else { 2 }) as u32;
    let pats = self.cover(&sty, pd, cx, scrut.r);
    if pats.len() < 2 && matches!(pats[0], Pat::Hole(..)) {
      return None;
    }
    // group alternatives into or-patterns
    let mut groups: Vec<Vec<Pat>> = vec![];
    for p in pats {
      let mut hs = vec![];
      p.holes(&mut hs);
      let sig: Vec<Ty> = hs.iter().map(|h| h.0.clone()).collect();
      // alternatives with the same (non-empty) binding signature can share bindings
      let same: Vec<usize> = groups
        .iter()
        .enumerate()
        .filter(|(_, g)| {
          let mut h2 = vec![];
          g[0].holes(&mut h2);
          !sig.is_empty() && h2.iter().map(|h| h.0.clone()).collect::<Vec<_>>() == sig
        })
        .map(|(i, _)| i)
        .collect();
      if !same.is_empty() && self.rng.chance(1, 2) {
        let gi = same[self.rng.below(same.len())];
        groups[gi].push(p);
      } else if !groups.is_empty() && self.rng.chance(1, 6) {
        let gi = self.rng.below(groups.len());
        groups[gi].push(p);
      } else {
        groups.push(vec![p]);
      }
    }
    // a final wildcard arm replacing the last k groups
    let mut wildcard = false;
    if groups.len() >= 2 && self.rng.chance(3, 10) {
      let k = 1 + self.rng.below(groups.len() - 1);
      groups.truncate(groups.len() - k);
      wildcard = true;
    }
    let mut arms: Vec<String> = vec![];
    let mut r: Option<R> = None;
    let narms = groups.len() + wildcard as usize;
    let sub_d = if narms > 4 { (d - 1).min(1) } else { d - 1 };
    for g in &groups {
      let sigs: Vec<Vec<(Ty, R)>> = g
        .iter()
        .map(|p| {
          let mut h = vec![];
          p.holes(&mut h);
          h
        })
        .collect();
      let same = sigs.iter().all(|s| s.iter().map(|x| &x.0).collect::<Vec<_>>() == sigs[0].iter().map(|x| &x.0).collect::<Vec<_>>());
      let (names, vars) = if g.len() == 1 {
        self.bind_holes(&sigs[0], false)
      } else if same {
        let mut hs = sigs[0].clone();
        for s in &sigs[1..] {
          for (k, (_, r)) in s.iter().enumerate() {
            hs[k].1 = hull(hs[k].1, *r);
          }
        }
        if !hs.is_empty() {
          self.feat("or-pattern-binding");
        }
        self.bind_holes(&hs, false)
      } else {
        (vec![], vec![])
      };
      let mut alts = vec![];
      for (ai, p) in g.iter().enumerate() {
        if p.nested(0) {
          self.feat("nested-pattern");
        }
        if matches!(p, Pat::Obj(..)) || format!("{p:?}").contains("Obj(") {
          self.feat("struct-pattern");
        }
        if matches!(p, Pat::Tup(..)) {
          self.feat("tuple-pattern");
        }
        let nm: Vec<Option<String>> = if g.len() > 1 && !same { vec![None; sigs[ai].len()] } else { names.clone() };
        alts.push(Self::render_pat(p, &nm, &mut 0, true));
      }
      if g.len() > 1 {
        self.feat("or-pattern");
      }
      let mut cx2 = cx.clone();
      for v in vars {
        cx2.push(&v.name, &v.ty, v.r);
      }
      let body = self.gen(ty, &cx2, sub_d, want);
      r = Some(r.map(|x| hull(x, body.r)).unwrap_or(body.r));
      arms.push(format!("{} -> {},", alts.join(" | "), body.s));
    }
    if wildcard {
      self.feat("wildcard-arm");
      let body = self.gen(ty, cx, sub_d, want);
      r = Some(r.map(|x| hull(x, body.r)).unwrap_or(body.r));
      arms.push(format!("_ -> {},", body.s));
    }
    self.feat("match");
    Some(opx(format!("match {} {{\n{}\n}}", scrut.s, arms.join("\n")), r.unwrap()))
  }

  fn p_iflet(&mut self, ty: &Ty, cx: &Ctx, d: u32, want: R) -> Option<E> {
    let (scrut, sty) = self.pick_scrutinee(cx, d)?;
    let pd = 1 + self.rng.below(2) as u32;
    let pats = self.cover(&sty, pd, cx, scrut.r);
    if pats.len() < 2 {
      return None;
    }
    let p = pats[self.rng.below(pats.len())].clone();
    let mut hs = vec![];
    p.holes(&mut hs);
    let (names, vars) = self.bind_holes(&hs, false);
    if p.nested(0) {
      self.feat("nested-pattern");
    }
    let ptxt = Self::render_pat(&p, &names, &mut 0, true);
    let mut cx2 = cx.clone();
    for v in vars {
      cx2.push(&v.name, &v.ty, v.r);
    }
    let a = self.gen(ty, &cx2, d - 1, want);
    let b = self.gen(ty, cx, d - 1, want);
    self.feat("if-let");
    Some(opx(format!("if let {ptxt} = {} {} else {}", scrut.s, braced(&a), braced(&b)), hull(a.r, b.r)))
  }

  fn ty_visible(&self, ty: &Ty, module: usize) -> bool {
    match ty {
      Ty::C(n, a) => self.class(n).map(|c| c.module == STD || c.module < module || (c.module == module)).unwrap_or(false) && a.iter().all(|t| self.ty_visible(t, module)),
      Ty::F(p, r) => p.iter().all(|t| self.ty_visible(t, module)) && self.ty_visible(r, module),
      Ty::V(t) => self.ty_visible(t, module),
      _ => true,
    }
  }
  /// the pool types usable in module `module`
  fn vpool(&self, module: usize) -> Vec<Ty> {
    self.pool.iter().filter(|t| self.ty_visible(t, module)).cloned().collect()
  }
  fn pick_ty(&mut self, module: usize) -> Ty {
    let n = self.rng.below(10);
    match n {
      0..=2 => Ty::Int,
      3 => Ty::Bool,
      4 => Ty::Str,
      _ => {
        let pool = self.vpool(module);
        if pool.is_empty() {
          Ty::Int
        } else {
          pool[self.rng.below(pool.len())].clone()
        }
      }
    }
  }

  /// `let` statements: returns the statement lines and extends the context
  fn gen_let(&mut self, cx: &mut Ctx, d: u32) -> Vec<String> {
    let choice = self.rng.below(10);
    // tuple destructuring
    if choice == 0 || choice == 1 {
      let (ta, tb) = (self.pick_ty(cx.module), self.pick_ty(cx.module));
      if !matches!(ta, Ty::V(_)) && !matches!(tb, Ty::V(_)) {
        let pt = Ty::pair(ta.clone(), tb.clone());
        let rhs = match self.p_var(&pt, cx, ANY) {
          Some(v) if self.rng.chance(1, 2) => v,
          _ => {
            let a = self.gen(&ta, cx, d, self.wide(&ta));
            let b = self.gen(&tb, cx, d, self.wide(&tb));
            let (ar, br) = (a.r, b.r);
            let e = atom(format!("({}, {})", a.s, b.s), ANY);
            let (na, nb) = (self.fresh("t"), self.fresh("t"));
            let wild = self.rng.chance(1, 6);
            self.feat("let-tuple");
            let line = format!("let ({na}, {}) = {};", if wild { "_".to_string() } else { nb.clone() }, e.s);
            cx.push(&na, &ta, ar);
            if !wild {
              cx.push(&nb, &tb, br);
            }
            return vec![line];
          }
        };
        let (na, nb) = (self.fresh("t"), self.fresh("t"));
        self.feat("let-tuple");
        let line = format!("let ({na}, {nb}) = {};", rhs.s);
        cx.push(&na, &ta, self.dflt(&ta));
        cx.push(&nb, &tb, self.dflt(&tb));
        return vec![line];
      }
    }
    // struct destructuring
    if choice == 2 || choice == 3 {
      let structs: Vec<Ty> = self.vpool(cx.module).into_iter().filter(|t| self.fields_accessible(t, cx) && !matches!(t, Ty::C(n, _) if n == "Pair")).collect();
      if !structs.is_empty() {
        let st = structs[self.rng.below(structs.len())].clone();
        let rhs = match self.p_var(&st, cx, ANY) {
          Some(v) if self.rng.chance(2, 3) => v,
          _ => self.gen(&st, cx, d, ANY),
        };
        let fs = self.fields_of(&st).unwrap();
        let mut parts = vec![];
        for f in &fs {
          match self.rng.below(4) {
            0 => parts.push(format!("{} as _", f.name)),
            1 if cx.lookup(&f.name).is_none() => {
              parts.push(f.name.clone());
              cx.push(&f.name, &f.ty, f.r);
            }
            _ => {
              let n = self.fresh("g");
              parts.push(format!("{} as {n}", f.name));
              cx.push(&n, &f.ty, f.r);
            }
          }
        }
        self.feat("let-struct");
        return vec![format!("let {{ {} }} = {};", parts.join(", "), rhs.s)];
      }
    }
    // a trace print (observable evaluation order)
    if choice == 4 && self.rng.chance(1, 2) && cx.mult <= 50 && !cx.pure {
      self.marker += 1;
      self.impure = true;
      self.feat("trace-print");
      return vec![format!("Process.println(\"t{}\");", self.marker)];
    }
    let ty = self.pick_ty(cx.module);
    let e = self.gen(&ty, cx, d, self.wide(&ty));
    let n = self.fresh("v");
    let annot = if self.rng.chance(1, 6) && !matches!(ty, Ty::F(..)) { format!(": {}", ty.txt()) } else { String::new() };
    let annot = if matches!(ty, Ty::F(..)) { format!(": {}", ty.txt()) } else { annot };
    let line = format!("let {n}{annot} = {};", e.s);
    cx.push(&n, &ty, if self.sized(&ty) { e.r } else { ANY });
    vec![line]
  }

  fn p_block(&mut self, ty: &Ty, cx: &Ctx, d: u32, want: R) -> Option<E> {
    let mut cx2 = cx.clone();
    let n = 1 + self.rng.below(3);
    let mut lines = vec![];
    for _ in 0..n {
      lines.extend(self.gen_let(&mut cx2, d - 1));
    }
    let fin = self.gen(ty, &cx2, d - 1, want);
    self.feat("block");
    Some(E { s: format!("{{\n{}\n{}\n}}", lines.join("\n"), fin.s), r: fin.r, k: K::Block })
  }

  /// lambda text for explicit parameter sizes
  fn lambda_with(&mut self, params: &[(Ty, R)], ret: &Ty, want: R, cx: &Ctx, d: u32, annotate: bool, mult: u64) -> (String, R) {
    let mut cx2 = cx.clone();
    cx2.ld += 1;
    cx2.mult = cx.mult.saturating_mul(mult);
    let mut ps = vec![];
    for (t, r) in params {
      let n = self.fresh("x");
      cx2.push(&n, t, *r);
      ps.push(if annotate { format!("{n}: {}", t.txt()) } else { n });
    }
    let body = self.gen(ret, &cx2, d, want);
    self.feat("lambda");
    (format!("({}) -> {}", ps.join(", "), body.s), body.r)
  }

  fn fn_conv(&self, t: &Ty) -> R {
    if *t == Ty::Int {
      FNP
    } else {
      self.dflt(t)
    }
  }

  fn p_lambda(&mut self, ty: &Ty, cx: &Ctx, d: u32) -> Option<E> {
    if let Ty::F(ps, ret) = ty {
      let params: Vec<(Ty, R)> = ps.iter().map(|t| (t.clone(), self.fn_conv(t))).collect();
      let (s, _) = self.lambda_with(&params, ret, self.dflt(ret), cx, d - 1, true, 4);
      return Some(opx(s, ANY));
    }
    None
  }

  fn p_fnref(&mut self, ty: &Ty, cx: &Ctx) -> Option<E> {
    if let Ty::F(ps, ret) = ty {
      let mut cands = vec![];
      for (i, s) in self.sigs.iter().enumerate() {
        if s.noref || !matches!(s.kind, SK::Plain) || s.ret != **ret || s.params.len() != ps.len() || !self.sig_visible(s, cx) {
          continue;
        }
        if s.cost.saturating_mul(cx.mult).saturating_mul(8) > CALLCAP {
          continue;
        }
        if !s.params.iter().zip(ps.iter()).all(|((_, t, r), pt)| t == pt && (!self.sized(t) || self.fits(t, self.fn_conv(t), *r))) {
          continue;
        }
        if !self.fits(ret, s.rr, self.dflt(ret)) {
          continue;
        }
        cands.push(i);
      }
      if cands.is_empty() {
        return None;
      }
      let i = cands[self.rng.below(cands.len())];
      let s = self.sigs[i].clone();
      if !s.pure {
        self.impure = true;
      }
      self.sigs[i].used += 1;
      self.spend(s.cost.saturating_mul(cx.mult).saturating_mul(8));
      self.curlevel = self.curlevel.max(s.level + 1);
      return match &s.recv {
        None => {
          self.feat("function-reference");
          Some(atom(format!("{}.{}", s.cls, s.name), ANY))
        }
        Some(rt) => {
          // a reference to a method of a generic class whose type mentions T crashes the compiler (region genmethodref)
          if matches!(rt, Ty::C(_, a) if !a.is_empty()) && !self.allowed("genmethodref") {
            return None;
          }
          let recv = match self.p_var(rt, cx, self.dflt(rt)) {
            Some(v) => v.s,
            None => {
              let rcx = self.recv_cx(cx);
              let e = self.gen(rt, &rcx, 1, self.dflt(rt));
              format!("({})", e.s)
            }
          };
          self.feat("method-reference");
          Some(atom(format!("{recv}.{}", s.name), ANY))
        }
      };
    }
    None
  }

  /// call of a function-typed variable in scope
  fn p_fncall(&mut self, ty: &Ty, cx: &Ctx, d: u32, want: R) -> Option<E> {
    let cands: Vec<(String, Vec<Ty>, u32)> = cx
      .visible()
      .into_iter()
      .filter_map(|v| match &v.ty {
        Ty::F(ps, r) if **r == *ty => Some((v.name.clone(), ps.clone(), v.ld)),
        _ => None,
      })
      .collect();
    if cands.is_empty() || cx.mult > 60 {
      return None;
    }
    let (n, ps, ld) = cands[self.rng.below(cands.len())].clone();
    if !self.fits(ty, self.dflt(ty), want) {
      return None;
    }
    let args: Vec<String> = ps.iter().map(|t| self.gen(t, cx, d - 1, self.fn_conv(t)).s).collect();
    if cx.ld > ld {
      self.feat("lambda-capture");
    }
    self.feat("closure-call");
    self.spend(40 * cx.mult);
    Some(atom(format!("{n}({})", args.join(", ")), self.dflt(ty)))
  }

  /// a lambda called immediately or after being bound
  fn p_lamcall(&mut self, ty: &Ty, cx: &Ctx, d: u32, want: R) -> Option<E> {
    if matches!(ty, Ty::F(..)) {
      return None;
    }
    let np = 1 + self.rng.below(2);
    let mut params = vec![];
    let mut args = vec![];
    for _ in 0..np {
      let t = if self.rng.chance(2, 3) { Ty::Int } else { self.pick_ty(cx.module) };
      if matches!(t, Ty::F(..)) {
        return None;
      }
      let a = self.gen(&t, cx, d - 1, self.wide(&t));
      params.push((t.clone(), if self.sized(&t) { a.r } else { ANY }));
      args.push(a.s);
    }
    let (lam, r) = self.lambda_with(&params, ty, want, cx, d - 1, true, 1);
    if self.rng.chance(1, 2) {
      self.feat("lambda-immediate-call");
      Some(atom(format!("(({lam}))({})", args.join(", ")), r))
    } else {
      let f = self.fresh("f");
      self.feat("lambda-deferred-call");
      Some(E { s: format!("{{\nlet {f} = {lam};\n{f}({})\n}}", args.join(", ")), r, k: K::Block })
    }
  }

  // ------------------------------------------------------------------ int productions
  fn p_arith(&mut self, cx: &Ctx, d: u32, want: R) -> Option<E> {
    let free = self.boundary && want == FULL;
    match self.rng.below(7) {
      0..=2 => {
        let (wa, wb) = if free {
          (FULL, FULL)
        } else if want.0 <= 0 && want.1 >= 0 {
          let h = (want.0 / 2, want.1 / 2);
          (h, h)
        } else {
          // translate: a in a sub-interval containing 0 is impossible; use literal offset
          let mid = (want.0 + want.1) / 2;
          let half = (want.1 - want.0) / 2;
          let a = self.gen_int(cx, d - 1, (-(half / 2), half / 2));
          return Some(opx(format!("{} + {}", par(&a), lit(mid)), radd(a.r, (mid, mid))));
        };
        let a = self.gen_int(cx, d - 1, wa);
        let b = self.gen_int(cx, d - 1, wb);
        Some(opx(format!("{} + {}", par(&a), par(&b)), radd(a.r, b.r)))
      }
      3 | 4 => {
        let (wa, wb) = if free {
          (FULL, FULL)
        } else if want.0 <= 0 && want.1 >= 0 {
          ((want.0 / 2, want.1 / 2), (-(want.1 / 2), -(want.0 / 2)))
        } else {
          return None;
        };
        let a = self.gen_int(cx, d - 1, wa);
        let b = self.gen_int(cx, d - 1, wb);
        Some(opx(format!("{} - {}", par(&a), par(&b)), rminus(a.r, b.r)))
      }
      _ => {
        let (wa, wb) = if free {
          (FULL, FULL)
        } else {
          let m = (-want.0).min(want.1);
          if m < 4 {
            return None;
          }
          let s = isqrt(m);
          // asymmetric split: a small factor and a larger one
          if self.rng.chance(1, 2) && s > 12 {
            let k = 2 + self.rng.below(8) as i64;
            ((-k, k), (-(m / k), m / k))
          } else {
            ((-s, s), (-s, s))
          }
        };
        let a = self.gen_int(cx, d - 1, wa);
        let b = self.gen_int(cx, d - 1, wb);
        Some(opx(format!("{} * {}", par(&a), par(&b)), rmul(a.r, b.r)))
      }
    }
  }

  fn nonzero_lit(&mut self, maxabs: i64, allow_neg: bool) -> i64 {
    let v = 2 + self.rng.below((maxabs - 1) as usize) as i64;
    if allow_neg && self.rng.chance(1, 3) {
      -v
    } else {
      v
    }
  }

  fn p_mod(&mut self, cx: &Ctx, d: u32, want: R) -> Option<E> {
    // variable modulus of known non-zero sign, or guarded
    let dvs: Vec<(String, R)> = cx.visible().into_iter().filter(|v| v.ty == Ty::Int && v.r.1 - v.r.0 <= 2000 && v.r != (0, 0) && (v.r.0 > IMIN)).map(|v| (v.name.clone(), v.r)).collect();
    let w = self.wide(&Ty::Int);
    if !dvs.is_empty() && self.rng.chance(1, 3) {
      let (n, r) = dvs[self.rng.below(dvs.len())].clone();
      let a = self.gen_int(cx, d - 1, w);
      let m = r.0.abs().max(r.1.abs());
      let res = rmodlit(a.r, m.max(2));
      let has_zero = r.0 <= 0 && r.1 >= 0;
      self.feat("mod");
      if self.boundary && r.0 <= -1 && r.1 >= -1 && a.r.0 == IMIN {
        return None;
      }
      if has_zero {
        let alt = self.gen_int(cx, 0, want);
        self.feat("guarded-divisor");
        return Some(opx(format!("if {n} != 0 {{ {} % {n} }} else {{ {} }}", par(&a), alt.s), hull(res, alt.r)));
      }
      return Some(opx(format!("{} % {n}", par(&a)), res));
    }
    let dl = self.nonzero_lit(17, true);
    let a = self.gen_int(cx, d - 1, w);
    self.feat("mod");
    if a.r.0 < 0 {
      self.feat("mod-negative-dividend");
    }
    if dl < 0 {
      self.feat("mod-negative-divisor");
    }
    Some(opx(format!("{} % {}", par(&a), lit(dl)), rmodlit(a.r, dl)))
  }

  fn p_div(&mut self, cx: &Ctx, d: u32, want: R) -> Option<E> {
    let w = self.wide(&Ty::Int);
    let negdiv = self.allowed("negdiv");
    let mode = self.rng.below(10);
    // guarded / sign-known variable divisor
    if mode < 3 {
      let dvs: Vec<(String, R)> = cx
        .visible()
        .into_iter()
        .filter(|v| v.ty == Ty::Int && (v.r.0 >= 0 || v.r.1 <= 0) && v.r != (0, 0) && v.r.0 > IMIN)
        .map(|v| (v.name.clone(), v.r))
        .collect();
      if dvs.is_empty() {
        return None;
      }
      let (n, r) = dvs[self.rng.below(dvs.len())].clone();
      let pos = r.0 >= 0;
      let aw = if pos { (0, want.1.min(w.1).max(0)) } else { ((-(want.1.min(w.1))).min(0), 0) };
      if want.0 > 0 {
        return None;
      }
      let a = self.gen_int(cx, d - 1, aw);
      let res = (0, a.r.0.abs().max(a.r.1.abs()));
      self.feat("div");
      if !pos {
        self.feat("div-neg-neg");
      }
      if r.0 <= 0 && r.1 >= 0 {
        let alt = self.gen_int(cx, 0, want);
        self.feat("guarded-divisor");
        return Some(opx(format!("if {n} != 0 {{ {} / {n} }} else {{ {} }}", par(&a), alt.s), hull(res, alt.r)));
      }
      return Some(opx(format!("{} / {n}", par(&a)), res));
    }
    let dl = self.nonzero_lit(9, true);
    self.feat("div");
    if mode < 5 || negdiv {
      // exact quotient of an arbitrary dividend: (t - t % d) / d
      let a = self.gen_int(cx, d - 1, w);
      if negdiv {
        self.feat("div-unrestricted");
        return Some(opx(format!("{} / {}", par(&a), lit(dl)), rdivlit(a.r, dl)));
      }
      let t = self.fresh("t");
      self.feat("div-exact-negative");
      let res = rdivlit(a.r, dl);
      return Some(E { s: format!("{{\nlet {t} = {};\n({t} - ({t} % {})) / {}\n}}", a.s, lit(dl), lit(dl)), r: res, k: K::Block });
    }
    // same-sign operands
    if want.1 < 0 {
      return None;
    }
    let lim = want.1.min(w.1 / dl.abs());
    let aw = if dl > 0 { (0, (lim * dl + dl - 1).min(w.1)) } else { ((lim * dl).max(w.0), 0) };
    let a = self.gen_int(cx, d - 1, aw);
    if dl < 0 {
      self.feat("div-neg-neg");
    }
    Some(opx(format!("{} / {}", par(&a), lit(dl)), rdivlit(a.r, dl)))
  }

  fn p_toint(&mut self, cx: &Ctx, d: u32, want: R) -> Option<E> {
    self.feat("str-toint");
    if self.rng.chance(1, 2) {
      let lo = want.0.max(-999_999_999);
      let hi = want.1.min(999_999_999);
      if lo > hi {
        return None;
      }
      let span = (hi - lo).min(if self.rng.chance(1, 4) { 999_999_999 } else { 500 });
      let base = if lo <= 0 && hi >= 0 { (-(span / 2)).max(lo) } else { lo };
      let v = base + self.rng.below((span.min(hi - base) + 1) as usize) as i64;
      return Some(atom(format!("\"{v}\".toInt()"), (v, v)));
    }
    let w = (want.0.max(-999_999_999), want.1.min(999_999_999));
    if w.0 > w.1 {
      return None;
    }
    let a = self.gen_int(cx, d - 1, w);
    self.feat("str-fromint");
    Some(atom(format!("Str.fromInt({}).toInt()", a.s), a.r))
  }

  fn p_len(&mut self, cx: &Ctx, _d: u32, want: R) -> Option<E> {
    let cands: Vec<(String, R, bool)> = cx
      .visible()
      .into_iter()
      .filter_map(|v| match &v.ty {
        t if Self::is_list(t) => Some((v.name.clone(), (0, v.r.1), true)),
        Ty::V(_) => Some((v.name.clone(), (0, VLEN), false)),
        _ => None,
      })
      .collect();
    if cands.is_empty() {
      return None;
    }
    let (n, r, is_list) = cands[self.rng.below(cands.len())].clone();
    if !rsub(r, want) {
      return None;
    }
    self.feat(if is_list { "list-ops" } else { "vec-ops" });
    self.spend(if is_list { 60 * cx.mult } else { 2 });
    Some(atom(format!("{n}.length()"), r))
  }

  fn list_of(&mut self, elem: &Ty, cx: &Ctx, d: u32) -> E {
    let lt = Ty::list(elem.clone());
    if let Some(v) = self.p_var(&lt, cx, LLEN) {
      if self.rng.chance(2, 3) {
        return v;
      }
    }
    let rcx = self.recv_cx(cx);
    self.gen(&lt, &rcx, d, (0, 8))
  }

  fn p_fold(&mut self, cx: &Ctx, d: u32, want: R) -> Option<E> {
    let elem = if self.rng.chance(3, 4) { Ty::Int } else { self.pick_ty(cx.module) };
    if matches!(elem, Ty::V(_) | Ty::F(..)) || cx.mult > 60 {
      return None;
    }
    let l = self.list_of(&elem, cx, d - 1);
    let n = l.r.1.max(1);
    let m = (-want.0).min(want.1);
    if m < 2 * n {
      return None;
    }
    let per = (m / 2 / n).min(5000);
    let init = self.gen_int(cx, d - 1, (-(m / 2), m / 2));
    let mut cx2 = cx.clone();
    cx2.ld += 1;
    cx2.mult = cx.mult.saturating_mul(12);
    let (acc, x) = (self.fresh("acc"), self.fresh("x"));
    cx2.push(&x, &elem, self.dflt(&elem));
    let e = self.gen_int(&cx2, d - 1, (-per, per));
    let total = radd(init.r, (e.r.0.min(0) * n, e.r.1.max(0) * n));
    self.feat("list-ops");
    self.feat("list-fold");
    self.feat("lambda");
    self.spend(100 * cx.mult);
    let right = self.rng.chance(1, 4);
    if right {
      Some(atom(format!("{}.foldRight(({x}, {acc}) -> {} + {acc}, {})", par(&l), par(&e), init.s), total))
    } else {
      Some(atom(format!("{}.fold(({acc}, {x}) -> {acc} + {}, {})", par(&l), par(&e), init.s), total))
    }
  }

  fn p_valuemap(&mut self, cx: &Ctx, d: u32, want: R) -> Option<E> {
    // std's `valueMap(default: R, ..)` has a TypeScript reserved word as a parameter name (known region)
    if !self.allowed("tsreserved") {
      return None;
    }
    let elem = if self.rng.chance(2, 3) { Ty::Int } else { self.pick_ty(cx.module) };
    if matches!(elem, Ty::V(_) | Ty::F(..)) {
      return None;
    }
    let ot = Ty::option(elem.clone());
    let o = match self.p_var(&ot, cx, ANY) {
      Some(v) => v,
      None => {
        let rcx = self.recv_cx(cx);
        self.gen(&ot, &rcx, d - 1, ANY)
      }
    };
    let dv = self.gen_int(cx, d - 1, want);
    let (lam, r) = self.lambda_with(&[(elem.clone(), self.dflt(&elem))], &Ty::Int, want, cx, d - 1, false, 1);
    self.feat("option-ops");
    Some(atom(format!("{}.valueMap({}, {lam})", par(&o), dv.s), hull(dv.r, r)))
  }

  fn p_listpred(&mut self, cx: &Ctx, d: u32) -> Option<E> {
    let elem = if self.rng.chance(3, 4) { Ty::Int } else { Ty::Str };
    if cx.mult > 60 {
      return None;
    }
    let l = self.list_of(&elem, cx, d - 1);
    self.feat("list-ops");
    self.spend(100 * cx.mult);
    match self.rng.below(4) {
      0 => Some(atom(format!("{}.isEmpty()", par(&l)), ANY)),
      1 => {
        let (lam, _) = self.lambda_with(&[(elem.clone(), self.dflt(&elem))], &Ty::Bool, ANY, cx, d - 1, false, 12);
        Some(atom(format!("{}.exists({lam})", par(&l)), ANY))
      }
      2 => {
        let (lam, _) = self.lambda_with(&[(elem.clone(), self.dflt(&elem))], &Ty::Bool, ANY, cx, d - 1, false, 12);
        Some(atom(format!("{}.forAll({lam})", par(&l)), ANY))
      }
      _ => {
        let x = self.gen(&elem, cx, d - 1, self.dflt(&elem));
        Some(atom(format!("{}.contains({}, (ca, cb) -> ca == cb)", par(&l), x.s), ANY))
      }
    }
  }

  // ------------------------------------------------------------------ Str productions
  fn show_len(&self, ty: &Ty, depth: u32) -> i64 {
    if depth > 4 {
      return 100000;
    }
    match ty {
      Ty::Int => 11,
      Ty::Bool => 1,
      Ty::Str => SLEN.1,
      Ty::Unit => 4,
      Ty::F(..) | Ty::V(_) | Ty::T(_) => 100000,
      Ty::C(n, a) => {
        if n == "List" || self.is_rec(ty) {
          return 100000;
        }
        if n == "Option" {
          return 6 + self.show_len(&a[0], depth + 1);
        }
        if let Some(fs) = self.fields_of(ty) {
          return n.len() as i64 + 2 + fs.iter().map(|f| 1 + self.show_len(&f.ty, depth + 1)).sum::<i64>();
        }
        if let Some(vs) = self.variants_of(ty) {
          return vs.iter().map(|v| v.name.len() as i64 + 2 + v.args.iter().map(|x| 1 + self.show_len(&x.0, depth + 1)).sum::<i64>()).max().unwrap_or(0);
        }
        100000
      }
    }
  }

  fn p_showof(&mut self, cx: &Ctx, want: R) -> Option<E> {
    let cands: Vec<(String, Ty)> = cx.visible().into_iter().filter(|v| matches!(v.ty, Ty::C(..)) && self.show_len(&v.ty, 0) <= want.1).map(|v| (v.name.clone(), v.ty.clone())).collect();
    if cands.is_empty() || cx.mult > 12 {
      return None;
    }
    let (n, t) = cands[self.rng.below(cands.len())].clone();
    let s = self.show_expr(&t, &n, 0);
    self.spend(50 * cx.mult);
    self.curlevel = self.curlevel.max(3);
    Some(atom(s, (0, self.show_len(&t, 0))))
  }

  /// a Str-typed expression rendering `e` (an atomic expression of type `ty`)
  fn show_expr(&mut self, ty: &Ty, e: &str, depth: u32) -> String {
    let x = format!("s{depth}");
    match ty {
      Ty::Int => format!("Str.fromInt({e})"),
      Ty::Bool => format!("ShowStd.showBool({e})"),
      Ty::Str => e.to_string(),
      Ty::Unit => "\"unit\"".into(),
      Ty::T(_) => "\"?\"".into(),
      Ty::F(ps, r) => {
        // apply to sample arguments
        let cx = Ctx { vars: vec![], this: None, cls: String::new(), module: 0, maxlevel: 0, mult: 1, ld: 0, banned: vec![], pure: true };
        let args: Vec<String> = ps.iter().map(|t| self.minimal(t, &cx, self.fn_conv(t)).s).collect();
        let call = format!("{e}({})", args.join(", "));
        if matches!(**r, Ty::F(..)) {
          return "\"<fn>\"".into();
        }
        let t = self.fresh("w");
        let inner = self.show_expr(r, &t, depth + 1);
        format!("{{\nlet {t} = {call};\n{inner}\n}}")
      }
      Ty::V(t) => {
        let inner = self.show_expr(t, &x, depth + 1);
        format!("ShowStd.showVec({e}, ({x}) -> {inner}, 0, \"[\")")
      }
      Ty::C(n, a) => {
        if n == "List" {
          let inner = self.show_expr(&a[0], &x, depth + 1);
          return format!("ShowStd.showList({e}, ({x}) -> {inner})");
        }
        if n == "Option" {
          let inner = self.show_expr(&a[0], &x, depth + 1);
          return format!("ShowStd.showOpt({e}, ({x}) -> {inner})");
        }
        if n == "Pair" {
          let y = format!("r{depth}");
          let i0 = self.show_expr(&a[0], &x, depth + 1);
          let i1 = self.show_expr(&a[1], &y, depth + 1);
          return format!("ShowStd.showPair({e}, ({x}) -> {i0}, ({y}) -> {i1})");
        }
        if a.is_empty() {
          format!("{e}.show()")
        } else {
          let fs: Vec<String> = a.iter().map(|t| format!("({x}) -> {}", self.show_expr(t, &x, depth + 1))).collect();
          format!("{e}.show({})", fs.join(", "))
        }
      }
    }
  }

  // ------------------------------------------------------------------ class-typed productions
  fn p_ctor(&mut self, ty: &Ty, cx: &Ctx, d: u32, want: R) -> Option<E> {
    let Ty::C(n, targs) = ty else { return None };
    if n == "List" {
      return self.p_listbuild(ty, cx, d, want);
    }
    if let Some(fs) = self.fields_of(ty) {
      let mut args = vec![];
      for f in &fs {
        args.push(self.gen(&f.ty, cx, d.saturating_sub(1), f.r).s);
      }
      self.feat("struct-init");
      if n == "Pair" {
        if self.rng.chance(1, 2) {
          self.feat("tuple-expr");
          return Some(atom(format!("({})", args.join(", ")), ANY));
        }
        return Some(atom(format!("Pair.init({})", args.join(", ")), ANY));
      }
      return Some(atom(format!("{n}.init({})", args.join(", ")), ANY));
    }
    let vs = self.variants_of(ty)?;
    let rec = self.is_rec(ty);
    // candidate variants: respect the node budget and the depth
    let mut cands: Vec<usize> = vec![];
    for (i, v) in vs.iter().enumerate() {
      let nrec = v.args.iter().filter(|a| self.is_rec(&a.0)).count() as i64;
      let rk = v.args.iter().map(|a| self.rank(&a.0, &mut vec![ty.clone()])).max().unwrap_or(0);
      if rk >= 1000 {
        continue;
      }
      if rec && nrec > 0 && (d == 0 || (want.1 - 1) / nrec < 1) {
        continue;
      }
      if d == 0 && rk > 1 {
        continue;
      }
      cands.push(i);
    }
    if cands.is_empty() {
      return Some(self.minimal(ty, cx, want));
    }
    // prefer payload variants when depth allows
    let heavy: Vec<usize> = cands.iter().cloned().filter(|i| !vs[*i].args.is_empty()).collect();
    let i = if d > 0 && !heavy.is_empty() && self.rng.chance(3, 4) { heavy[self.rng.below(heavy.len())] } else { cands[self.rng.below(cands.len())] };
    let v = &vs[i];
    let nrec = v.args.iter().filter(|a| self.is_rec(&a.0)).count() as i64;
    let mut nodes = 1;
    let mut args = vec![];
    for (t, r) in &v.args {
      let w = if self.is_rec(t) { (0, ((want.1 - 1) / nrec.max(1)).min(NODES.1)) } else { *r };
      let e = self.gen(t, cx, d.saturating_sub(1), w);
      if self.is_rec(t) {
        nodes += e.r.1.max(1);
      }
      args.push(e.s);
    }
    self.feat("enum-init");
    let ta = if targs.is_empty() { String::new() } else { Self::targs(ty) };
    Some(atom(format!("{n}.{}{ta}({})", v.name, args.join(", ")), if rec { (0, nodes) } else { ANY }))
  }

  fn p_listbuild(&mut self, ty: &Ty, cx: &Ctx, d: u32, want: R) -> Option<E> {
    let Ty::C(_, a) = ty else { return None };
    let elem = &a[0];
    let maxn = want.1.min(5);
    if maxn < 1 {
      return Some(atom(format!("List.nil<{}>()", elem.txt()), (0, 0)));
    }
    let n = 1 + self.rng.below(maxn as usize) as i64;
    let mut s = format!("List.of({})", self.gen(elem, cx, d.saturating_sub(1), self.dflt(elem)).s);
    for _ in 1..n {
      s.push_str(&format!(".cons({})", self.gen(elem, cx, d.saturating_sub(1), self.dflt(elem)).s));
    }
    self.feat("list-ops");
    self.spend(5 * n as u64);
    Some(atom(s, (0, n)))
  }

  fn p_listop(&mut self, ty: &Ty, cx: &Ctx, d: u32, want: R) -> Option<E> {
    let Ty::C(_, a) = ty else { return None };
    let elem = a[0].clone();
    if cx.mult > 60 {
      return None;
    }
    self.feat("list-ops");
    self.spend(150 * cx.mult);
    let rcx = self.recv_cx(cx);
    match self.rng.below(7) {
      0 | 1 => {
        // map from a list of some element type
        let src = if self.rng.chance(1, 2) { elem.clone() } else { Ty::Int };
        let lt = Ty::list(src.clone());
        let l = match self.p_var(&lt, cx, want) {
          Some(v) => v,
          None => {
            let rcx = self.recv_cx(cx);
            self.gen(&lt, &rcx, d - 1, (0, want.1.min(8)))
          }
        };
        let (lam, _) = self.lambda_with(&[(src.clone(), self.dflt(&src))], &elem, self.dflt(&elem), cx, d - 1, false, 12);
        self.feat("list-map");
        Some(atom(format!("{}.map({lam})", par(&l)), l.r))
      }
      2 | 3 => {
        let l = self.gen(ty, &rcx, d - 1, want);
        let (lam, _) = self.lambda_with(&[(elem.clone(), self.dflt(&elem))], &Ty::Bool, ANY, cx, d - 1, false, 12);
        self.feat("list-filter");
        Some(atom(format!("{}.filter({lam})", par(&l)), l.r))
      }
      4 => {
        let l = self.gen(ty, &rcx, d - 1, want);
        Some(atom(format!("{}.reverse()", par(&l)), l.r))
      }
      5 => {
        let half = (0, want.1 / 2);
        if half.1 < 1 {
          return None;
        }
        let l1 = self.gen(ty, &rcx, d - 1, half);
        let l2 = self.gen(ty, cx, d - 1, half);
        Some(atom(format!("{}.append({})", par(&l1), par(&l2)), (0, l1.r.1 + l2.r.1)))
      }
      _ => {
        if want.1 < 2 {
          return None;
        }
        let l = self.gen(ty, &rcx, d - 1, (0, want.1 - 1));
        let x = self.gen(&elem, cx, d - 1, self.dflt(&elem));
        Some(atom(format!("{}.cons({})", par(&l), x.s), (0, l.r.1 + 1)))
      }
    }
  }

  fn p_optop(&mut self, ty: &Ty, cx: &Ctx, d: u32) -> Option<E> {
    let Ty::C(_, a) = ty else { return None };
    let elem = a[0].clone();
    if cx.mult > 60 {
      return None;
    }
    self.feat("option-ops");
    let rcx = self.recv_cx(cx);
    match self.rng.below(5) {
      0 => {
        let l = self.list_of(&elem, cx, d - 1);
        self.feat("list-ops");
        Some(atom(format!("{}.first()", par(&l)), ANY))
      }
      1 => {
        let l = self.list_of(&elem, cx, d - 1);
        let (lam, _) = self.lambda_with(&[(elem.clone(), self.dflt(&elem))], &Ty::Bool, ANY, cx, d - 1, false, 12);
        self.feat("list-ops");
        self.spend(100 * cx.mult);
        Some(atom(format!("{}.find({lam})", par(&l)), ANY))
      }
      2 => {
        let o = self.gen(ty, &rcx, d - 1, ANY);
        let (lam, _) = self.lambda_with(&[(elem.clone(), self.dflt(&elem))], &elem, self.dflt(&elem), cx, d - 1, false, 1);
        Some(atom(format!("{}.map({lam})", par(&o)), ANY))
      }
      3 => {
        let o = self.gen(ty, &rcx, d - 1, ANY);
        let (lam, _) = self.lambda_with(&[(elem.clone(), self.dflt(&elem))], &Ty::Bool, ANY, cx, d - 1, false, 1);
        Some(atom(format!("{}.filter({lam})", par(&o)), ANY))
      }
      _ => {
        let x = self.gen(&elem, cx, d - 1, self.dflt(&elem));
        Some(atom(format!("Option.Some({})", x.s), ANY))
      }
    }
  }

  // ------------------------------------------------------------------ Vec scenarios
  /// `{ let v = Vec.empty<int>(); v.push(..); ...; <int result> }` with the length tracked exactly
  fn p_vecblock(&mut self, cx: &Ctx, d: u32, want: R) -> Option<E> {
    if want.0 > -3000 || want.1 < 3000 {
      return None;
    }
    let v = self.fresh("vec");
    let mut lines = vec![];
    let mut len: i64 = 0;
    match self.rng.below(3) {
      0 => lines.push(format!("let {v} = Vec.empty<int>();")),
      1 => {
        lines.push(format!("let {v} = Vec.withCapacity<int>({});", 1 + self.rng.below(20)));
      }
      _ => {
        let e = self.gen_int(cx, d - 1, STORE);
        lines.push(format!("let {v} = Vec.of<int>({});", e.s));
        len = 1;
      }
    }
    let nops = 3 + self.rng.below(5);
    let mut cx2 = cx.clone();
    let mut picked: Vec<String> = vec![];
    for _ in 0..nops {
      match self.rng.below(8) {
        0..=3 => {
          let e = self.gen_int(&cx2, d - 1, STORE);
          lines.push(format!("{v}.push({});", e.s));
          len += 1;
        }
        4 if len > 0 => {
          let i = self.rng.below(len as usize);
          let e = self.gen_int(&cx2, d - 1, STORE);
          lines.push(format!("{v}.set({i}, {});", e.s));
        }
        5 if len > 0 => {
          let t = self.fresh("pv");
          lines.push(format!("let {t} = {v}.pop();"));
          cx2.push(&t, &Ty::Int, STORE);
          picked.push(t);
          len -= 1;
        }
        6 if len > 0 => {
          let t = self.fresh("gv");
          let i = self.rng.below(len as usize);
          lines.push(format!("let {t} = {v}.get({i});"));
          cx2.push(&t, &Ty::Int, STORE);
          picked.push(t);
        }
        7 => lines.push(format!("{v}.reserve({});", self.rng.below(40))),
        _ => {
          let e = self.gen_int(&cx2, d - 1, STORE);
          lines.push(format!("{v}.push({});", e.s));
          len += 1;
        }
      }
    }
    let mut parts: Vec<String> = vec![format!("{v}.length()")];
    let mut r: R = (len, len);
    if len > 0 {
      let i = self.rng.below(len as usize);
      parts.push(format!("{v}.get({i})"));
      r = radd(r, STORE);
    }
    if let Some(p) = picked.last() {
      parts.push(p.clone());
      r = radd(r, STORE);
    }
    self.feat("vec-ops");
    self.spend(20);
    Some(E { s: format!("{{\n{}\n{}\n}}", lines.join("\n"), parts.join(" + ")), r, k: K::Block })
  }

  fn p_vecbuild(&mut self, ty: &Ty, cx: &Ctx, d: u32) -> Option<E> {
    let Ty::V(t) = ty else { return None };
    let v = self.fresh("vec");
    let mut lines = vec![format!("let {v} = Vec.empty<{}>();", t.txt())];
    let n = 1 + self.rng.below(4);
    for _ in 0..n {
      let e = self.gen(t, cx, d - 1, self.dflt(t));
      lines.push(format!("{v}.push({});", e.s));
    }
    self.feat("vec-ops");
    Some(E { s: format!("{{\n{}\n{v}\n}}", lines.join("\n")), r: ANY, k: K::Block })
  }
}

trait Pipe: Sized {
  fn pipe<T>(self, f: impl FnOnce(Self) -> T) -> T {
    f(self)
  }
}
impl Pipe for i64 {}
