//! C10 / C11: drives the real `samlang_services::server_state::ServerState` through edit
//! histories and records one ndjson event per operation (schema: DESIGN.md A.2, spec/ServerTrace.tla).
//! After every edit the diagnostics held by the incremental server are recorded next to those of
//! a freshly started server on the same file contents, plus the recheck set (hook H2), the map
//! domains, and the outcome of every query kind at a grid of positions (C11).
use crate::util::{arg, arg_or, guarded, silence_panics, Rng};
use samlang_ast::{Location, Position};
use samlang_heap::{Heap, ModuleReference};
use samlang_services::server_state::ServerState;
use serde_json::{json, Value};
use std::collections::{BTreeMap, HashMap};
use std::io::Write;

/// Abstract content (the record Server.tla works with) -> concrete samlang text.
/// {"syn":bool, "decl":{"n":X|"none","v":"v0"|"v1"|"none"}, "imp":[X..], "own":bool, "self":bool, "long":bool}
/// or {"text": "..."} for free-form contents.
pub fn instantiate(c: &Value) -> String {
  instantiate_with_sites(c).0
}

/// Also returns, per 1-based line number, what the line is: ("import"|"use", x) or ("own", "").
pub fn instantiate_with_sites(c: &Value) -> (String, BTreeMap<usize, (String, String)>) {
  let mut sites = BTreeMap::new();
  if let Some(t) = c.get("text").and_then(|t| t.as_str()) {
    return (t.to_string(), sites);
  }
  if c["syn"].as_bool().unwrap_or(false) {
    return ("class {\n".to_string(), sites);
  }
  // `long`: identifiers of >= 16 bytes at every site class, so that they live in the GC'd table
  let long = c["long"].as_bool().unwrap_or(false);
  let sfx = if long { "WithAVeryLongSuffix" } else { "" };
  let mut lines: Vec<String> = vec![];
  let mut imps: Vec<String> =
    c["imp"].as_array().map(|a| a.iter().map(|x| x.as_str().unwrap().to_string()).collect()).unwrap_or_default();
  imps.sort();
  for x in &imps {
    lines.push(format!("import {{ K{x}{sfx} }} from {x}"));
    sites.insert(lines.len(), ("import".to_string(), x.clone()));
  }
  lines.push(String::new());
  let n = c["decl"]["n"].as_str().unwrap_or("none");
  if n != "none" {
    let body = if c["decl"]["v"] == "v0" { "int = 1" } else { "Str = \"s\"" };
    lines.push(format!("class K{n}{sfx} {{"));
    lines.push(format!("  function f{sfx}(): {body}"));
    if c["self"].as_bool().unwrap_or(false) {
      // members whose signature mentions the class itself (a nominal type of this module)
      lines.push(format!("  function same{sfx}(a{sfx}: K{n}{sfx}): K{n}{sfx} = a{sfx}"));
      lines.push(format!("  function twice{sfx}(a{sfx}: K{n}{sfx}): K{n}{sfx} = K{n}{sfx}.same{sfx}(a{sfx})"));
    }
    lines.push("}".to_string());
  }
  if !imps.is_empty() {
    lines.push(format!("class U{sfx} {{"));
    for x in &imps {
      lines.push(format!("  function g{x}{sfx}(): int = K{x}{sfx}.f{sfx}()"));
      sites.insert(lines.len(), ("use".to_string(), x.clone()));
    }
    lines.push("}".to_string());
  }
  if c["own"].as_bool().unwrap_or(false) {
    lines.push(format!("class O{sfx} {{"));
    lines.push(format!("  function h{sfx}(): int = \"own type error {sfx}\""));
    sites.insert(lines.len(), ("own".to_string(), String::new()));
    lines.push("}".to_string());
  }
  (lines.join("\n") + "\n", sites)
}

/// Rendered diagnostics of module `m` with abstract content `c` -> the abstract errors of Server.tla.
fn abstract_diag(m: &str, c: &Value, diag: &[String]) -> Vec<Value> {
  let (_, sites) = instantiate_with_sites(c);
  let mut out = std::collections::BTreeSet::new();
  for d in diag {
    // "<syntax|type>|M.sam:L:c-L:c: message"
    let (class, rest) = d.split_once('|').unwrap_or(("type", d));
    // location "<file>.sam:L:c-L:c" then ": message"
    let after = rest.find(".sam:").map(|i| &rest[i + 5..]).unwrap_or("");
    let line: usize = after.split(':').next().and_then(|x| x.parse().ok()).unwrap_or(0);
    let msg = after.find(": ").map(|i| after[i + 2..].trim()).unwrap_or("");
    let site = sites.get(&line);
    let e = if class == "syntax" {
      ("syntax".to_string(), m.to_string())
    } else if msg.starts_with("Cannot resolve module") {
      ("nomodule".to_string(), site.map(|s| s.1.clone()).unwrap_or_default())
    } else if msg.starts_with("There is no") {
      ("noexport".to_string(), site.map(|s| s.1.clone()).unwrap_or_default())
    } else if msg.starts_with("Cannot resolve class") {
      ("unresolved".to_string(), site.map(|s| s.1.clone()).unwrap_or_default())
    } else if msg.contains("is incompatible with") {
      match site {
        Some((k, x)) if k == "use" => ("mismatch".to_string(), x.clone()),
        Some((k, _)) if k == "own" => ("own".to_string(), m.to_string()),
        _ => ("stale".to_string(), m.to_string()),
      }
    } else {
      ("other".to_string(), msg.to_string())
    };
    out.insert(e);
  }
  out.into_iter().map(|(k, x)| json!([k, x])).collect()
}

/// fills in the defaults of an abstract content so that the trace carries complete records
pub fn normalize(c: &Value) -> Value {
  if c.get("text").is_some() {
    return c.clone();
  }
  let mut imp: Vec<String> =
    c["imp"].as_array().map(|a| a.iter().map(|x| x.as_str().unwrap().to_string()).collect()).unwrap_or_default();
  imp.sort();
  let syn = c["syn"].as_bool().unwrap_or(false);
  let decl = if syn || !c["decl"].is_object() { json!({"n": "none", "v": "none"}) } else { c["decl"].clone() };
  let mut out = json!({
    "syn": syn, "decl": decl, "imp": if syn { vec![] } else { imp },
    "own": !syn && c["own"].as_bool().unwrap_or(false), "self": !syn && c["self"].as_bool().unwrap_or(false),
  });
  if c["long"].as_bool().unwrap_or(false) {
    out["long"] = json!(true);
  }
  out
}

pub struct Srv {
  pub state: ServerState,
  /// dotted name -> module reference (allocated in this server's heap)
  names: BTreeMap<String, ModuleReference>,
  /// the (abstract or free-form) content currently at each module name
  pub contents: BTreeMap<String, Value>,
  /// a free-form content has occurred in this history: Server.tla can no longer follow it
  pub freeform_seen: bool,
}

fn mref(heap: &mut Heap, name: &str) -> ModuleReference {
  heap.alloc_module_reference_from_string_vec(name.split('.').map(|s| s.to_string()).collect())
}

fn render(state: &ServerState, m: &ModuleReference) -> Vec<String> {
  let mut v: Vec<String> = state
    .get_errors(m)
    .iter()
    .map(|e| {
      let ide = e.to_ide_format(&state.heap, &state.string_sources);
      let class = if e.is_syntax_error() { "syntax" } else { "type" };
      format!("{class}|{}: {}", e.location.pretty_print(&state.heap), ide.ide_error.trim())
    })
    .collect();
  v.sort();
  v
}

/// diagnostics of a freshly started server on the given sources
fn fresh_diag(sources: &BTreeMap<String, String>) -> Result<BTreeMap<String, Vec<String>>, String> {
  guarded(|| {
    let mut heap = Heap::new();
    let mut hs = HashMap::new();
    let mut names = BTreeMap::new();
    for (n, t) in sources {
      let m = mref(&mut heap, n);
      names.insert(n.clone(), m);
      hs.insert(m, t.clone());
    }
    let st = ServerState::new(heap, false, hs);
    let mut out = BTreeMap::new();
    // every module the fresh server knows or has errors for
    for (n, m) in &names {
      out.insert(n.clone(), render(&st, m));
    }
    out
  })
}

impl Srv {
  pub fn new(files: &BTreeMap<String, String>) -> Result<Srv, String> {
    guarded(|| {
      let mut heap = Heap::new();
      let mut names = BTreeMap::new();
      let mut hs = HashMap::new();
      for (n, t) in files {
        let m = mref(&mut heap, n);
        names.insert(n.clone(), m);
        hs.insert(m, t.clone());
      }
      Srv { state: ServerState::new(heap, false, hs), names, contents: BTreeMap::new(), freeform_seen: false }
    })
  }

  fn m(&mut self, name: &str) -> ModuleReference {
    if let Some(m) = self.names.get(name) {
      return *m;
    }
    let m = mref(&mut self.state.heap, name);
    self.names.insert(name.to_string(), m);
    m
  }

  fn name_of(&self, m: &ModuleReference) -> String {
    m.pretty_print(&self.state.heap)
  }

  pub fn sources(&self) -> BTreeMap<String, String> {
    self.state.string_sources.iter().map(|(m, t)| (self.name_of(m), t.clone())).collect()
  }

  /// post-state observation after an edit
  pub fn observe(&mut self) -> Value {
    let doms = self.state.verif_domains();
    let names = |v: &Vec<ModuleReference>| -> Vec<String> {
      let mut x: Vec<String> = v.iter().map(|m| self.name_of(m)).collect();
      x.sort();
      x
    };
    let mut diag = BTreeMap::new();
    let mut all: Vec<ModuleReference> = self.names.values().copied().collect();
    all.sort();
    let mut diag_panic = Value::Null;
    for m in &all {
      match guarded(|| render(&self.state, m)) {
        Ok(d) => {
          diag.insert(self.name_of(m), d);
        }
        Err(p) => diag_panic = json!(p),
      }
    }
    let srcs = self.sources();
    let fresh = fresh_diag(&srcs);
    let mut recheck: Vec<String> = self.state.verif_last_recheck.iter().map(|m| self.name_of(m)).collect();
    recheck.sort();
    // import edges as the parser sees them (for the DepGraph part of the specification)
    let mut edges = BTreeMap::new();
    {
      let mut heap = Heap::new();
      for (n, t) in &srcs {
        let m = mref(&mut heap, n);
        let mut es = samlang_errors::ErrorSet::new();
        let parsed = samlang_parser::parse_source_module_from_text(t, m, &mut heap, &mut es);
        let mut v: Vec<String> = parsed.imports.iter().map(|i| i.imported_module.pretty_print(&heap)).collect();
        v.sort();
        v.dedup();
        edges.insert(n.clone(), v);
      }
    }
    // diagnostics restricted to modules that currently have a source: those are what the
    // property compares; errors kept for modules without a source are reported separately
    let mut diag_live = BTreeMap::new();
    let mut diag_gone = BTreeMap::new();
    for (n, d) in &diag {
      if srcs.contains_key(n) {
        diag_live.insert(n.clone(), d.clone());
      } else if !d.is_empty() {
        diag_gone.insert(n.clone(), d.clone());
      }
    }
    // abstraction of the held diagnostics (only meaningful for abstract contents)
    let mut abs = BTreeMap::new();
    for (n, d) in &diag_live {
      if let Some(c) = self.contents.get(n) {
        if c.get("text").is_none() {
          abs.insert(n.clone(), abstract_diag(n, c, d));
        }
      }
    }
    let mut post = json!({
      "abs": abs,
      "dom": {"src": names(&doms[0]), "parsed": names(&doms[1]), "checked": names(&doms[2]),
              "sig": names(&doms[3]), "errs": names(&doms[4])},
      "recheck": recheck,
      "edges": edges,
      "diag": diag_live,
      "diag_gone": diag_gone,
    });
    match &fresh {
      Ok(f) => post["fresh"] = json!(f),
      Err(p) => post["fresh_panic"] = json!(p),
    }
    if !diag_panic.is_null() {
      post["diag_panic"] = diag_panic;
    }
    post
  }

  /// all contents currently in the workspace are abstract (Server.tla can follow them)
  pub fn all_abstract(&self) -> bool {
    self.contents.values().all(|c| c.get("text").is_none())
  }

  pub fn exec(&mut self, op: &Value) -> Value {
    let name = op["op"].as_str().unwrap();
    let mut ev = json!({"ev": name});
    let was_abstract = self.all_abstract() && !self.freeform_seen;
    let r = match name {
      "Update" => {
        let mut ups = vec![];
        let mut logged = BTreeMap::new();
        // "before": earlier elements of the same batch for modules that "u" overwrites again (the batch lists a
        // module twice; the later text is the one that counts)
        for (n, c) in op["before"].as_object().cloned().unwrap_or_default().iter() {
          if op["u"].get(n).is_some() {
            ups.push((self.m(n), instantiate(&normalize(c))));
          }
        }
        // measured for the evidence: modules whose text this update re-sends unchanged, and those of them that
        // currently hold a syntax error
        let (mut same, mut same_syn) = (vec![], vec![]);
        for (n, c) in op["u"].as_object().cloned().unwrap_or_default().iter() {
          let m = self.m(n);
          let c = &normalize(c);
          if self.state.string_sources.get(&m) == Some(&instantiate(c)) {
            same.push(n.clone());
            if self.state.get_errors(&m).iter().any(|e| e.is_syntax_error()) {
              same_syn.push(n.clone());
            }
          }
          ups.push((m, instantiate(c)));
          logged.insert(n.clone(), c.clone());
          self.contents.insert(n.clone(), c.clone());
        }
        ev["u"] = json!(logged);
        if !same.is_empty() {
          ev["same"] = json!(same);
          ev["same_syn"] = json!(same_syn);
        }
        guarded(|| self.state.update(ups))
      }
      "Rename" => {
        let mut pairs = vec![];
        for p in op["pairs"].as_array().unwrap() {
          let a = self.m(p[0].as_str().unwrap());
          let b = self.m(p[1].as_str().unwrap());
          pairs.push((a, b));
          if let Some(c) = self.contents.remove(p[0].as_str().unwrap()) {
            self.contents.insert(p[1].as_str().unwrap().to_string(), c);
          }
        }
        ev["pairs"] = op["pairs"].clone();
        guarded(|| self.state.rename_module(pairs))
      }
      "Remove" => {
        let mut ms = vec![];
        for n in op["mods"].as_array().unwrap() {
          ms.push(self.m(n.as_str().unwrap()));
          self.contents.remove(n.as_str().unwrap());
        }
        ev["mods"] = op["mods"].clone();
        guarded(|| self.state.remove(&ms))
      }
      other => panic!("unknown server op {other}"),
    };
    if !self.all_abstract() {
      self.freeform_seen = true;
    }
    ev["abstract"] = json!(was_abstract && self.all_abstract());
    if let Err(p) = r {
      ev["panic"] = json!(p);
      return ev;
    }
    match guarded(|| self.observe()) {
      Ok(o) => ev["post"] = o,
      Err(p) => ev["panic"] = json!(format!("while observing: {p}")),
    }
    ev
  }

  /// C11: every query kind at a grid of positions of every module (and outside the text);
  /// returns (number of requests, list of panics)
  pub fn query_all(&mut self, rng: &mut Rng, dense: bool) -> (usize, Vec<Value>) {
    use samlang_services::{completion, query, rewrite};
    let mut n = 0usize;
    let mut panics = vec![];
    let mods: Vec<(String, ModuleReference)> = self.names.iter().map(|(n, m)| (n.clone(), *m)).collect();
    for (name, m) in mods {
      let text = self.state.string_sources.get(&m).cloned().unwrap_or_default();
      let lines: Vec<&str> = text.lines().collect();
      let mut positions: Vec<(u32, u32)> = vec![];
      for (li, l) in lines.iter().enumerate() {
        let len = l.len() as u32;
        if dense {
          for c in 0..=len {
            positions.push((li as u32, c));
          }
        } else {
          for _ in 0..4 {
            positions.push((li as u32, rng.below(len as usize + 1) as u32));
          }
          positions.push((li as u32, len));
        }
        positions.push((li as u32, len + 7));
      }
      positions.push((lines.len() as u32 + 3, 0));
      positions.push((0, 0));
      positions.push((u32::MAX - 1, u32::MAX - 1));
      let mut record = |kind: &str, pos: Option<(u32, u32)>, r: Result<bool, String>, n: &mut usize| {
        *n += 1;
        if let Err(p) = r {
          panics.push(json!({"kind": kind, "m": name, "pos": pos.map(|p| json!([p.0, p.1])).unwrap_or(json!([])), "panic": p}));
        }
      };
      // whole-document requests
      let st = &self.state;
      record("format", None, guarded(|| rewrite::format_entire_document(st, &m).is_some()), &mut n);
      record("fold", None, guarded(|| query::folding_ranges(st, &m).is_some()), &mut n);
      record("diag", None, guarded(|| !render(st, &m).is_empty()), &mut n);
      for (l, c) in positions {
        let pos = Position(l, c);
        let st = &self.state;
        record("hover", Some((l, c)), guarded(|| query::hover(st, &m, pos).is_some()), &mut n);
        record("def", Some((l, c)), guarded(|| query::definition_location(st, &m, pos).is_some()), &mut n);
        record("refs", Some((l, c)), guarded(|| !query::all_references(st, &m, pos).is_empty()), &mut n);
        record("sighelp", Some((l, c)), guarded(|| query::signature_help(st, &m, pos).is_some()), &mut n);
        record("complete", Some((l, c)), guarded(|| !completion::auto_complete(st, &m, pos).is_empty()), &mut n);
        let loc = Location { module_reference: m, start: pos, end: Position(l, c.saturating_add(1)) };
        record("actions", Some((l, c)), guarded(|| !rewrite::code_actions(st, loc).is_empty()), &mut n);
        let stm = &mut self.state;
        record("rename", Some((l, c)), guarded(|| rewrite::rename(stm, &m, pos, "renamedVar").is_some()), &mut n);
      }
    }
    (n, panics)
  }
}

/// `vh server-show`: prints the text and the diagnostics of a few abstract contents (development aid)
pub fn show(args: &[String]) {
  silence_panics();
  let spec: Value = serde_json::from_str(&arg(args, "--files").expect("--files")).unwrap();
  let mut files = BTreeMap::new();
  for (n, c) in spec.as_object().unwrap() {
    files.insert(n.clone(), instantiate(c));
  }
  for (n, t) in &files {
    println!("--- {n}\n{t}");
  }
  println!("{}", serde_json::to_string_pretty(&fresh_diag(&files).unwrap()).unwrap());
}

/// `<trace>.hdr`: every module name the trace mentions (the specification's constant Mods)
fn write_header(trace: &str) {
  let text = String::from_utf8_lossy(&std::fs::read(trace).unwrap()).to_string();
  let mut mods = std::collections::BTreeSet::new();
  for line in text.lines() {
    let v: Value = serde_json::from_str(line).unwrap();
    for key in ["files", "u"] {
      if let Some(o) = v.get(key).and_then(|o| o.as_object()) {
        for (n, c) in o {
          mods.insert(n.clone());
          for x in c["imp"].as_array().into_iter().flatten() {
            mods.insert(x.as_str().unwrap().to_string());
          }
          if let Some(n) = c["decl"]["n"].as_str() {
            if n != "none" {
              mods.insert(n.to_string());
            }
          }
        }
      }
    }
    for p in v["pairs"].as_array().into_iter().flatten() {
      mods.insert(p[0].as_str().unwrap().to_string());
      mods.insert(p[1].as_str().unwrap().to_string());
    }
    for m in v["mods"].as_array().into_iter().flatten() {
      mods.insert(m.as_str().unwrap().to_string());
    }
    if let Some(o) = v["post"]["edges"].as_object() {
      for (n, es) in o {
        mods.insert(n.clone());
        for x in es.as_array().unwrap() {
          mods.insert(x.as_str().unwrap().to_string());
        }
      }
    }
  }
  std::fs::write(format!("{trace}.hdr"), format!("{}\n", json!({"mods": mods}))).unwrap();
}

/// `vh server-replay --ops FILE --out FILE [--queries none|sparse|dense] [--slice N]`
/// FILE: one JSON array of ops per line; the first op of each is Init.
pub fn replay(args: &[String]) {
  silence_panics();
  let ops = std::fs::read_to_string(arg(args, "--ops").expect("--ops")).unwrap();
  let out = arg(args, "--out").expect("--out");
  let queries = arg_or(args, "--queries", "none");
  let slice: usize = arg_or(args, "--slice", "100").parse().unwrap();
  samlang_services::VERIF_MODULES_PER_SLICE.store(slice, std::sync::atomic::Ordering::Relaxed);
  let mut rng = Rng::new(arg_or(args, "--seed", "1").parse().unwrap());
  let mut f = std::io::BufWriter::new(std::fs::File::create(&out).unwrap());
  let (mut histories, mut events, mut requests) = (0usize, 0usize, 0usize);
  for line in ops.lines() {
    let line = line.trim();
    if line.is_empty() {
      continue;
    }
    let v: Value = serde_json::from_str(line).unwrap();
    let ops = v.as_array().unwrap();
    histories += 1;
    let mut files = BTreeMap::new();
    let mut logged = BTreeMap::new();
    for (n, c) in ops[0]["files"].as_object().cloned().unwrap_or_default().iter() {
      let c = normalize(c);
      files.insert(n.clone(), instantiate(&c));
      logged.insert(n.clone(), c);
    }
    let mut ev = json!({"ev": "Init", "files": logged.clone(),
                        "abstract": logged.values().all(|c| c.get("text").is_none())});
    let mut srv = match Srv::new(&files) {
      Ok(s) => s,
      Err(p) => {
        ev["panic"] = json!(p);
        writeln!(f, "{}", ev).unwrap();
        continue;
      }
    };
    for (n, c) in &logged {
      srv.contents.insert(n.clone(), c.clone());
    }
    srv.freeform_seen = !srv.all_abstract();
    match guarded(|| srv.observe()) {
      Ok(o) => ev["post"] = o,
      Err(p) => ev["panic"] = json!(p),
    }
    let run_queries = |srv: &mut Srv, ev: &mut Value, rng: &mut Rng, requests: &mut usize| {
      if queries != "none" && ev.get("panic").is_none() {
        let (n, panics) = srv.query_all(rng, queries == "dense");
        *requests += n;
        ev["requests"] = json!(n);
        ev["qpanics"] = json!(panics);
      }
    };
    run_queries(&mut srv, &mut ev, &mut rng, &mut requests);
    writeln!(f, "{}", ev).unwrap();
    events += 1;
    for op in &ops[1..] {
      let mut ev = srv.exec(op);
      let dead = ev.get("panic").is_some();
      run_queries(&mut srv, &mut ev, &mut rng, &mut requests);
      writeln!(f, "{}", ev).unwrap();
      events += 1;
      if dead {
        break;
      }
    }
  }
  f.flush().unwrap();
  drop(f);
  write_header(&out);
  println!("{}", json!({"histories": histories, "events": events, "requests": requests}));
}
