//! C08: "formatting a file never changes the program it denotes".
//! Drives the real parser and the real pretty printer and records, for every case, the syntax tree
//! of the original text and the syntax tree of the re-parsed formatter output as canonical JSON
//! (no locations, no comment references, imports grouped by module and sorted).  The comparison is
//! NOT made here: spec/SyntaxTrace.tla judges every recorded line.  What is compared here is only
//! drift: the tree notion of spec/Syntax.tla against the real parser, and the spec's Print(t)
//! against the real printer's tokens.
//!
//! JSON shape (shared with spec/Syntax.tla; every key has one JSON type everywhere so that TLC can
//! compare any two values):
//!   E  {k:"id",n} {k:"cls",n,m} {k:"int",v} {k:"bool",v} {k:"str",v} {k:"tuple",es:[E]}
//!      {k:"field",e:E,n,targs:[A]} {k:"un",op,e:E} {k:"call",f:E,args:[E]} {k:"bin",op,l:E,r:E}
//!      {k:"if",c:C,t:E(block),el:E(block|if)}  C = {k:"cond",e:E} | {k:"guard",p:P,e:E}
//!      {k:"match",e:E,cases:[{p:P,b:E}]} {k:"lambda",ps:[{n,a:[A]}],b:E}
//!      {k:"block",ss:[S],fin:[E]}  S = {k:"let",p:P,a:[A],e:E} | {k:"expr",e:E}
//!   P  {k:"ptuple",es:[P]} {k:"pobject",fs:[{n,p:P,sh:bool}]} {k:"pvariant",n,data:[[P]]}
//!      {k:"pid",n} {k:"pwild"} {k:"por",alts:[P]}
//!   A  {k:"prim",n} {k:"aid",m,n,targs:[A]} {k:"generic",n} {k:"fn",args:[A],ret:A}
//!   module {imports:[{m,ns:[name]}], tops:[{k:"class"|"interface",private,n,tparams:[{n,bound:[A]}],
//!           ext:[A],tdef:[TD],members:[{public,method,n,tparams,params:[{n,ann:A}],ret:A,body:[E]}]}]}
//!   TD {k:"struct",fields:[{n,ann:A,public}]} | {k:"enum",variants:[{n,data:[[A]]}]}
use crate::util::{arg, arg_or, flag, guarded, silence_panics, Rng};
use samlang_ast::source::{
  annotation, expr, pattern, ClassMemberDeclaration, Literal, Module, Toplevel, TypeDefinition,
};
use samlang_errors::ErrorSet;
use samlang_heap::Heap;
use serde_json::{json, Value};
use std::collections::BTreeMap;
use std::io::{BufRead, Write};

// ------------------------------------------------------------------------------------------------
// canonical dump
// ------------------------------------------------------------------------------------------------

thread_local! {
  /// class names imported from two different modules in the module being dumped
  static AMBIGUOUS: std::cell::RefCell<std::collections::HashSet<String>> = std::cell::RefCell::new(Default::default());
}

/// The module a class name resolves to.  A name imported from two different modules resolves to
/// whichever import line comes last (and the checker rejects the collision): that is a function of
/// the order of the import lines, which the property puts aside, so it is dumped as "<ambiguous>".
fn d_class_module(heap: &Heap, m: &samlang_heap::ModuleReference, name: &str) -> String {
  if AMBIGUOUS.with(|a| a.borrow().contains(name)) {
    "<ambiguous>".to_string()
  } else {
    m.pretty_print(heap)
  }
}

fn d_annot(heap: &Heap, a: &annotation::T) -> Value {
  match a {
    annotation::T::Primitive(_, _, k) => json!({"k": "prim", "n": k.kind_str()}),
    annotation::T::Id(id) => d_id_annot(heap, id),
    annotation::T::Generic(_, id) => json!({"k": "generic", "n": id.name.as_str(heap)}),
    annotation::T::Fn(f) => json!({
      "k": "fn",
      "args": f.parameters.annotations.iter().map(|x| d_annot(heap, x)).collect::<Vec<_>>(),
      "ret": d_annot(heap, &f.return_type),
    }),
  }
}

fn d_id_annot(heap: &Heap, id: &annotation::Id) -> Value {
  json!({
    "k": "aid",
    "m": d_class_module(heap, &id.module_reference, id.id.name.as_str(heap)),
    "n": id.id.name.as_str(heap),
    "targs": d_targs(heap, id.type_arguments.as_ref()),
  })
}

fn d_targs(heap: &Heap, t: Option<&annotation::TypeArguments>) -> Value {
  Value::Array(t.map(|t| t.arguments.iter().map(|x| d_annot(heap, x)).collect()).unwrap_or_default())
}

fn d_opt_annot(heap: &Heap, a: Option<&annotation::T>) -> Value {
  Value::Array(a.map(|a| vec![d_annot(heap, a)]).unwrap_or_default())
}

fn d_tuple_pattern(heap: &Heap, p: &pattern::TuplePattern<()>) -> Vec<Value> {
  p.elements.iter().map(|e| d_pattern(heap, &e.pattern)).collect()
}

fn d_pattern(heap: &Heap, p: &pattern::MatchingPattern<()>) -> Value {
  match p {
    pattern::MatchingPattern::Tuple(t) => json!({"k": "ptuple", "es": d_tuple_pattern(heap, t)}),
    pattern::MatchingPattern::Object { elements, .. } => json!({
      "k": "pobject",
      "fs": elements.iter().map(|e| json!({
        "n": e.field_name.name.as_str(heap),
        "p": d_pattern(heap, &e.pattern),
        "sh": e.shorthand,
      })).collect::<Vec<_>>(),
    }),
    pattern::MatchingPattern::Variant(v) => json!({
      "k": "pvariant",
      "n": v.tag.name.as_str(heap),
      "data": v.data_variables.as_ref().map(|t| vec![Value::Array(d_tuple_pattern(heap, t))]).unwrap_or_default(),
    }),
    pattern::MatchingPattern::Id(id, _) => json!({"k": "pid", "n": id.name.as_str(heap)}),
    pattern::MatchingPattern::Wildcard { .. } => json!({"k": "pwild"}),
    pattern::MatchingPattern::Or { patterns, .. } => {
      json!({"k": "por", "alts": patterns.iter().map(|x| d_pattern(heap, x)).collect::<Vec<_>>()})
    }
  }
}

fn d_block(heap: &Heap, b: &expr::Block<()>) -> Value {
  let ss: Vec<Value> = b
    .statements
    .iter()
    .map(|s| match s {
      expr::Statement::Declaration(d) => json!({
        "k": "let",
        "p": d_pattern(heap, &d.pattern),
        "a": d_opt_annot(heap, d.annotation.as_ref()),
        "e": d_expr(heap, &d.assigned_expression),
      }),
      expr::Statement::Expression(e) => json!({"k": "expr", "e": d_expr(heap, e)}),
    })
    .collect();
  let fin: Vec<Value> = b.expression.as_ref().map(|e| vec![d_expr(heap, e)]).unwrap_or_default();
  json!({"k": "block", "ss": ss, "fin": fin})
}

fn d_if(heap: &Heap, e: &expr::IfElse<()>) -> Value {
  let c = match e.condition.as_ref() {
    expr::IfElseCondition::Expression(c) => json!({"k": "cond", "e": d_expr(heap, c)}),
    expr::IfElseCondition::Guard(p, c) => json!({"k": "guard", "p": d_pattern(heap, p), "e": d_expr(heap, c)}),
  };
  let el = match e.e2.as_ref() {
    expr::IfElseOrBlock::IfElse(n) => d_if(heap, n),
    expr::IfElseOrBlock::Block(b) => d_block(heap, b),
  };
  json!({"k": "if", "c": c, "t": d_block(heap, &e.e1), "el": el})
}

pub fn d_expr(heap: &Heap, e: &expr::E<()>) -> Value {
  match e {
    expr::E::Literal(_, Literal::Bool(b)) => json!({"k": "bool", "v": b.to_string()}),
    expr::E::Literal(_, Literal::Int(i)) => json!({"k": "int", "v": i.to_string()}),
    expr::E::Literal(_, Literal::String(s)) => json!({"k": "str", "v": s.as_str(heap)}),
    expr::E::LocalId(_, id) => json!({"k": "id", "n": id.name.as_str(heap)}),
    expr::E::ClassId(_, m, id) => {
      json!({"k": "cls", "n": id.name.as_str(heap), "m": d_class_module(heap, m, id.name.as_str(heap))})
    }
    expr::E::Tuple(_, l) => {
      json!({"k": "tuple", "es": l.expressions.iter().map(|x| d_expr(heap, x)).collect::<Vec<_>>()})
    }
    expr::E::FieldAccess(f) => json!({
      "k": "field", "e": d_expr(heap, &f.object), "n": f.field_name.name.as_str(heap),
      "targs": d_targs(heap, f.explicit_type_arguments.as_ref()),
    }),
    expr::E::MethodAccess(f) => json!({
      "k": "field", "e": d_expr(heap, &f.object), "n": f.method_name.name.as_str(heap),
      "targs": d_targs(heap, f.explicit_type_arguments.as_ref()),
    }),
    expr::E::Unary(u) => json!({"k": "un", "op": u.operator.kind_str(), "e": d_expr(heap, &u.argument)}),
    expr::E::Call(c) => json!({
      "k": "call", "f": d_expr(heap, &c.callee),
      "args": c.arguments.expressions.iter().map(|x| d_expr(heap, x)).collect::<Vec<_>>(),
    }),
    expr::E::Binary(b) => json!({
      "k": "bin", "op": b.operator.kind_str(), "l": d_expr(heap, &b.e1), "r": d_expr(heap, &b.e2),
    }),
    expr::E::IfElse(i) => d_if(heap, i),
    expr::E::Match(m) => json!({
      "k": "match", "e": d_expr(heap, &m.matched),
      "cases": m.cases.iter().map(|c| json!({"p": d_pattern(heap, &c.pattern), "b": d_expr(heap, &c.body)})).collect::<Vec<_>>(),
    }),
    expr::E::Lambda(l) => json!({
      "k": "lambda",
      "ps": l.parameters.parameters.iter().map(|p| json!({
        "n": p.name.name.as_str(heap), "a": d_opt_annot(heap, p.annotation.as_ref()),
      })).collect::<Vec<_>>(),
      "b": d_expr(heap, &l.body),
    }),
    expr::E::Block(b) => d_block(heap, b),
  }
}

fn d_tparams(heap: &Heap, t: Option<&annotation::TypeParameters>) -> Value {
  Value::Array(
    t.map(|t| {
      t.parameters
        .iter()
        .map(|p| {
          json!({
            "n": p.name.name.as_str(heap),
            "bound": p.bound.as_ref().map(|b| vec![d_id_annot(heap, b)]).unwrap_or_default(),
          })
        })
        .collect()
    })
    .unwrap_or_default(),
  )
}

fn d_member(heap: &Heap, m: &ClassMemberDeclaration, body: Option<&expr::E<()>>) -> Value {
  json!({
    "public": m.is_public, "method": m.is_method, "n": m.name.name.as_str(heap),
    "tparams": d_tparams(heap, m.type_parameters.as_ref()),
    "params": m.parameters.parameters.iter().map(|p| json!({
      "n": p.name.name.as_str(heap), "ann": d_annot(heap, &p.annotation),
    })).collect::<Vec<_>>(),
    "ret": d_annot(heap, &m.return_type),
    "body": body.map(|b| vec![d_expr(heap, b)]).unwrap_or_default(),
  })
}

pub fn d_module(heap: &Heap, m: &Module<()>) -> Value {
  // imports: "up to the documented merging and sorting of import lines" — group by module,
  // concatenate the member lists, sort both levels
  let mut imports: BTreeMap<String, Vec<String>> = BTreeMap::new();
  let mut from: BTreeMap<String, std::collections::BTreeSet<String>> = BTreeMap::new();
  for i in &m.imports {
    let module = i.imported_module.pretty_print(heap);
    let e = imports.entry(module.clone()).or_default();
    for n in &i.imported_members {
      e.push(n.name.as_str(heap).to_string());
      from.entry(n.name.as_str(heap).to_string()).or_default().insert(module.clone());
    }
  }
  AMBIGUOUS.with(|a| {
    *a.borrow_mut() = from.into_iter().filter(|(_, ms)| ms.len() > 1).map(|(n, _)| n).collect();
  });
  let imports: Vec<Value> = imports
    .into_iter()
    .map(|(m, mut ns)| {
      ns.sort();
      json!({"m": m, "ns": ns})
    })
    .collect();
  let tops: Vec<Value> = m
    .toplevels
    .iter()
    .map(|t| match t {
      Toplevel::Interface(i) => json!({
        "k": "interface", "private": i.private, "n": i.name.name.as_str(heap),
        "tparams": d_tparams(heap, i.type_parameters.as_ref()),
        "ext": i.extends_or_implements_nodes.as_ref().map(|x| x.nodes.iter().map(|a| d_id_annot(heap, a)).collect::<Vec<_>>()).unwrap_or_default(),
        "tdef": [],
        "members": i.members.members.iter().map(|m| d_member(heap, m, None)).collect::<Vec<_>>(),
      }),
      Toplevel::Class(c) => json!({
        "k": "class", "private": c.private, "n": c.name.name.as_str(heap),
        "tparams": d_tparams(heap, c.type_parameters.as_ref()),
        "ext": c.extends_or_implements_nodes.as_ref().map(|x| x.nodes.iter().map(|a| d_id_annot(heap, a)).collect::<Vec<_>>()).unwrap_or_default(),
        "tdef": match &c.type_definition {
          None => vec![],
          Some(TypeDefinition::Struct { fields, .. }) => vec![json!({
            "k": "struct",
            "fields": fields.iter().map(|f| json!({
              "n": f.name.name.as_str(heap), "ann": d_annot(heap, &f.annotation), "public": f.is_public,
            })).collect::<Vec<_>>(),
          })],
          Some(TypeDefinition::Enum { variants, .. }) => vec![json!({
            "k": "enum",
            "variants": variants.iter().map(|v| json!({
              "n": v.name.name.as_str(heap),
              "data": v.associated_data_types.as_ref().map(|l| vec![Value::Array(l.annotations.iter().map(|a| d_annot(heap, a)).collect())]).unwrap_or_default(),
            })).collect::<Vec<_>>(),
          })],
        },
        "members": c.members.members.iter().map(|m| d_member(heap, &m.decl, Some(&m.body))).collect::<Vec<_>>(),
      }),
    })
    .collect();
  json!({"imports": imports, "tops": tops})
}

// ------------------------------------------------------------------------------------------------
// driving the real parser / printer
// ------------------------------------------------------------------------------------------------

pub struct Parsed {
  pub heap: Heap,
  pub module: Module<()>,
  pub errors: Vec<String>,
}

pub fn parse_module(text: &str) -> Result<Parsed, String> {
  guarded(|| {
    let mut heap = Heap::new();
    let mut es = ErrorSet::new();
    let mr = heap.alloc_module_reference_from_string_vec(vec!["Test".to_string()]);
    let module = samlang_parser::parse_source_module_from_text(text, mr, &mut heap, &mut es);
    let errors: Vec<String> = es
      .errors()
      .iter()
      .map(|e| format!("{}", e.to_ide_format(&heap, &std::collections::HashMap::new()).ide_error))
      .collect();
    Parsed { heap, module, errors }
  })
}

/// One formatting round trip at one width.
pub struct Trip {
  pub width: usize,
  pub output: String,
  /// syntax errors of the re-parse, or the panic message of printer/parser
  pub errors: Vec<String>,
  pub reparsed: Value,
}

pub fn format_at(p: &Parsed, width: usize) -> Result<String, String> {
  guarded(|| samlang_printer::pretty_print_source_module(&p.heap, width, &p.module))
}

pub fn round_trip(p: &Parsed, width: usize) -> Trip {
  match format_at(p, width) {
    Err(panic) => Trip { width, output: String::new(), errors: vec![format!("printer panicked: {panic}")], reparsed: json!({}) },
    Ok(output) => match parse_module(&output) {
      Err(panic) => Trip { width, output, errors: vec![format!("parser panicked: {panic}")], reparsed: json!({}) },
      Ok(q) => {
        let reparsed = d_module(&q.heap, &q.module);
        Trip { width, output, errors: q.errors, reparsed }
      }
    },
  }
}

pub const WIDTHS: [usize; 4] = [40, 60, 100, 120];

const EXPR_PREFIX: &str = "class Main { function f(a: int, b: int, c: int): int = ";
const EXPR_SUFFIX: &str = " }";

pub fn wrap_expr(e: &str) -> String {
  format!("{EXPR_PREFIX}{e}{EXPR_SUFFIX}")
}

/// body of the only member of the only class of a dumped module
fn body_of(module_dump: &Value) -> Value {
  module_dump["tops"][0]["members"][0]["body"][0].clone()
}

/// Is the dumped module still `class Main { function f(a: int, b: int, c: int): int = <e> }`?
fn same_wrapper(a: &Value, b: &Value) -> bool {
  let strip = |v: &Value| {
    let mut v = v.clone();
    if let Some(m) = v["tops"][0]["members"][0].as_object_mut() {
      m.remove("body");
    }
    v
  };
  a["tops"].as_array().map(|x| x.len()) == Some(1)
    && b["tops"].as_array().map(|x| x.len()) == Some(1)
    && strip(a) == strip(b)
}

fn strip_ws(s: &str) -> String {
  s.chars().filter(|c| !c.is_whitespace()).collect()
}

/// Is `v` (a dumped E / module / anything) inside the region of the open finding "re-association"?
/// A binary node with an associative operator whose left operand is not a binary node of the same
/// precedence level and whose right operand is the same operator with the same property.
/// (Reported next to every record for cross-checking only; the verdict is SyntaxTrace.tla's.)
fn level(op: &str) -> i32 {
  match op {
    "*" | "/" | "%" => 5,
    "+" | "-" => 4,
    "::" => 6,
    "&&" => 2,
    "||" => 1,
    _ => 3,
  }
}
fn at_level(v: &Value, lvl: i32) -> bool {
  v["k"] == "bin" && level(v["op"].as_str().unwrap_or("")) == lvl
}
pub fn in_assoc_region(v: &Value) -> bool {
  match v {
    Value::Array(a) => a.iter().any(in_assoc_region),
    Value::Object(o) => {
      if v["k"] == "bin" {
        let op = v["op"].as_str().unwrap_or("");
        if matches!(op, "+" | "*" | "&&" | "||" | "::") {
          let lvl = level(op);
          let r = &v["r"];
          if !at_level(&v["l"], lvl) && r["k"] == "bin" && r["op"] == v["op"] && !at_level(&r["l"], lvl) {
            return true;
          }
        }
      }
      o.values().any(in_assoc_region)
    }
    _ => false,
  }
}

// ------------------------------------------------------------------------------------------------
// syntax-trees: replay of the trees enumerated by TLC from spec/Syntax.tla
// ------------------------------------------------------------------------------------------------

/// Groups the round trips at all widths by outcome: [{"widths":[..], "err":bool, "reparsed":tree, "errors":[..]}]
fn trips_of(p: &Parsed, project: &dyn Fn(&Trip) -> Value) -> (Vec<Value>, Vec<Trip>) {
  let mut groups: Vec<(Vec<usize>, bool, Value, Vec<String>)> = vec![];
  let mut trips = vec![];
  for &width in WIDTHS.iter() {
    let t = round_trip(p, width);
    let err = !t.errors.is_empty();
    let reparsed = project(&t);
    if let Some(g) = groups.iter_mut().find(|g| g.1 == err && g.2 == reparsed) {
      g.0.push(width);
    } else {
      groups.push((vec![width], err, reparsed, t.errors.iter().take(2).cloned().collect()));
    }
    trips.push(t);
  }
  (groups.into_iter().map(|(w, e, r, es)| json!({"widths": w, "err": e, "reparsed": r, "errors": es})).collect(), trips)
}

#[derive(Default)]
struct TreeStats {
  n: usize,
  records: usize,
  trips: usize,
  real_fail: usize,
  model_fail: usize,
  in_region: usize,
  n_bind_mismatch: usize,
  n_not_parseable: usize,
  n_print_drift: usize,
  n_model_drift: usize,
  bind_mismatch: Vec<Value>,
  not_parseable: Vec<Value>,
  print_drift: Vec<Value>,
  model_verdict_drift: Vec<Value>,
  out: Vec<String>,
}

fn push5(v: &mut Vec<Value>, x: Value) {
  if v.len() < 5 {
    v.push(x);
  }
}

fn tree_case(case: &str, line: &str, st: &mut TreeStats) {
  let c: Value = serde_json::from_str(line).unwrap();
  st.n += 1;
  let join = |k: &str| c[k].as_array().unwrap().iter().map(|x| x.as_str().unwrap()).collect::<Vec<_>>().join(" ");
  let full = join("f");
  let spec_print = join("p");
  let src = wrap_expr(&full);
  // (a) the fully parenthesised text, parsed by the real parser, is the spec's tree
  let p = match parse_module(&src) {
    Ok(p) if p.errors.is_empty() => p,
    Ok(p) => {
      st.n_not_parseable += 1;
      push5(&mut st.not_parseable, json!({"src": full, "errors": p.errors}));
      return;
    }
    Err(e) => {
      st.n_not_parseable += 1;
      push5(&mut st.not_parseable, json!({"src": full, "errors": [e]}));
      return;
    }
  };
  let orig_module = d_module(&p.heap, &p.module);
  let orig = body_of(&orig_module);
  if orig != c["t"] {
    st.n_bind_mismatch += 1;
    push5(&mut st.bind_mismatch, json!({"src": full, "spec": c["t"], "real": orig}));
  }
  if in_assoc_region(&orig) {
    st.in_region += 1;
  }
  // (b) the verdict data: format at every width, re-parse, record both trees
  let (trips, raw) = trips_of(&p, &|t: &Trip| {
    // the wrapper around the expression is part of the tree that must survive
    let r = if !t.errors.is_empty() || same_wrapper(&orig_module, &t.reparsed) { body_of(&t.reparsed) } else { json!({"k": "wrapper-changed"}) };
    if r.is_null() { json!({"k": "missing"}) } else { r }
  });
  // (c) drift: the real printer's tokens against the spec's Print(t) (widest layout)
  if let Some(t) = raw.last() {
    let body_text = t
      .output
      .trim()
      .strip_prefix("class Main {")
      .and_then(|s| s.trim().strip_prefix("function f(a: int, b: int, c: int): int ="))
      .and_then(|s| s.trim_end().strip_suffix('}'))
      .unwrap_or("");
    if strip_ws(body_text) != strip_ws(&spec_print) {
      st.n_print_drift += 1;
      push5(&mut st.print_drift, json!({"src": full, "spec": spec_print, "real": body_text.trim()}));
    }
  }
  let any_fail = trips.iter().any(|t| t["err"] == true || t["reparsed"] != orig);
  st.records += 1;
  st.trips += trips.len();
  st.out.push(json!({"case": case, "kind": "expr", "orig": orig, "trips": trips}).to_string());
  if any_fail {
    st.real_fail += 1;
  }
  let model_ok = c["ok"].as_bool().unwrap_or(true);
  if !model_ok {
    st.model_fail += 1;
  }
  if model_ok == any_fail {
    st.n_model_drift += 1;
    push5(
      &mut st.model_verdict_drift,
      json!({"src": full, "spec_print": spec_print, "model_round_trip_ok": model_ok, "real_round_trip_ok": !any_fail}),
    );
  }
}

/// input lines: {"t": tree, "p": [tokens of Print(t)], "f": [tokens, fully parenthesised], "ok": bool}
/// trace lines: {"case": "<prefix><line number>", "kind":"expr", "orig", "trips":[{"widths","err","reparsed","errors"}]}
/// stdout: summary with drift counts
pub fn trees(args: &[String]) {
  silence_panics();
  let input = arg(args, "--in").expect("--in");
  let out = arg(args, "--out").expect("--out");
  let prefix = arg_or(args, "--prefix", "t");
  let lines: Vec<String> = std::io::BufReader::new(std::fs::File::open(&input).unwrap())
    .lines()
    .map(|l| l.unwrap())
    .filter(|l| !l.trim().is_empty())
    .collect();
  let threads = std::thread::available_parallelism().map(|n| n.get()).unwrap_or(4).min(16).max(1);
  let chunk = lines.len().div_ceil(threads).max(1);
  let mut parts: Vec<TreeStats> = std::thread::scope(|s| {
    let handles: Vec<_> = lines
      .chunks(chunk)
      .enumerate()
      .map(|(k, ch)| {
        let prefix = prefix.clone();
        s.spawn(move || {
          silence_panics();
          let mut st = TreeStats::default();
          for (i, line) in ch.iter().enumerate() {
            tree_case(&format!("{prefix}{}", k * chunk + i + 1), line, &mut st);
          }
          st
        })
      })
      .collect();
    handles.into_iter().map(|h| h.join().unwrap()).collect()
  });
  let mut w = std::io::BufWriter::new(std::fs::File::create(&out).unwrap());
  let mut t = TreeStats::default();
  for p in parts.iter_mut() {
    for l in p.out.drain(..) {
      writeln!(w, "{l}").unwrap();
    }
    t.n += p.n;
    t.records += p.records;
    t.trips += p.trips;
    t.real_fail += p.real_fail;
    t.model_fail += p.model_fail;
    t.in_region += p.in_region;
    t.n_bind_mismatch += p.n_bind_mismatch;
    t.n_not_parseable += p.n_not_parseable;
    t.n_print_drift += p.n_print_drift;
    t.n_model_drift += p.n_model_drift;
    for x in p.bind_mismatch.drain(..) { push5(&mut t.bind_mismatch, x); }
    for x in p.not_parseable.drain(..) { push5(&mut t.not_parseable, x); }
    for x in p.print_drift.drain(..) { push5(&mut t.print_drift, x); }
    for x in p.model_verdict_drift.drain(..) { push5(&mut t.model_verdict_drift, x); }
  }
  w.flush().unwrap();
  println!(
    "{}",
    json!({
      "trees": t.n, "records": t.records, "round_trips": t.trips,
      "real_round_trip_failures": t.real_fail, "model_round_trip_failures": t.model_fail,
      "in_assoc_region": t.in_region,
      "not_parseable": t.n_not_parseable, "not_parseable_samples": t.not_parseable,
      "bind_mismatch": t.n_bind_mismatch, "bind_mismatch_samples": t.bind_mismatch,
      "print_drift": t.n_print_drift, "print_drift_samples": t.print_drift,
      "model_verdict_drift": t.n_model_drift, "model_verdict_drift_samples": t.model_verdict_drift,
    })
  );
}

// ------------------------------------------------------------------------------------------------
// syntax-modules: whole-module round trips (corpus files, generated modules, explicit files)
// ------------------------------------------------------------------------------------------------

fn module_record(case: &str, text: &str, stats: &mut ModStats) {
  let p = match parse_module(text) {
    Ok(p) if p.errors.is_empty() => p,
    Ok(p) => {
      stats.skipped_syntax_errors += 1;
      push5(&mut stats.skipped_samples, json!({"case": case, "errors": p.errors.iter().take(2).collect::<Vec<_>>()}));
      return;
    }
    Err(e) => {
      stats.skipped_syntax_errors += 1;
      push5(&mut stats.skipped_samples, json!({"case": case, "errors": [format!("parser panicked: {e}")]}));
      return;
    }
  };
  stats.modules += 1;
  let orig = d_module(&p.heap, &p.module);
  if in_assoc_region(&orig) {
    stats.in_region += 1;
  }
  let (trips, _) = trips_of(&p, &|t: &Trip| t.reparsed.clone());
  stats.records += 1;
  stats.trips += trips.len();
  stats.out.push(json!({"case": case, "kind": "module", "orig": orig, "trips": trips}).to_string());
}

#[derive(Default)]
struct ModStats {
  modules: usize,
  records: usize,
  trips: usize,
  in_region: usize,
  skipped_syntax_errors: usize,
  skipped_samples: Vec<Value>,
  out: Vec<String>,
}

fn sam_files(dir: &str) -> Vec<String> {
  let mut v: Vec<String> = std::fs::read_dir(dir)
    .map(|rd| {
      rd.filter_map(|e| e.ok())
        .map(|e| e.path())
        .filter(|p| p.extension().map(|x| x == "sam").unwrap_or(false))
        .map(|p| p.to_string_lossy().to_string())
        .collect()
    })
    .unwrap_or_default();
  v.sort();
  v
}

/// --corpus DIR[,DIR..]  every .sam file;  --gen N --seed S  generated modules;  --files a.sam,b.sam  explicit
/// files;  --comments K  additionally, for every corpus file, K variants with one comment inserted at a
/// token boundary (the tree must not change: comments are not part of the tree).  The text of every
/// generated module / comment variant is written to --srcdir so that a failing case can be replayed.
pub fn modules(args: &[String]) {
  silence_panics();
  let out = arg(args, "--out").expect("--out");
  let srcdir = arg(args, "--srcdir");
  if let Some(d) = &srcdir {
    std::fs::create_dir_all(d).unwrap();
  }
  let seed: u64 = arg_or(args, "--seed", "1").parse().unwrap();
  let mut work: Vec<(String, String)> = vec![];
  let mut corpus_files = 0;
  let mut comment_variants_n = 0;
  if let Some(dirs) = arg(args, "--corpus") {
    let k: usize = arg_or(args, "--comments", "0").parse().unwrap();
    let mut rng = Rng::new(seed ^ 0xC0FFEE);
    for d in dirs.split(',') {
      for f in sam_files(d) {
        let text = std::fs::read_to_string(&f).unwrap();
        corpus_files += 1;
        if k > 0 {
          let d = srcdir.clone().expect("--srcdir is required with --comments");
          for (i, v) in comment_variants(&text, k, &mut rng).into_iter().enumerate() {
            let name = format!("{}-comment{i}.sam", std::path::Path::new(&f).file_stem().unwrap().to_string_lossy());
            let path = format!("{d}/{name}");
            std::fs::write(&path, &v).unwrap();
            work.push((path, v));
            comment_variants_n += 1;
          }
        }
        work.push((f, text));
      }
    }
  }
  if let Some(files) = arg(args, "--files") {
    for f in files.split(',') {
      work.push((f.to_string(), std::fs::read_to_string(f).unwrap()));
    }
  }
  let n: usize = arg_or(args, "--gen", "0").parse().unwrap();
  let mut gen_samples = vec![];
  if n > 0 {
    crate::syntax_gen::AVOID_ASSOC_REGION.with(|a| a.set(flag(args, "--avoid-assoc-region")));
    let d = srcdir.clone().expect("--srcdir is required with --gen");
    for i in 0..n {
      let mut rng = Rng::new(seed.wrapping_mul(1_000_003).wrapping_add(i as u64));
      let text = crate::syntax_gen::module(&mut rng);
      let path = format!("{d}/gen-{seed}-{i}.sam");
      std::fs::write(&path, &text).unwrap();
      if i < 2 {
        gen_samples.push(text.clone());
      }
      work.push((path, text));
    }
  }
  let threads = std::thread::available_parallelism().map(|n| n.get()).unwrap_or(4).min(16).max(1);
  // round-robin so that the big corpus files spread over the threads; output order is restored below
  let parts: Vec<Vec<(usize, ModStats)>> = std::thread::scope(|s| {
    let work = &work;
    let handles: Vec<_> = (0..threads)
      .map(|tid| {
        s.spawn(move || {
          silence_panics();
          let mut v = vec![];
          let mut i = tid;
          while i < work.len() {
            let mut st = ModStats::default();
            module_record(&work[i].0, &work[i].1, &mut st);
            v.push((i, st));
            i += threads;
          }
          v
        })
      })
      .collect();
    handles.into_iter().map(|h| h.join().unwrap()).collect()
  });
  let mut all: Vec<(usize, ModStats)> = parts.into_iter().flatten().collect();
  all.sort_by_key(|x| x.0);
  let mut w = std::io::BufWriter::new(std::fs::File::create(&out).unwrap());
  let mut stats = ModStats::default();
  for (_, mut st) in all {
    for l in st.out.drain(..) {
      writeln!(w, "{l}").unwrap();
    }
    stats.modules += st.modules;
    stats.records += st.records;
    stats.trips += st.trips;
    stats.in_region += st.in_region;
    stats.skipped_syntax_errors += st.skipped_syntax_errors;
    for x in st.skipped_samples.drain(..) {
      push5(&mut stats.skipped_samples, x);
    }
  }
  w.flush().unwrap();
  println!(
    "{}",
    json!({"corpus_files": corpus_files, "comment_variants": comment_variants_n, "modules": stats.modules, "records": stats.records,
           "round_trips": stats.trips, "in_assoc_region": stats.in_region,
           "skipped_syntax_errors": stats.skipped_syntax_errors, "skipped_samples": stats.skipped_samples,
           "generated": n, "generated_samples": gen_samples})
  );
}

/// Positions (byte offsets) at which a comment can be inserted without changing the token stream:
/// the starts of tokens, found with a small scanner that skips string literals and comments.
fn token_starts(text: &str) -> Vec<usize> {
  let b = text.as_bytes();
  let mut v = vec![];
  let mut i = 0;
  while i < b.len() {
    let c = b[i];
    if c.is_ascii_whitespace() {
      i += 1;
    } else if c == b'/' && i + 1 < b.len() && b[i + 1] == b'/' {
      while i < b.len() && b[i] != b'\n' {
        i += 1;
      }
    } else if c == b'/' && i + 1 < b.len() && b[i + 1] == b'*' {
      i += 2;
      while i + 1 < b.len() && !(b[i] == b'*' && b[i + 1] == b'/') {
        i += 1;
      }
      i += 2;
    } else if c == b'"' {
      v.push(i);
      i += 1;
      while i < b.len() && b[i] != b'"' {
        if b[i] == b'\\' {
          i += 1;
        }
        i += 1;
      }
      i += 1;
    } else if c.is_ascii_alphanumeric() || c == b'_' {
      v.push(i);
      while i < b.len() && (b[i].is_ascii_alphanumeric() || b[i] == b'_') {
        i += 1;
      }
    } else {
      v.push(i);
      // multi-character operators must not be split: start positions only, so just skip them whole
      let two = if i + 1 < b.len() { &b[i..i + 2] } else { &b[i..i + 1] };
      let three = if i + 2 < b.len() { &b[i..i + 3] } else { two };
      if three == b"..." {
        i += 3;
      } else if matches!(two, b"::" | b"->" | b"<=" | b">=" | b"==" | b"!=" | b"&&" | b"||") {
        i += 2;
      } else {
        i += 1;
      }
    }
  }
  v
}

fn comment_variants(text: &str, k: usize, rng: &mut Rng) -> Vec<String> {
  let starts = token_starts(text);
  if starts.is_empty() {
    return vec![];
  }
  let kinds = ["// c\n", "/* c */ ", "/** c */ "];
  (0..k)
    .map(|i| {
      let at = starts[rng.below(starts.len())];
      let c = kinds[i % kinds.len()];
      format!("{}{}{}", &text[..at], c, &text[at..])
    })
    .collect()
}

// ------------------------------------------------------------------------------------------------
// syntax-strings: string literal contents enumerated by TLC (spec/Syntax.tla, StrLits)
// ------------------------------------------------------------------------------------------------

/// input lines: {"raw": [characters between the quotes], "ok": model verdict}; the literal is put in operand
/// position of a small module; trace lines as for modules
pub fn strings(args: &[String]) {
  silence_panics();
  let input = arg(args, "--in").expect("--in");
  let out = arg(args, "--out").expect("--out");
  let mut w = std::io::BufWriter::new(std::fs::File::create(&out).unwrap());
  let f = std::io::BufReader::new(std::fs::File::open(&input).unwrap());
  let (mut n, mut records, mut trips_n, mut skipped, mut real_fail, mut model_fail, mut drift) = (0, 0, 0, 0, 0, 0, 0);
  let mut drift_samples = vec![];
  let mut samples = vec![];
  for line in f.lines() {
    let line = line.unwrap();
    if line.trim().is_empty() {
      continue;
    }
    let c: Value = serde_json::from_str(&line).unwrap();
    let raw: String = c["raw"].as_array().unwrap().iter().map(|x| x.as_str().unwrap()).collect();
    n += 1;
    let e = string_case_expr(&raw);
    let src = wrap_expr(&e);
    let p = match parse_module(&src) {
      Ok(p) if p.errors.is_empty() => p,
      _ => {
        skipped += 1;
        continue;
      }
    };
    let orig = d_module(&p.heap, &p.module);
    let (trips, _) = trips_of(&p, &|t: &Trip| t.reparsed.clone());
    let any_fail = trips.iter().any(|t| t["err"] == true || t["reparsed"] != orig);
    records += 1;
    trips_n += trips.len();
    writeln!(w, "{}", json!({"case": format!("s{n}"), "kind": "module", "orig": orig, "trips": trips})).unwrap();
    if samples.len() < 3 && raw.contains('"') {
      samples.push(e.clone());
    }
    if any_fail {
      real_fail += 1;
    }
    let model_ok = c["ok"].as_bool().unwrap_or(true);
    if !model_ok {
      model_fail += 1;
    }
    if model_ok == any_fail {
      drift += 1;
      push5(&mut drift_samples, json!({"raw": raw, "model_round_trip_ok": model_ok, "real_round_trip_ok": !any_fail}));
    }
  }
  w.flush().unwrap();
  println!(
    "{}",
    json!({"literals": n, "records": records, "round_trips": trips_n, "not_parseable": skipped, "real_round_trip_failures": real_fail,
           "model_round_trip_failures": model_fail, "model_verdict_drift": drift, "model_verdict_drift_samples": drift_samples,
           "samples": samples})
  );
}

/// the expression a string literal body is tested in
pub fn string_case_expr(raw: &str) -> String {
  format!("Process.println(\"{raw}\" :: \"x\")")
}

// ------------------------------------------------------------------------------------------------
// syntax-probe: which revision of the printer is this?  (selects the revision of spec/Syntax.tla
// the drift comparison is made against; never a verdict)
// ------------------------------------------------------------------------------------------------

pub fn probe(_args: &[String]) {
  silence_panics();
  let body = |e: &str| -> String {
    parse_module(&wrap_expr(e))
      .ok()
      .and_then(|p| format_at(&p, 120).ok())
      .map(|o| strip_ws(o.split_once("int =").map(|x| x.1).unwrap_or("")))
      .unwrap_or_default()
  };
  let mut fixes = String::new();
  if body("a * (b / c)").starts_with("a*(b/c)") {
    fixes.push('2');
  }
  if body("!(!a)").starts_with("!(!a)") {
    fixes.push('3');
  }
  if body("(a * b) :: c").starts_with("(a*b)::c") {
    fixes.push('4');
  }
  if body("\"q\\\"q\"").starts_with("\"q\\\"q\"") {
    fixes.push('5');
  }
  if body("(a.foo) < b").starts_with("(a.foo)<b") {
    fixes.push('6');
  }
  println!("{}", json!({"fixes": if fixes.is_empty() { "none".to_string() } else { fixes }}));
}

// ------------------------------------------------------------------------------------------------
// syntax-one: one expression or one file, verbosely (debugging, replay display)
// ------------------------------------------------------------------------------------------------

pub fn one(args: &[String]) {
  silence_panics();
  let text = if let Some(e) = arg(args, "--expr") {
    wrap_expr(&e)
  } else if let Some(f) = arg(args, "--file") {
    std::fs::read_to_string(f).unwrap()
  } else {
    let mut s = String::new();
    std::io::Read::read_to_string(&mut std::io::stdin(), &mut s).unwrap();
    s
  };
  let p = match parse_module(&text) {
    Ok(p) => p,
    Err(e) => {
      println!("{}", json!({"parser_panic": e}));
      return;
    }
  };
  let orig = d_module(&p.heap, &p.module);
  let mut outs = vec![];
  for &width in WIDTHS.iter() {
    let t = round_trip(&p, width);
    outs.push(json!({"width": t.width, "output": t.output, "errors": t.errors, "same_tree": t.reparsed == orig}));
  }
  let show_tree = flag(args, "--tree");
  println!(
    "{}",
    serde_json::to_string_pretty(&json!({
      "input_errors": p.errors, "in_assoc_region": in_assoc_region(&orig),
      "tree": if show_tree { orig } else { Value::Null }, "formatted": outs,
    }))
    .unwrap()
  );
}
